import GSProofs.Lemmas.MsgQueueAlloc
import GSProofs.Lemmas.MsgQueueBuilder
/-!
# Message queue: the memory ledger invariant

`tot s.alloc s.peer = held s`: what the allocator accounts to the peer is exactly the bytes of the
queued builders, of the message in flight, and of the reservations granted to callers that have not
yet reached `buildMessage`.
-/
namespace GS.MQ
open GS.Alloc

/-! ## waiting callers vs. the allocator's waiting list -/

def unanswered (ws : List Waiter) : List (Nat × Nat) :=
  (ws.filter (·.answer == none)).map fun w => (w.ticket, w.size)

def grantedBytes (ws : List Waiter) : Nat :=
  sumNat ((ws.filter (·.answer == some true)).map (·.size))

theorem heldGranted_eq (s : State) : heldGranted s = grantedBytes s.waiters := rfl

def mark (t : Nat) (v : Bool) (ws : List Waiter) : List Waiter :=
  ws.map fun w => if w.ticket == t then { w with answer := some v } else w

theorem mark_tickets (t : Nat) (v : Bool) (ws : List Waiter) : (mark t v ws).map (·.ticket) = ws.map (·.ticket) := by
  unfold mark; rw [List.map_map]; apply List.map_congr_left; intro w _; simp only [Function.comp]; split <;> rfl

theorem mark_absent (t : Nat) (v : Bool) (ws : List Waiter) (h : t ∉ ws.map (·.ticket)) : mark t v ws = ws := by
  unfold mark
  induction ws with
  | nil => rfl
  | cons w r ih =>
    simp only [List.map_cons, List.mem_cons, not_or] at h
    simp only [List.map_cons]
    have : (w.ticket == t) = false := by
      cases hh : (w.ticket == t) with
      | false => rfl
      | true => exfalso; apply h.1; have : w.ticket = t := by simpa using hh
                exact this.symm
    rw [this, ih h.2]; simp

theorem unanswered_ticket_mem {ws : List Waiter} {t a : Nat} (h : (t, a) ∈ unanswered ws) :
    t ∈ ws.map (·.ticket) := by
  unfold unanswered at h
  obtain ⟨w, hw, he⟩ := List.mem_map.mp h
  have := (List.mem_filter.mp hw).1
  cases he
  exact List.mem_map.mpr ⟨w, this, rfl⟩

/-- answering the head of the unanswered list with "granted" -/
theorem mark_granted : ∀ (ws : List Waiter) (t a : Nat) (rest : List (Nat × Nat)),
    (ws.map (·.ticket)).Nodup → unanswered ws = (t, a) :: rest →
    unanswered (mark t true ws) = rest ∧ grantedBytes (mark t true ws) = grantedBytes ws + a
  | [], _, _, _, _, h => by simp [unanswered] at h
  | w :: r, t, a, rest, hn, h => by
    simp only [List.map_cons, List.nodup_cons] at hn
    cases hans : w.answer with
    | none =>
      have hu : unanswered (w :: r) = (w.ticket, w.size) :: unanswered r := by
        simp [unanswered, List.filter_cons, hans]
      rw [hu] at h
      simp only [List.cons.injEq, Prod.mk.injEq] at h
      obtain ⟨⟨ht, ha⟩, hr⟩ := h
      have habs := mark_absent t true r (ht ▸ hn.1)
      have hm : mark t true (w :: r) = { w with answer := some true } :: r := by
        show (if w.ticket == t then _ else _) :: mark t true r = _
        rw [habs]; simp [ht]
      rw [hm]
      constructor
      · simp [unanswered, List.filter_cons] at hr ⊢; exact hr
      · simp [grantedBytes, List.filter_cons, hans, sumNat_cons, ha]; omega
    | some b =>
      have hu : unanswered (w :: r) = unanswered r := by
        simp [unanswered, List.filter_cons, hans]
      rw [hu] at h
      have htr : t ∈ r.map (·.ticket) := unanswered_ticket_mem (a := a) (by rw [h]; simp)
      have hne : (w.ticket == t) = false := by
        cases hh : (w.ticket == t) with
        | false => rfl
        | true => exfalso; apply hn.1; have : w.ticket = t := by simpa using hh
                  rw [this]; exact htr
      obtain ⟨i1, i2⟩ := mark_granted r t a rest hn.2 h
      have hm : mark t true (w :: r) = w :: mark t true r := by
        show (if w.ticket == t then _ else _) :: mark t true r = _
        rw [hne]; simp
      rw [hm]
      constructor
      · simp only [unanswered, List.filter_cons, hans] at i1 ⊢; simpa using i1
      · cases b with
        | true =>
          simp only [grantedBytes, List.filter_cons, hans] at i2 ⊢
          simp only [beq_self_eq_true, if_true, List.map_cons, sumNat_cons] at i2 ⊢; omega
        | false =>
          simp only [grantedBytes, List.filter_cons, hans] at i2 ⊢
          simpa using i2

theorem answerWaiters_nil (p : Nat) (ws : List Waiter) : answerWaiters p ws [] = ws := rfl

theorem answerWaiters_cons (p : Nat) (ws : List Waiter) (e : Alloc.Event) (es : List Alloc.Event) :
    answerWaiters p ws (e :: es) = answerWaiters p
      (match e with
       | .granted q t _ => if q == p then mark t true ws else ws
       | .failed q t => if q == p then mark t false ws else ws
       | _ => ws) es := by
  unfold answerWaiters
  simp only [List.foldl_cons]
  cases e <;> rfl

/-- what a list of allocator events without failures does to the waiting callers -/
theorem answer_grants (p : Nat) : ∀ (evs : List Alloc.Event) (ws : List Waiter) (P : List (Nat × Nat)),
    (ws.map (·.ticket)).Nodup → failsOf p evs = [] → unanswered ws = grantsOf p evs ++ P →
    unanswered (answerWaiters p ws evs) = P ∧
    grantedBytes (answerWaiters p ws evs) = grantedBytes ws + amounts (grantsOf p evs) ∧
    (answerWaiters p ws evs).map (·.ticket) = ws.map (·.ticket)
  | [], ws, P, _, _, h => by
    simp only [grantsOf, List.nil_append] at h
    exact ⟨h, by simp [answerWaiters_nil, amounts, sumNat, grantsOf], rfl⟩
  | e :: es, ws, P, hn, hf, h => by
    rw [answerWaiters_cons]
    cases e with
    | granted q t a =>
      by_cases hq : q = p
      · subst hq
        simp only [grantsOf, if_true, List.cons_append, failsOf] at h hf
        obtain ⟨m1, m2⟩ := mark_granted ws t a _ hn h
        have hn' : ((mark t true ws).map (·.ticket)).Nodup := by rw [mark_tickets]; exact hn
        obtain ⟨i1, i2, i3⟩ := answer_grants q es (mark t true ws) P hn' hf m1
        simp only [beq_self_eq_true, if_true]
        refine ⟨i1, ?_, by rw [i3, mark_tickets]⟩
        rw [i2, m2]
        simp only [grantsOf, if_true, amounts, List.map_cons, sumNat_cons]; omega
      · have hb : (q == p) = false := by simp [hq]
        simp only [grantsOf, hq, if_false, failsOf] at h hf ⊢
        simp only [hb]
        exact answer_grants p es ws P hn hf h
    | failed q t =>
      by_cases hq : q = p
      · subst hq; simp [failsOf] at hf
      · have hb : (q == p) = false := by simp [hq]
        simp only [grantsOf, failsOf, hq, if_false] at h hf ⊢
        simp only [hb]
        exact answer_grants p es ws P hn hf h
    | released q a =>
      simp only [grantsOf, failsOf] at h hf ⊢
      exact answer_grants p es ws P hn hf h
    | errNoPeer =>
      simp only [grantsOf, failsOf] at h hf ⊢
      exact answer_grants p es ws P hn hf h

/-- the part of a waiter that answering never changes -/
def Waiter.core (w : Waiter) : Nat × Tx × Nat := (w.ticket, w.tx, w.size)

theorem mark_core (t : Nat) (v : Bool) (ws : List Waiter) : (mark t v ws).map Waiter.core = ws.map Waiter.core := by
  unfold mark; rw [List.map_map]; apply List.map_congr_left; intro w _; simp only [Function.comp]; split <;> rfl

theorem answerWaiters_core (p : Nat) (evs : List Alloc.Event) (ws : List Waiter) :
    (answerWaiters p ws evs).map Waiter.core = ws.map Waiter.core := by
  induction evs generalizing ws with
  | nil => rfl
  | cons e es ih =>
    rw [answerWaiters_cons, ih]
    cases e with
    | granted q t a => simp only; split <;> simp [mark_core]
    | failed q t => simp only; split <;> simp [mark_core]
    | released q a => rfl
    | errNoPeer => rfl

theorem mark_true_nofail (t : Nat) (ws : List Waiter) (h : ∀ w ∈ ws, w.answer ≠ some false) :
    ∀ w ∈ mark t true ws, w.answer ≠ some false := by
  intro w hw
  unfold mark at hw
  obtain ⟨w0, h0, rfl⟩ := List.mem_map.mp hw
  split
  · simp
  · exact h w0 h0

theorem answerWaiters_nofail (p : Nat) (evs : List Alloc.Event) (ws : List Waiter)
    (hf : failsOf p evs = []) (h : ∀ w ∈ ws, w.answer ≠ some false) :
    ∀ w ∈ answerWaiters p ws evs, w.answer ≠ some false := by
  induction evs generalizing ws with
  | nil => exact h
  | cons e es ih =>
    rw [answerWaiters_cons]
    cases e with
    | granted q t a =>
      simp only [failsOf] at hf
      apply ih _ hf
      simp only; split
      · exact mark_true_nofail t ws h
      · exact h
    | failed q t =>
      by_cases hq : q = p
      · subst hq; simp [failsOf] at hf
      · simp only [failsOf, hq, if_false] at hf
        have hb : (q == p) = false := by simp [hq]
        apply ih _ hf
        simp only [hb]; exact h
    | released q a => simp only [failsOf] at hf; exact ih _ hf h
    | errNoPeer => simp only [failsOf] at hf; exact ih _ hf h

theorem core_mem {ws ws' : List Waiter} (h : ws'.map Waiter.core = ws.map Waiter.core) :
    ∀ w' ∈ ws', ∃ w ∈ ws, w'.ticket = w.ticket ∧ w'.tx = w.tx ∧ w'.size = w.size := by
  intro w' hw'
  have : w'.core ∈ ws.map Waiter.core := by rw [← h]; exact List.mem_map.mpr ⟨w', hw', rfl⟩
  obtain ⟨w, hw, he⟩ := List.mem_map.mp this
  simp only [Waiter.core, Prod.mk.injEq] at he
  exact ⟨w, hw, he.1.symm, he.2.1.symm, he.2.2.symm⟩

theorem core_tickets {ws ws' : List Waiter} (h : ws'.map Waiter.core = ws.map Waiter.core) :
    ws'.map (·.ticket) = ws.map (·.ticket) := by
  have : ∀ l : List Waiter, l.map (·.ticket) = (l.map Waiter.core).map (·.1) := by
    intro l; rw [List.map_map]; rfl
  rw [this, this, h]

/-! ## the coupling invariant between the allocator and the waiting callers -/

structure Coupled (s : State) : Prop where
  ainv : Alloc.Inv s.alloc
  pend : pendTA s.alloc s.peer = unanswered s.waiters
  nodupW : (s.waiters.map (·.ticket)).Nodup
  fresh : ∀ w ∈ s.waiters, w.ticket < s.nextTicket
  wsize : ∀ w ∈ s.waiters, w.tx.who = .response ∧ w.size = itemsSize w.tx.items

/-- an allocator call that does not fail any of this peer's tickets and (apart from its grants)
    leaves this peer's waiting list alone -/
theorem allocStep_coupled {pick : Pick} (hp : Admissible pick) {s : State} (hc : Coupled s) (op : Alloc.Op)
    (hview : grantsOf s.peer (Alloc.step pick s.alloc op).2 ++ pendTA (Alloc.step pick s.alloc op).1 s.peer
        = pendTA s.alloc s.peer ∧ failsOf s.peer (Alloc.step pick s.alloc op).2 = []) :
    Coupled (s.allocStep pick op).1 ∧
    tot (s.allocStep pick op).1.alloc s.peer + releasedSum s.peer (Alloc.step pick s.alloc op).2
        + grantedBytes s.waiters = tot s.alloc s.peer + grantedBytes (s.allocStep pick op).1.waiters := by
  have hv := view hp hc.ainv op s.peer
  obtain ⟨a1, a2, a3⟩ := answer_grants s.peer (Alloc.step pick s.alloc op).2 s.waiters
    (pendTA (Alloc.step pick s.alloc op).1 s.peer) hc.nodupW hview.2 (by rw [← hc.pend, hview.1])
  have hcore := answerWaiters_core s.peer (Alloc.step pick s.alloc op).2 s.waiters
  refine ⟨⟨hv.inv, a1.symm, ?_, ?_, ?_⟩, ?_⟩
  · show ((answerWaiters s.peer s.waiters _).map (·.ticket)).Nodup
    rw [a3]; exact hc.nodupW
  · intro w hw
    obtain ⟨w0, h0, e1, _, _⟩ := core_mem hcore w hw
    show w.ticket < s.nextTicket
    rw [e1]; exact hc.fresh w0 h0
  · intro w hw
    obtain ⟨w0, h0, _, e2, e3⟩ := core_mem hcore w hw
    rw [e2, e3]; exact hc.wsize w0 h0
  · show tot (Alloc.step pick s.alloc op).1 s.peer + _ + _ = _ + grantedBytes (answerWaiters s.peer s.waiters _)
    have := hv.ledger
    rw [a2]; omega

/-- `ReleaseBlockMemory(p, n)` by the queue itself, `n` not more than the peer holds -/
theorem release_coupled {pick : Pick} (hp : Admissible pick) {s : State} (hc : Coupled s) (n : Nat)
    (hn : n ≤ tot s.alloc s.peer) :
    Coupled (s.release pick n) ∧
    tot (s.release pick n).alloc s.peer + n + grantedBytes s.waiters
      = tot s.alloc s.peer + grantedBytes (s.release pick n).waiters := by
  have hr := release_view hp hc.ainv s.peer s.peer n
  obtain ⟨h1, h2⟩ := allocStep_coupled hp hc (.release s.peer n) ⟨hr.1, hr.2.1⟩
  refine ⟨h1, ?_⟩
  have h3 := hr.2.2
  simp only [if_true] at h3
  rw [h3, Nat.min_eq_left hn] at h2
  exact h2

/-! ### the queue's own `ReleasePeerMemory`: every waiting caller is refused -/

theorem mem_unanswered_mark {t : Nat} {v : Bool} {ws : List Waiter} {x : Nat × Nat}
    (h : x ∈ unanswered (mark t v ws)) : x ∈ unanswered ws ∧ x.1 ≠ t := by
  unfold unanswered mark at h
  obtain ⟨w', hw', rfl⟩ := List.mem_map.mp h
  obtain ⟨hm, ha⟩ := List.mem_filter.mp hw'
  obtain ⟨w, hw, rfl⟩ := List.mem_map.mp hm
  by_cases ht : (w.ticket == t) = true
  · rw [if_pos ht] at ha; simp at ha
  · rw [if_neg ht] at ha ⊢
    refine ⟨List.mem_map.mpr ⟨w, List.mem_filter.mpr ⟨hw, ha⟩, rfl⟩, ?_⟩
    intro he; apply ht; simpa using he

theorem grantedBytes_cons (x : Waiter) (l : List Waiter) :
    grantedBytes (x :: l) = (if x.answer == some true then x.size else 0) + grantedBytes l := by
  unfold grantedBytes; rw [List.filter_cons]; split <;> simp [sumNat_cons]

theorem grantedBytes_mark_false (t : Nat) : ∀ (ws : List Waiter), grantedBytes (mark t false ws) ≤ grantedBytes ws
  | [] => Nat.le_refl _
  | w :: r => by
    have ih := grantedBytes_mark_false t r
    have hm : mark t false (w :: r) = (if w.ticket == t then { w with answer := some false } else w) :: mark t false r := rfl
    rw [hm, grantedBytes_cons, grantedBytes_cons]
    by_cases ht : (w.ticket == t) = true
    · rw [if_pos ht]
      have : ((some false : Option Bool) == some true) = false := rfl
      simp only [this]
      simp only [Bool.false_eq_true, if_false]; omega
    · rw [if_neg ht]; omega

/-- events without grants for `p` that refuse every unanswered ticket -/
theorem answer_fails (p : Nat) : ∀ (evs : List Alloc.Event) (ws : List Waiter),
    grantsOf p evs = [] → (∀ x ∈ unanswered ws, x.1 ∈ failsOf p evs) →
    unanswered (answerWaiters p ws evs) = [] ∧ grantedBytes (answerWaiters p ws evs) ≤ grantedBytes ws
  | [], ws, _, h => by
    refine ⟨?_, Nat.le_refl _⟩
    rw [answerWaiters_nil]
    cases hu : unanswered ws with
    | nil => rfl
    | cons x r => have := h x (by rw [hu]; simp); simp [failsOf] at this
  | e :: es, ws, hg, h => by
    rw [answerWaiters_cons]
    cases e with
    | granted q t a =>
      by_cases hq : q = p
      · subst hq; simp [grantsOf] at hg
      · have hb : (q == p) = false := by simp [hq]
        simp only [grantsOf, hq, if_false] at hg
        simp only [hb]
        exact answer_fails p es ws hg (fun x hx => by have := h x hx; simpa [failsOf] using this)
    | failed q t =>
      simp only [grantsOf] at hg
      by_cases hq : q = p
      · subst hq
        simp only [beq_self_eq_true, if_true]
        obtain ⟨i1, i2⟩ := answer_fails q es (mark t false ws) hg (by
          intro x hx
          obtain ⟨h1, h2⟩ := mem_unanswered_mark hx
          have := h x h1
          simp only [failsOf, if_true, List.mem_cons] at this
          rcases this with e | e
          · exact absurd e h2
          · exact e)
        exact ⟨i1, Nat.le_trans i2 (grantedBytes_mark_false t ws)⟩
      · have hb : (q == p) = false := by simp [hq]
        simp only [hb]
        exact answer_fails p es ws hg (fun x hx => by have := h x hx; simpa [failsOf, hq] using this)
    | released q a =>
      simp only [grantsOf] at hg
      exact answer_fails p es ws hg (fun x hx => by have := h x hx; simpa [failsOf] using this)
    | errNoPeer =>
      simp only [grantsOf] at hg
      exact answer_fails p es ws hg (fun x hx => by have := h x hx; simpa [failsOf] using this)

/-- the deferred `ReleasePeerMemory(p)` of the queue goroutine, when no granted reservation is on its
    way to `buildMessage` -/
theorem releasePeer_coupled {pick : Pick} (hp : Admissible pick) {s : State} (hc : Coupled s)
    (hg : grantedBytes s.waiters = 0) :
    Coupled (s.allocStep pick (.releasePeer s.peer)).1 ∧
    tot (s.allocStep pick (.releasePeer s.peer)).1.alloc s.peer = 0 ∧
    grantedBytes (s.allocStep pick (.releasePeer s.peer)).1.waiters = 0 := by
  have hv := view hp hc.ainv (.releasePeer s.peer) s.peer
  obtain ⟨r1, r2, r3, r4⟩ := releasePeer_own hp hc.ainv s.peer
  obtain ⟨a1, a2⟩ := answer_fails s.peer (Alloc.step pick s.alloc (.releasePeer s.peer)).2 s.waiters r1 (by
    intro x hx
    rw [r3, hc.pend]
    exact List.mem_map.mpr ⟨x, hx, rfl⟩)
  have hcore := answerWaiters_core s.peer (Alloc.step pick s.alloc (.releasePeer s.peer)).2 s.waiters
  refine ⟨⟨hv.inv, ?_, ?_, ?_, ?_⟩, r4, ?_⟩
  · show pendTA (Alloc.step pick s.alloc (.releasePeer s.peer)).1 s.peer = unanswered (answerWaiters s.peer s.waiters _)
    rw [r2, a1]
  · show ((answerWaiters s.peer s.waiters _).map (·.ticket)).Nodup
    rw [core_tickets hcore]; exact hc.nodupW
  · intro w hw
    obtain ⟨w0, h0, e1, _, _⟩ := core_mem hcore w hw
    show w.ticket < s.nextTicket
    rw [e1]; exact hc.fresh w0 h0
  · intro w hw
    obtain ⟨w0, h0, _, e2, e3⟩ := core_mem hcore w hw
    rw [e2, e3]; exact hc.wsize w0 h0
  · show grantedBytes (answerWaiters s.peer s.waiters _) = 0
    omega


/-- the frame of `release`: only the allocator, the answers and the log change -/
theorem release_frame (pick : Pick) (s : State) (n : Nat) :
    (s.release pick n).builders = s.builders ∧ (s.release pick n).pc = s.pc ∧ (s.release pick n).peer = s.peer ∧
    (s.release pick n).nextTicket = s.nextTicket ∧ (s.release pick n).token = s.token ∧
    (s.release pick n).done = s.done ∧ (s.release pick n).sender = s.sender ∧
    (s.release pick n).closedStreams = s.closedStreams ∧ (s.release pick n).topics = s.topics ∧
    (s.release pick n).pubClosed = s.pubClosed ∧ (s.release pick n).maxRetries = s.maxRetries ∧
    (s.release pick n).nextTopic = s.nextTopic :=
  ⟨rfl, rfl, rfl, rfl, rfl, rfl, rfl, rfl, rfl, rfl, rfl, rfl⟩

/-! ## builder lists -/

def hb (bs : List Builder) : Nat := sumNat (bs.map Builder.accounted)

theorem heldBuilders_eq (s : State) : heldBuilders s = hb s.builders := rfl

theorem hb_cons (b : Builder) (bs : List Builder) : hb (b :: bs) = b.accounted + hb bs := rfl

theorem hb_append (a b : List Builder) : hb (a ++ b) = hb a + hb b := by
  unfold hb; rw [List.map_append, sumNat_append]

theorem scrubAll_spec (reqs : List Req) : ∀ (bs : List Builder), (∀ b ∈ bs, BInv b) →
    (∀ b ∈ (scrubAll reqs bs).1, BInv b) ∧ hb bs = hb (scrubAll reqs bs).1 + (scrubAll reqs bs).2 ∧
    (∀ b ∈ (scrubAll reqs bs).1, b.empty = false) ∧
    (∀ b ∈ (scrubAll reqs bs).1, ∃ b0 ∈ bs, b.topic = b0.topic)
  | [], _ => by simp [scrubAll, hb, sumNat]
  | b :: r, h => by
    have hb0 := h b (by simp)
    obtain ⟨s1, s2, s3⟩ := scrub_spec hb0 reqs
    obtain ⟨i1, i2, i3, i4⟩ := scrubAll_spec reqs r (fun x hx => h x (List.mem_cons_of_mem _ hx))
    simp only [scrubAll]
    by_cases he : (b.scrub reqs).1.empty = true
    · simp only [he, if_true]
      have h0 := empty_accounted s1 he
      refine ⟨i1, ?_, i3, ?_⟩
      · rw [hb_cons, i2, s2, h0]; omega
      · intro x hx; obtain ⟨b0, hb0', e⟩ := i4 x hx; exact ⟨b0, List.mem_cons_of_mem _ hb0', e⟩
    · simp only [he]
      refine ⟨?_, ?_, ?_, ?_⟩
      · intro x hx
        rcases List.mem_cons.mp hx with rfl | hx
        · exact s1
        · exact i1 x hx
      · simp only [Bool.false_eq_true, if_false, hb_cons]; rw [i2, s2]; omega
      · intro x hx
        simp only [Bool.false_eq_true, if_false] at hx
        rcases List.mem_cons.mp hx with rfl | hx
        · simpa using he
        · exact i3 x hx
      · intro x hx
        simp only [Bool.false_eq_true, if_false] at hx
        rcases List.mem_cons.mp hx with rfl | hx
        · exact ⟨b, by simp, s3⟩
        · obtain ⟨b0, hb0', e⟩ := i4 x hx; exact ⟨b0, List.mem_cons_of_mem _ hb0', e⟩

theorem dropEmpty_spec : ∀ (bs : List Builder), (∀ b ∈ bs, BInv b) →
    hb (dropEmpty bs) = hb bs ∧ (∀ b ∈ dropEmpty bs, b ∈ bs) ∧
    (∀ b rest, dropEmpty bs = b :: rest → b.empty = false)
  | [], _ => by simp [dropEmpty]
  | b :: r, h => by
    obtain ⟨i1, i2, i3⟩ := dropEmpty_spec r (fun x hx => h x (List.mem_cons_of_mem _ hx))
    simp only [dropEmpty]
    by_cases he : b.empty = true
    · rw [if_pos he]
      have := empty_accounted (h b (by simp)) he
      exact ⟨by rw [i1, hb_cons, this]; omega, fun x hx => List.mem_cons_of_mem _ (i2 x hx), i3⟩
    · rw [if_neg he]
      refine ⟨rfl, fun x hx => hx, ?_⟩
      intro b' rest heq
      cases heq; simpa using he

theorem setLast_spec : ∀ (bs : List Builder) (b b' : Builder), bs.getLast? = some b →
    hb (setLast bs b') + b.accounted = hb bs + b'.accounted ∧
    (∀ x ∈ setLast bs b', x = b' ∨ x ∈ bs) ∧ (setLast bs b').length = bs.length
  | [], _, _, h => by simp at h
  | [x], b, b', h => by
    simp at h; subst h
    simp [setLast, hb, sumNat]; omega
  | x :: y :: r, b, b', h => by
    have h' : (y :: r).getLast? = some b := by simpa [List.getLast?_cons_cons] using h
    obtain ⟨i1, i2, i3⟩ := setLast_spec (y :: r) b b' h'
    simp only [setLast]
    refine ⟨?_, ?_, ?_⟩
    · rw [hb_cons, hb_cons]; omega
    · intro z hz
      rcases List.mem_cons.mp hz with rfl | hz
      · exact Or.inr (by simp)
      · rcases i2 z hz with h1 | h1
        · exact Or.inl h1
        · exact Or.inr (List.mem_cons_of_mem _ h1)
    · simp only [List.length_cons] at i3 ⊢; omega

/-! ## frames -/

/-- what the publisher-only operations leave alone -/
structure Frame (s s' : State) : Prop where
  alloc : s'.alloc = s.alloc
  waiters : s'.waiters = s.waiters
  peer : s'.peer = s.peer
  nextTicket : s'.nextTicket = s.nextTicket
  builders : s'.builders = s.builders
  pc : s'.pc = s.pc
  closedStreams : s'.closedStreams = s.closedStreams
  maxRetries : s'.maxRetries = s.maxRetries
  nextTopic : s'.nextTopic = s.nextTopic
  token : s'.token = s.token
  done : s'.done = s.done
  sender : s'.sender = s.sender

theorem Frame.refl (s : State) : Frame s s := ⟨rfl, rfl, rfl, rfl, rfl, rfl, rfl, rfl, rfl, rfl, rfl, rfl⟩

theorem Frame.trans {a b c : State} (h1 : Frame a b) (h2 : Frame b c) : Frame a c :=
  ⟨h2.alloc.trans h1.alloc, h2.waiters.trans h1.waiters, h2.peer.trans h1.peer,
   h2.nextTicket.trans h1.nextTicket, h2.builders.trans h1.builders, h2.pc.trans h1.pc,
   h2.closedStreams.trans h1.closedStreams, h2.maxRetries.trans h1.maxRetries,
   h2.nextTopic.trans h1.nextTopic, h2.token.trans h1.token, h2.done.trans h1.done,
   h2.sender.trans h1.sender⟩

theorem emit_frame (s : State) (evs : List Event) : Frame s (s.emit evs) := Frame.refl s |>.trans
  ⟨rfl, rfl, rfl, rfl, rfl, rfl, rfl, rfl, rfl, rfl, rfl, rfl⟩

theorem publish_frame (s : State) (t : Topic) (k : Kind) : Frame s (s.publish t k) := by
  unfold State.publish; split
  · exact Frame.refl s
  · exact emit_frame s _

theorem closeTopic_frame (s : State) (t : Topic) : Frame s (s.closeTopic t) := by
  unfold State.closeTopic; split
  · exact Frame.refl s
  · exact ⟨rfl, rfl, rfl, rfl, rfl, rfl, rfl, rfl, rfl, rfl, rfl, rfl⟩

theorem subscribe_frame (s : State) (t : Topic) (subs : List Sub) : Frame s (s.subscribe t subs) := by
  unfold State.subscribe; split
  · exact Frame.refl s
  · exact ⟨rfl, rfl, rfl, rfl, rfl, rfl, rfl, rfl, rfl, rfl, rfl, rfl⟩

theorem pubShutdown_frame (s : State) : Frame s s.pubShutdown := by
  unfold State.pubShutdown; split
  · exact Frame.refl s
  · exact ⟨rfl, rfl, rfl, rfl, rfl, rfl, rfl, rfl, rfl, rfl, rfl, rfl⟩

theorem Coupled.frame {s s' : State} (h : Coupled s) (f : Frame s s') : Coupled s' := by
  refine ⟨f.alloc ▸ h.ainv, ?_, f.waiters ▸ h.nodupW, ?_, f.waiters ▸ h.wsize⟩
  · rw [f.alloc, f.peer, f.waiters]; exact h.pend
  · rw [f.waiters, f.nextTicket]; exact h.fresh

/-! ## the ledger, with the bytes that ought to be held by builders and the message in flight as a
parameter -/

/-- `tot = X + (granted, not yet built)` together with the coupling invariant -/
def Led (s : State) (X : Nat) : Prop := Coupled s ∧ tot s.alloc s.peer = X + grantedBytes s.waiters

theorem Led.frame {s s' : State} {X : Nat} (h : Led s X) (f : Frame s s') : Led s' X :=
  ⟨h.1.frame f, by rw [f.alloc, f.peer, f.waiters]; exact h.2⟩

theorem Led.release {pick : Pick} (hp : Admissible pick) {s : State} {X : Nat} (h : Led s X) (n : Nat)
    (hn : n ≤ X) : Led (s.release pick n) (X - n) := by
  have hle : n ≤ tot s.alloc s.peer := by rw [h.2]; omega
  obtain ⟨h1, h2⟩ := release_coupled hp h.1 n hle
  refine ⟨h1, ?_⟩
  show tot (s.release pick n).alloc s.peer = _
  have := h.2
  omega

/-- the frame of `release` as far as builders and the queue goroutine are concerned -/
structure QFrame (s s' : State) : Prop where
  peer : s'.peer = s.peer
  builders : s'.builders = s.builders
  pc : s'.pc = s.pc
  closedStreams : s'.closedStreams = s.closedStreams
  maxRetries : s'.maxRetries = s.maxRetries
  nextTopic : s'.nextTopic = s.nextTopic
  nextTicket : s'.nextTicket = s.nextTicket
  token : s'.token = s.token
  done : s'.done = s.done
  sender : s'.sender = s.sender

theorem Frame.q {s s' : State} (f : Frame s s') : QFrame s s' :=
  ⟨f.peer, f.builders, f.pc, f.closedStreams, f.maxRetries, f.nextTopic, f.nextTicket, f.token, f.done, f.sender⟩

theorem QFrame.refl (s : State) : QFrame s s := (Frame.refl s).q

theorem QFrame.trans {a b c : State} (h1 : QFrame a b) (h2 : QFrame b c) : QFrame a c :=
  ⟨h2.peer.trans h1.peer, h2.builders.trans h1.builders, h2.pc.trans h1.pc,
   h2.closedStreams.trans h1.closedStreams, h2.maxRetries.trans h1.maxRetries,
   h2.nextTopic.trans h1.nextTopic, h2.nextTicket.trans h1.nextTicket, h2.token.trans h1.token,
   h2.done.trans h1.done, h2.sender.trans h1.sender⟩

theorem release_qframe (pick : Pick) (s : State) (n : Nat) : QFrame s (s.release pick n) :=
  ⟨rfl, rfl, rfl, rfl, rfl, rfl, rfl, rfl, rfl, rfl⟩

/-! ## the queue goroutine's operations -/

section ops
variable {pick : Pick} (hp : Admissible pick)
include hp

/-- `publishError`: from "builders + this message are held" to "the remaining builders are held" -/
theorem publishError_led {s : State} {m : InFlight} (h : Led s (hb s.builders + m.size))
    (hbi : ∀ b ∈ s.builders, BInv b) :
    Led (s.publishError pick m) (hb (s.publishError pick m).builders) ∧
    (∀ b ∈ (s.publishError pick m).builders, BInv b) ∧
    (s.publishError pick m).pc = s.pc ∧ (s.publishError pick m).peer = s.peer ∧
    (s.publishError pick m).maxRetries = s.maxRetries ∧ (s.publishError pick m).done = s.done ∧
    (s.publishError pick m).sender = s.sender ∧ (s.publishError pick m).token = s.token ∧
    (s.publishError pick m).nextTopic = s.nextTopic ∧
    (s.publishError pick m).builders = (scrubAll m.streams s.builders).1 := by
  obtain ⟨sc1, sc2, _, _⟩ := scrubAll_spec m.streams s.builders hbi
  unfold State.publishError
  -- name the intermediate states
  generalize hs1 : ({ s with closedStreams := m.streams.foldl (fun acc r => if acc.contains r then acc else acc ++ [r]) s.closedStreams } : State) = s1
  have f1 : Frame s s1 ∨ True := Or.inr trivial
  have l1 : Led s1 (hb s.builders + m.size) := by
    subst hs1; exact ⟨⟨h.1.ainv, h.1.pend, h.1.nodupW, h.1.fresh, h.1.wsize⟩, h.2⟩
  have q1 : QFrame s s1 ∨ True := Or.inr trivial
  have e1 : s1.builders = s.builders ∧ s1.pc = s.pc ∧ s1.peer = s.peer ∧ s1.maxRetries = s.maxRetries ∧
      s1.done = s.done ∧ s1.sender = s.sender ∧ s1.token = s.token ∧ s1.nextTopic = s.nextTopic := by
    subst hs1; exact ⟨rfl, rfl, rfl, rfl, rfl, rfl, rfl, rfl⟩
  simp only
  generalize hs2 : s1.emit (m.streams.map Event.streamClosed) = s2
  have fr2 : Frame s1 s2 := by subst hs2; exact emit_frame _ _
  have l2 := l1.frame fr2
  rw [show s2.builders = s.builders from fr2.builders.trans e1.1]
  generalize hsc : scrubAll m.streams s.builders = sc at sc1 sc2
  obtain ⟨bs, freed⟩ := sc
  simp only at sc1 sc2 ⊢
  generalize hs3 : ({ s2 with builders := bs } : State) = s3
  have l3 : Led s3 (hb bs + freed + m.size) := by
    subst hs3
    refine ⟨⟨l2.1.ainv, l2.1.pend, l2.1.nodupW, l2.1.fresh, l2.1.wsize⟩, ?_⟩
    have := l2.2
    show tot s2.alloc s2.peer = _
    rw [this, sc2]
  have e3 : s3.builders = bs ∧ s3.pc = s.pc ∧ s3.peer = s.peer ∧ s3.maxRetries = s.maxRetries ∧
      s3.done = s.done ∧ s3.sender = s.sender ∧ s3.token = s.token ∧ s3.nextTopic = s.nextTopic := by
    subst hs3
    exact ⟨rfl, fr2.pc.trans e1.2.1, fr2.peer.trans e1.2.2.1, fr2.maxRetries.trans e1.2.2.2.1,
      fr2.done.trans e1.2.2.2.2.1, fr2.sender.trans e1.2.2.2.2.2.1, fr2.token.trans e1.2.2.2.2.2.2.1,
      fr2.nextTopic.trans e1.2.2.2.2.2.2.2⟩
  generalize hs4 : (if freed > 0 then s3.release pick freed else s3) = s4
  have l4 : Led s4 (hb bs + m.size) ∧ QFrame s3 s4 := by
    subst hs4
    split
    · have := l3.release hp freed (by omega)
      exact ⟨by rw [show hb bs + freed + m.size - freed = hb bs + m.size by omega] at this; exact this,
        release_qframe _ _ _⟩
    · next hz =>
      have : freed = 0 := by omega
      subst this
      exact ⟨l3, QFrame.refl _⟩
  generalize hs5 : s4.publish m.topic Kind.error = s5
  have fr5 : Frame s4 s5 := by subst hs5; exact publish_frame _ _ _
  have l5 := l4.1.frame fr5
  have q5 : QFrame s3 s5 := l4.2.trans fr5.q
  have l6 := l5.release hp m.size (by omega)
  have q6 : QFrame s3 (s5.release pick m.size) := q5.trans (release_qframe _ _ _)
  rw [show hb bs + m.size - m.size = hb bs by omega] at l6
  refine ⟨by rw [q6.builders, e3.1]; exact l6, by rw [q6.builders, e3.1]; exact sc1,
    q6.pc.trans e3.2.1, q6.peer.trans e3.2.2.1, q6.maxRetries.trans e3.2.2.2.1,
    q6.done.trans e3.2.2.2.2.1, q6.sender.trans e3.2.2.2.2.2.1, q6.token.trans e3.2.2.2.2.2.2.1,
    q6.nextTopic.trans e3.2.2.2.2.2.2.2, q6.builders.trans e3.1⟩

end ops

end GS.MQ
