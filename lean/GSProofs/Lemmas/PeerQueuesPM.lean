import GS.Model.PeerQueues
import GSProofs.Lemmas.PeerManagerInv
/-!
# Product PeerManager × queues: how one peer-manager step changes the flags of one queue
-/
namespace GS.PQ
open GS GS.PM

theorem qget_setQueue (qs : List Queue) (id : Nat) (f : Queue → Queue) (hf : ∀ y, (f y).id = y.id) (q : Nat) :
    (setQueue qs id f).find? (·.id == q) =
      (qs.find? (·.id == q)).map (fun y => if y.id == id then f y else y) := by
  unfold setQueue
  rw [List.find?_map]
  congr 2
  funext y
  simp only [Function.comp]
  split <;> simp [hf]

theorem qget_append (qs : List Queue) (n : Queue) (q : Nat) :
    (qs ++ [n]).find? (·.id == q) = ((qs.find? (·.id == q)).or (if n.id == q then some n else none)) := by
  rw [List.find?_append]
  congr 1
  simp only [List.find?_cons, List.find?_nil]
  split <;> simp_all

/-- flags of queue `q` before (`y`) and after (`y'`) a step: told-to-stop and exited are never reset,
    and `exited` is set only by the queue's own exit callback -/
def FlagsStep (a : PM.Act) (q : Nat) (y y' : Queue) : Prop :=
  y'.id = y.id ∧ y'.peer = y.peer ∧ (y.shutdown = true → y'.shutdown = true) ∧
  (y.exited = true → y'.exited = true) ∧ (y'.exited = true → y.exited = true ∨ a = .queueExit q)

theorem FlagsStep.refl (a : PM.Act) (q : Nat) (y : Queue) : FlagsStep a q y y :=
  ⟨rfl, rfl, id, id, Or.inl⟩

theorem qget_getOrCreate (pm : PM.State) (p q : Nat) :
    (∀ y, qget pm q = some y → qget (getOrCreate pm p).1 q = some y) ∧
    (qget pm q = none → ∀ y', qget (getOrCreate pm p).1 q = some y' →
      y'.exited = false ∧ y'.shutdown = false) := by
  rcases getOrCreate_cases pm p with ⟨e, _, hg⟩ | ⟨_, hg⟩
  · rw [hg]
    exact ⟨fun y h => h, fun h y' h' => by rw [h] at h'; cases h'⟩
  · rw [hg]
    unfold qget
    simp only
    rw [qget_append]
    constructor
    · intro y h
      rw [h]; rfl
    · intro h y' h'
      rw [h] at h'
      simp only [Option.none_or] at h'
      split at h'
      · cases h'; exact ⟨rfl, rfl⟩
      · cases h'

/-- **one peer-manager step, seen from one queue** -/
theorem qget_step (pm : PM.State) (a : PM.Act) (q : Nat) :
    (∀ y, qget pm q = some y → ∃ y', qget (PM.step pm a) q = some y' ∧ FlagsStep a q y y') ∧
    (qget pm q = none → ∀ y', qget (PM.step pm a) q = some y' → y'.exited = false ∧ y'.shutdown = false) := by
  have viaSet : ∀ (pm' : PM.State) (id : Nat) (f : Queue → Queue), (∀ y, (f y).id = y.id) →
      (∀ y, y.id = q → FlagsStep a q y (if y.id == id then f y else y)) →
      pm'.queues = setQueue pm.queues id f →
      (∀ y, qget pm q = some y → ∃ y', qget pm' q = some y' ∧ FlagsStep a q y y') ∧
      (qget pm q = none → ∀ y', qget pm' q = some y' → y'.exited = false ∧ y'.shutdown = false) := by
    intro pm' id f hf hfl hq
    have e : qget pm' q = (qget pm q).map (fun y => if y.id == id then f y else y) := by
      unfold qget; rw [hq]; exact qget_setQueue _ _ _ hf q
    constructor
    · intro y h
      have hid : y.id = q := by
        unfold qget at h
        simpa using List.find?_some h
      rw [e, h]
      exact ⟨_, rfl, hfl y hid⟩
    · intro h y' h'
      rw [e, h] at h'; cases h'
  have same : ∀ (pm' : PM.State), pm'.queues = pm.queues →
      (∀ y, qget pm q = some y → ∃ y', qget pm' q = some y' ∧ FlagsStep a q y y') ∧
      (qget pm q = none → ∀ y', qget pm' q = some y' → y'.exited = false ∧ y'.shutdown = false) := by
    intro pm' hq
    have e : qget pm' q = qget pm q := by unfold qget; rw [hq]
    exact ⟨fun y h => ⟨y, by rw [e, h], FlagsStep.refl a q y⟩, fun h y' h' => by rw [e, h] at h'; cases h'⟩
  have goc : ∀ (p : Nat) (pm' : PM.State), pm'.queues = (getOrCreate pm p).1.queues →
      (∀ y, qget pm q = some y → ∃ y', qget pm' q = some y' ∧ FlagsStep a q y y') ∧
      (qget pm q = none → ∀ y', qget pm' q = some y' → y'.exited = false ∧ y'.shutdown = false) := by
    intro p pm' hq
    have e : qget pm' q = qget (getOrCreate pm p).1 q := by unfold qget; rw [hq]
    obtain ⟨h1, h2⟩ := qget_getOrCreate pm p q
    exact ⟨fun y h => ⟨y, by rw [e]; exact h1 y h, FlagsStep.refl a q y⟩, fun h y' h' => h2 h y' (by rw [← e]; exact h')⟩
  cases a with
  | connected p => exact goc p _ rfl
  | getProcess p => exact goc p _ rfl
  | disconnected p =>
    show (∀ y, qget pm q = some y → ∃ y', qget (disconnected pm p) q = some y' ∧ _) ∧
      (qget pm q = none → ∀ y', qget (disconnected pm p) q = some y' → _)
    unfold disconnected
    split
    · exact same _ rfl
    · split
      · exact same _ rfl
      · next e _ _ =>
        refine viaSet _ e.qid ({ · with pending := true }) (fun _ => rfl) ?_ rfl
        intro y _; split
        · exact ⟨rfl, rfl, id, id, Or.inl⟩
        · exact FlagsStep.refl _ q y
  | shutdownCall i =>
    refine viaSet _ i (fun x => if x.pending then { x with pending := false, shutdown := true } else x)
      (fun y => by split <;> rfl) ?_ rfl
    intro y _; split
    · split
      · exact ⟨rfl, rfl, fun _ => rfl, id, Or.inl⟩
      · exact FlagsStep.refl _ q y
    · exact FlagsStep.refl _ q y
  | selfShutdown i =>
    refine viaSet _ i (fun x => if x.exited then x else { x with shutdown := true })
      (fun y => by split <;> rfl) ?_ rfl
    intro y _; split
    · split
      · exact FlagsStep.refl _ q y
      · exact ⟨rfl, rfl, fun _ => rfl, id, Or.inl⟩
    · exact FlagsStep.refl _ q y
  | queueExit i =>
    show (∀ y, qget pm q = some y → ∃ y', qget (queueExit pm i) q = some y' ∧ _) ∧
      (qget pm q = none → ∀ y', qget (queueExit pm i) q = some y' → _)
    unfold queueExit
    split
    · exact same _ rfl
    · next x hx =>
      split
      · exact same _ rfl
      · refine viaSet _ i ({ · with exited := true, shutdown := true }) (fun _ => rfl) ?_ rfl
        intro y hqi; split
        · next hy =>
          refine ⟨rfl, rfl, fun _ => rfl, fun _ => rfl, fun _ => Or.inr ?_⟩
          have : i = q := by rw [← hqi]; exact (by simpa using hy : y.id = i).symm
          rw [this]
        · exact FlagsStep.refl _ q y

/-- the exit callback marks its own queue `exited` -/
theorem qget_queueExit (pm : PM.State) (q : Nat) (y : Queue) (h : qget pm q = some y) :
    ∃ y', qget (queueExit pm q) q = some y' ∧ y'.exited = true := by
  unfold queueExit
  have h' : pm.queues.find? (·.id == q) = some y := h
  rw [h']
  simp only
  split
  · next he => exact ⟨y, h, he⟩
  · have hid : y.id = q := by simpa using List.find?_some h'
    refine ⟨{ y with exited := true, shutdown := true }, ?_, rfl⟩
    unfold qget
    simp only
    rw [qget_setQueue pm.queues q (fun x : Queue => { x with exited := true, shutdown := true }) (fun _ => rfl) q, h']
    simp [hid]

end GS.PQ
