import GSProofs.C04
import GSProofs.Lemmas.ReqLifeCancel
import GSProofs.Lemmas.ReqLifeQueue
import GSProofs.Lemmas.ReqLifeCancelFlags
/-!
# C04, clause *"Caller cancellation ... sends a cancel to the responder"* -- as a HISTORY statement

(closes AUDIT_2 "sends a cancel is a one-step lemma": `cancel_message_iff_live` in C04.lean is about ONE
call of `handle`.)  Here the clause is stated over whole histories: a history is a list of actions `as`
with `run (init p e t) as = some s` (every reachable state has one: `reachable_iff_trace`), the outbox of
`s` is the list of wire messages the requestor has sent so far.

`causes s0 as` is the list of cancel CAUSES that occurred along the history (`GS.ReqLife.cause`, the
complete list of places that send a cancel: caller cancel handled for a tracked request, response-hook
error for a tracked request, executor stopping for a pause, executor ending with a non-context error).

  * `cancel_count_eq_causes`   EXACT accounting, all histories: #cancel messages to the own peer in the
                               outbox = #cause events of the history; nothing goes to another peer.
  * `cancel_sent_of_cancelled` clause 1 (caller cancel handled while tracked ⇒ cancel in the outbox, own peer,
                               stays there for ever).
  * `cancel_sent_only_if_cause`, `cause_spec`, `cause_tracked`, `no_cancel_after_gone`,
    `no_cancel_after_clean_end`   clause 2 (converse).
  * `cancel_sent_eventually`   liveness combination with `terminates`.
  * `cancel_exactly_one_counterexample*`: "exactly one cancel message" is FALSE (see the comment there).
-/
namespace GS.C04
open GS.ReqLife GS.Generated

/-- number of cancel messages in a list of wire messages -/
def cancels (l : List Out) : Nat := l.countP (fun o => o.kind == .cancel)

/-- the cancel causes occurring along a history, in order -/
def causes (s : State) : List Action → List Cause
  | [] => []
  | a :: as =>
    match step s a with
    | none => []
    | some s' => (cause s a).toList ++ causes s' as

theorem cancels_append (a b : List Out) : cancels (a ++ b) = cancels a + cancels b := by
  simp [cancels, List.countP_append]

theorem cancels_emit (s : State) (a : Action) : cancels (emit s a) = (cause s a).toList.length := by
  unfold emit
  cases h : cause s a
  · simp [cancels, reqTo]
  · simp [cancels, cancelTo]

theorem emit_peer (s : State) (a : Action) : ∀ o ∈ emit s a, o.peer = s.peer := by
  unfold emit
  intro o ho
  split at ho
  · simp at ho; subst ho; rfl
  · split at ho
    · simp at ho; subst ho; rfl
    · simp at ho

theorem run_append (s : State) (pre post : List Action) :
    run s (pre ++ post) = (run s pre).bind fun s1 => run s1 post := by
  induction pre generalizing s with
  | nil => simp [run]
  | cons a as ih =>
    simp only [List.cons_append, run]
    cases step s a with
    | none => simp
    | some s1 => simp [ih]

theorem causes_append {s s1 : State} {pre : List Action} (post : List Action) (h : run s pre = some s1) :
    causes s (pre ++ post) = causes s pre ++ causes s1 post := by
  induction pre generalizing s with
  | nil => simp [run] at h; subst h; simp [causes]
  | cons a as ih =>
    simp only [run] at h
    cases hs : step s a with
    | none => simp [hs] at h
    | some s2 =>
      simp [hs] at h
      simp [causes, hs, ih h]

/-- along any run: `peer` is constant, the outbox only grows, what is appended goes to the own peer and
    contains exactly as many cancel messages as there were cause events. -/
theorem run_outbox {s s' : State} {acts : List Action} (h : run s acts = some s') :
    s'.peer = s.peer ∧ ∃ l, s'.outbox = s.outbox ++ l ∧ cancels l = (causes s acts).length ∧
      ∀ o ∈ l, o.peer = s.peer := by
  induction acts generalizing s with
  | nil => simp [run] at h; subst h; exact ⟨rfl, [], by simp, by simp [cancels, causes], by simp⟩
  | cons a as ih =>
    simp only [run] at h
    cases hs : step s a with
    | none => simp [hs] at h
    | some s1 =>
      simp [hs] at h
      obtain ⟨hp1, ho1⟩ := step_outbox hs
      obtain ⟨hp2, l, ho2, hc, hpl⟩ := ih h
      refine ⟨hp2.trans hp1, emit s a ++ l, ?_, ?_, ?_⟩
      · rw [ho2, ho1, List.append_assoc]
      · simp [cancels_append, cancels_emit, causes, hs, hc]
      · intro o ho
        rcases List.mem_append.mp ho with ho | ho
        · exact emit_peer s a o ho
        · rw [hpl o ho, hp1]

theorem count_cancelTo {l : List Out} {p : Nat} (h : ∀ o ∈ l, o.peer = p) : l.count (cancelTo p) = cancels l := by
  unfold cancels
  rw [List.count_eq_countP]
  apply List.countP_congr
  intro o ho
  have := h o ho
  cases o with
  | mk k q => simp at this; subst this; cases k <;> simp [cancelTo]

/-- **monotone outbox**: a message once sent stays sent; `peer` never changes. -/
theorem outbox_monotone {s s' : State} {acts : List Action} (h : run s acts = some s') :
    s.outbox <+: s'.outbox ∧ s'.peer = s.peer := by
  obtain ⟨hp, l, ho, _, _⟩ := run_outbox h
  exact ⟨⟨l, ho.symm⟩, hp⟩

/-- **exact accounting (all histories).**  After any history from `init p e t`: every wire message is
    addressed to `p`, and the number of cancel messages to `p` equals the number of cause events. -/
theorem cancel_count_eq_causes {p e t : Nat} {as : List Action} {s : State} (h : run (init p e t) as = some s) :
    s.peer = p ∧ (∀ o ∈ s.outbox, o.peer = p) ∧
    s.outbox.count (cancelTo p) = (causes (init p e t) as).length := by
  obtain ⟨hp, l, ho, hc, hpl⟩ := run_outbox h
  have ho' : s.outbox = l := by simpa [init] using ho
  have hall : ∀ o ∈ s.outbox, o.peer = p := by rw [ho']; intro o h1; simpa [init] using hpl o h1
  refine ⟨by simpa [init] using hp, hall, ?_⟩
  rw [count_cancelTo hall, ho', hc]

/-- every reachable state has a history (so the history statements below cover all reachable states). -/
theorem reachable_iff_trace {s : State} :
    Reachable s ↔ ∃ p e t as, run (init p e t) as = some s := by
  constructor
  · intro h
    induction h with
    | init p e t => exact ⟨p, e, t, [], rfl⟩
    | @step s0 s1 a _ hs ih =>
      obtain ⟨p, e, t, as, hr⟩ := ih
      exact ⟨p, e, t, as ++ [a], by simp [run_append, hr, run, hs]⟩
  · rintro ⟨p, e, t, as, hr⟩
    exact reachable_run (Reachable.init p e t) hr

/-! ## Clause 1: caller cancel handled while tracked ⇒ cancel in the outbox -/

/-- **cancel_sent_of_cancelled** (safety, all histories).  Let the history be `pre ++ mgr :: post`, where
    after `pre` the manager is idle, the head of its mailbox is a caller cancel (`api = true`: CancelRequest;
    `api = false`: the collector's cancelRequestAndClose after the caller's context was cancelled) and the
    manager still tracks the request (`reg = live`; every `rstate` -- Queued, Running, Paused -- is covered,
    `rstate_cases`), and the manager handles it (`mgr`).  Then in the state `s` after the whole history, and in
    EVERY later state `s'`:  the outbox contains a cancel message addressed to the request's own peer `p`;
    every cancel message in it is that message (none to another peer); the earlier outbox is a prefix of the
    later one.  (Count: `1 ≤`, and exactly = number of cause events; "= 1" is false, see below.) -/
theorem cancel_sent_of_cancelled {p e t : Nat} {pre post : List Action} {s1 s : State} {api : Bool}
    {rest : List Msg}
    (h1 : run (init p e t) pre = some s1)
    (hm : s1.mphase = .idle) (hb : s1.mbox = Msg.cancel api :: rest) (hl : s1.reg = .live)
    (h2 : run s1 (Action.mgr :: post) = some s) :
    cancelTo p ∈ s.outbox ∧ 1 ≤ s.outbox.count (cancelTo p) ∧
    s.outbox.count (cancelTo p) = (causes (init p e t) (pre ++ Action.mgr :: post)).length ∧
    Cause.callerCancel api ∈ causes (init p e t) (pre ++ Action.mgr :: post) ∧
    (∀ o ∈ s.outbox, o.kind = .cancel → o = cancelTo p) ∧
    (∀ acts s', run s acts = some s' →
      s.outbox <+: s'.outbox ∧ cancelTo p ∈ s'.outbox ∧ ∀ o ∈ s'.outbox, o.kind = .cancel → o = cancelTo p) := by
  have hfull : run (init p e t) (pre ++ Action.mgr :: post) = some s := by simp [run_append, h1, h2]
  obtain ⟨hp, hall, hcnt⟩ := cancel_count_eq_causes hfull
  have hmem : Cause.callerCancel api ∈ causes (init p e t) (pre ++ Action.mgr :: post) := by
    rw [causes_append _ h1]
    apply List.mem_append_right
    simp only [run] at h2
    cases hs : step s1 Action.mgr with
    | none => simp [hs] at h2
    | some s2 => simp [causes, hs, cause, hm, hb, msgCause, hl]
  have hpos : 1 ≤ s.outbox.count (cancelTo p) := by
    rw [hcnt]; exact List.length_pos_of_mem hmem
  have hin : cancelTo p ∈ s.outbox := List.count_pos_iff.mp hpos
  have honly : ∀ {x : State}, (∀ o ∈ x.outbox, o.peer = p) → ∀ o ∈ x.outbox, o.kind = .cancel → o = cancelTo p := by
    intro x hx o ho hk
    have := hx o ho
    cases o with
    | mk k q => simp at this hk; subst this hk; rfl
  refine ⟨hin, hpos, hcnt, hmem, honly hall, ?_⟩
  intro acts s' hr
  obtain ⟨hpre, _⟩ := outbox_monotone hr
  have hfull' : run (init p e t) ((pre ++ Action.mgr :: post) ++ acts) = some s' := by
    rw [run_append, hfull]; exact hr
  exact ⟨hpre, hpre.subset hin, honly (cancel_count_eq_causes hfull').2.1⟩

/-- "exactly one" holds for histories with a single cause event (trivial corollary of the accounting). -/
theorem cancel_exactly_one_partial {p e t : Nat} {as : List Action} {s : State} {c : Cause}
    (h : run (init p e t) as = some s) (h1 : causes (init p e t) as = [c]) :
    s.outbox.count (cancelTo p) = 1 := by
  rw [(cancel_count_eq_causes h).2.2, h1]; rfl

/-- FALSE: "exactly one cancel message".  CancelRequest called twice while the executor runs: the first
    call only cancels the request's context (the request stays in `inProgressRequestStatuses` until the
    executor releases the task), so the second call finds it and sends a second cancel (client.go
    cancelRequest has no "already cancelled" test).  The property sentence says "sends a cancel", not
    "exactly one": the code EXCEEDS the sentence, it does not contradict it (a duplicate cancel is ignored
    by the responder: unknown / already cancelled request id). -/
def twoApiCancelsTrace : List Action :=
  [.envNew, .mgr, .wPop, .wGet, .mgr, .envCancelApi, .envCancelApi, .mgr, .mgr]

theorem cancel_exactly_one_counterexample :
    ∃ s, run (init 5 10 10) twoApiCancelsTrace = some s ∧ s.outbox.count (cancelTo 5) = 2 ∧
      causes (init 5 10 10) twoApiCancelsTrace = [.callerCancel true, .callerCancel true] := by decide

/-- second way to two cancels: the executor stops for a pause (cancel #1, executor.go tail), then the caller
    cancels the paused request (cancel #2). -/
def pauseThenCancelTrace : List Action :=
  [.envNew, .mgr, .wPop, .wGet, .mgr, .xTop, .xWaitLocal, .xRead true 0 true, .envPause, .mgr, .xHook .ok,
   .xFin1, .mgr, .envCancelApi, .mgr]

theorem cancel_exactly_one_counterexample_pause :
    ∃ s, run (init 5 10 10) pauseThenCancelTrace = some s ∧ s.outbox.count (cancelTo 5) = 2 ∧
      causes (init 5 10 10) pauseThenCancelTrace = [.execPause, .callerCancel true] := by decide

/-- The property text of C04 says "sends a cancel to the responder" without the restriction "if the request
    had reached the network"; the code sends the cancel for ANY tracked request, also one that is still
    queued and for which no request message ever went out.  So the reading "a cancel is sent ONLY IF a
    request message was sent" is false of the code; again the code exceeds the sentence (harmless: the
    responder ignores a cancel for an unknown id). -/
theorem cancel_only_if_reached_network_counterexample :
    ∃ s, run (init 7 10 10) cancelQueuedTrace = some s ∧ cancelTo 7 ∈ s.outbox ∧ reqTo 7 ∉ s.outbox ∧
      causes (init 7 10 10) cancelQueuedTrace = [.callerCancel true] := by decide

/-- non-vacuity of `cancel_sent_of_cancelled` (test on one history): API cancel of a running request that
    had reached the network; hypotheses met with `pre` = first 10 actions. -/
example : ((run (init 3 10 10)
      [.envNew, .mgr, .wPop, .wGet, .mgr, .xTop, .xWaitLocal, .xRead false 0 false, .xSendReq, .envCancelApi]).map
      fun s1 => (s1.mphase, s1.mbox, s1.reg, s1.rstate, ((run s1 [Action.mgr]).map (·.outbox)).getD [])) =
    some (MPhase.idle, [Msg.cancel true], Reg.live, RState.running, [reqTo 3, cancelTo 3]) := by decide

/-- non-vacuity, context cancel (api = false) of a running request (`cancelCtxTrace` of C04.lean, first 14
    actions, then `mgr`). -/
example : ((run (init 3 10 10) (cancelCtxTrace.take 14)).map
      fun s1 => (s1.mphase, s1.mbox, s1.reg, s1.rstate, ((run s1 [Action.mgr]).map (·.outbox)).getD [])) =
    some (MPhase.idle, [Msg.cancel false], Reg.live, RState.running, [reqTo 3, cancelTo 3]) := by decide

/-! ## Clause 2: the converse -/

/-- what a cause event is, exactly (enumeration of the transitions that append a cancel). -/
theorem cause_spec {s : State} {a : Action} {c : Cause} (h : cause s a = some c) :
    (a = .mgr ∧ s.mphase = .idle ∧ s.reg = .live ∧ ∃ m rest, s.mbox = m :: rest ∧
        ((∃ api, m = .cancel api ∧ c = .callerCancel api) ∨
         (∃ q st items, m = .responses q st items true ∧ hookRunsFor s q = true ∧ c = .hookErr))) ∨
    (a = .xFin1 ∧ ((s.w = .fin1 .paused ∧ c = .execPause) ∨ ∃ e, s.w = .fin1 (.err e) ∧ c = .execErr e)) := by
  cases a <;> simp only [cause] at h <;> try (cases h; done)
  · left
    split at h
    next m rest hm hb =>
      cases m <;> simp only [msgCause] at h <;> try (cases h; done)
      · split at h
        next hl => cases h; exact ⟨rfl, hm, hl, _, _, hb, Or.inl ⟨_, rfl, rfl⟩⟩
        next => cases h
      · split at h
        next hl =>
          cases h
          obtain ⟨h1, h2⟩ := hl
          simp at h1
          obtain ⟨h3, h4⟩ := h1
          subst h4
          exact ⟨rfl, hm, h2, _, _, hb, Or.inr ⟨_, _, _, rfl, h3, rfl⟩⟩
        next => cases h
    next => cases h
  · right
    split at h
    · cases h; exact ⟨rfl, Or.inl ⟨by assumption, rfl⟩⟩
    · cases h; exact ⟨rfl, Or.inr ⟨_, by assumption, rfl⟩⟩
    · cases h

/-- every cause event happens while the manager tracks the request (for the executor's two causes this is
    the invariant `Inv.j`: an executor holding the task ⇒ request live and Running). -/
theorem cause_tracked {s : State} (hr : Reachable s) {a : Action} {c : Cause} (h : cause s a = some c) :
    s.reg = .live := by
  rcases cause_spec h with ⟨_, _, hl, _⟩ | ⟨_, hw⟩
  · exact hl
  · have hj := (reachable_inv hr).1.j
    rcases hw with ⟨hw, _⟩ | ⟨e, hw, _⟩ <;> exact (hj (by simp [hw, execActive])).1

theorem mem_causes {s : State} {as : List Action} {c : Cause} (h : c ∈ causes s as) :
    ∃ pre a post s1, as = pre ++ a :: post ∧ run s pre = some s1 ∧ cause s1 a = some c ∧
      (step s1 a).isSome = true := by
  induction as generalizing s with
  | nil => simp [causes] at h
  | cons a as ih =>
    simp only [causes] at h
    cases hs : step s a with
    | none => simp [hs] at h
    | some s2 =>
      simp [hs] at h
      rcases h with h | h
      · exact ⟨[], a, as, s, rfl, rfl, h, by simp [hs]⟩
      · obtain ⟨pre, b, post, s1, e1, e2, e3, e4⟩ := ih h
        exact ⟨a :: pre, b, post, s1, by simp [e1], by simp [run, hs, e2], e3, e4⟩

/-- **converse (all histories).**  A cancel message is in the outbox ONLY IF it is addressed to the own peer
    and some earlier step of the history was a cause event -- one of (`cause_spec`): a caller cancel (API or
    context) handled for a tracked request, a response-hook error for a tracked request, the executor
    stopping for a pause, the executor ending with a non-context error -- taken while the request was
    tracked. -/
theorem cancel_sent_only_if_cause {p e t : Nat} {as : List Action} {s : State} {o : Out}
    (h : run (init p e t) as = some s) (ho : o ∈ s.outbox) (hk : o.kind = .cancel) :
    o = cancelTo p ∧ ∃ pre a post s1 c, as = pre ++ a :: post ∧ run (init p e t) pre = some s1 ∧
      cause s1 a = some c ∧ (step s1 a).isSome = true ∧ s1.reg = .live := by
  obtain ⟨_, hall, hcnt⟩ := cancel_count_eq_causes h
  have ho' : o = cancelTo p := by
    have := hall o ho
    cases o with
    | mk k q => simp at this hk; subst this hk; rfl
  refine ⟨ho', ?_⟩
  have hpos : 0 < s.outbox.count (cancelTo p) := List.count_pos_iff.mpr (ho' ▸ ho)
  rw [hcnt] at hpos
  obtain ⟨c, hc⟩ := List.exists_mem_of_length_pos hpos
  obtain ⟨pre, a, post, s1, e1, e2, e3, e4⟩ := mem_causes hc
  exact ⟨pre, a, post, s1, c, e1, e2, e3, e4, cause_tracked (reachable_run (Reachable.init p e t) e2) e3⟩

/-- no cause event, no cancel message: histories without a cause send no cancel. -/
theorem no_cancel_without_cause {p e t : Nat} {as : List Action} {s : State}
    (h : run (init p e t) as = some s) (hc : causes (init p e t) as = []) : ∀ o ∈ s.outbox, o.kind ≠ .cancel := by
  intro o ho hk
  obtain ⟨_, pre, a, post, s1, c, e1, e2, e3, _⟩ := cancel_sent_only_if_cause h ho hk
  have : c ∈ causes (init p e t) as := by
    rw [e1, causes_append _ e2]
    apply List.mem_append_right
    cases hs : step s1 a with
    | none => simp_all
    | some s2 => simp [causes, hs, e3]
  simp [hc] at this

/-- once the manager has dropped the request (`reg = gone`: it ended, successfully or not), no cancel message
    is ever sent for it again: the number of cancel messages is frozen. -/
theorem no_cancel_after_gone {s s' : State} {acts : List Action} (hr : Reachable s) (hg : s.reg = .gone)
    (h : run s acts = some s') : cancels s'.outbox = cancels s.outbox := by
  induction acts generalizing s with
  | nil => simp [run] at h; subst h; rfl
  | cons a as ih =>
    simp only [run] at h
    cases hs : step s a with
    | none => simp [hs] at h
    | some s1 =>
      simp [hs] at h
      have hg1 := (gone_step (reachable_inv hr).1 hg hs).1
      rw [ih (Reachable.step hr hs) hg1 h, (step_outbox hs).2, cancels_append, cancels_emit]
      cases hc : cause s a with
      | none => simp
      | some c => have := cause_tracked hr hc; simp [hg] at this

/-- **never for a request that ended successfully before**: if the request has ended (`reg = gone`) and no
    cancel had been sent up to then (in particular: a request that completed successfully without any
    pause / hook error / caller cancel), no later history -- whatever the caller cancels afterwards -- puts a
    cancel message in the outbox. -/
theorem no_cancel_after_clean_end {s s' : State} {acts : List Action} (hr : Reachable s) (hg : s.reg = .gone)
    (hn : ∀ o ∈ s.outbox, o.kind ≠ .cancel) (h : run s acts = some s') : ∀ o ∈ s'.outbox, o.kind ≠ .cancel := by
  have h0 : cancels s.outbox = 0 := by
    simp only [cancels, List.countP_eq_zero]; intro o ho; simpa using hn o ho
  have h1 := no_cancel_after_gone hr hg h
  rw [h0] at h1
  simp only [cancels, List.countP_eq_zero] at h1
  intro o ho; simpa using h1 o ho

/-- non-vacuity (test on one history): `successTrace` ends successfully (`reg = gone`, no terminal error,
    no cancel in the outbox); cancelling afterwards through the API and the context changes nothing. -/
example : ((run (init 0 10 10) successTrace).map fun s => (s.reg, s.termErr, s.outbox)) =
    some (.gone, none, [reqTo 0]) := by decide

example : ((run (init 0 10 10) (successTrace ++ [.envCancelApi, .mgr, .envCtxCancel])).map
    fun s => (s.outbox, s.apiLog)) = some ([reqTo 0], [ApiRes.cancelNotFound]) := by decide

/-- non-vacuity of `cause_spec`, hook-error and executor-error causes (tests). -/
example : causes (init 0 10 10) [.envNew, .mgr, .envResp 0 14 0 true, .mgr] = [.hookErr] := by decide
example : causes (init 0 10 10)
    [.envNew, .mgr, .wPop, .wGet, .mgr, .xTop, .xWaitLocal, .xRead true 0 true, .xHook .err, .xFin1] =
    [.execErr Err.hook] := by decide

/-! ## Liveness -/

theorem exec_outbox_mono {σ : Nat → State} (hex : GS.Temporal.Exec sys σ) (i d : Nat) :
    (σ i).outbox <+: (σ (i + d)).outbox ∧ (σ (i + d)).peer = (σ i).peer := by
  induction d with
  | zero => exact ⟨List.prefix_refl _, rfl⟩
  | succ d ih =>
    rcases hex (i + d) with h | ⟨a, h⟩
    · rw [show i + (d + 1) = i + d + 1 from rfl, h]; exact ih
    · have hs : step (σ (i + d)) a = some (σ (i + d + 1)) := h
      obtain ⟨hp, ho⟩ := step_outbox hs
      refine ⟨ih.1.trans ⟨_, ho.symm⟩, hp.trans ih.2⟩

/-- **cancel_sent_eventually.**  On every execution from an initial state that is weakly fair for every
    process group: from any position where the caller has cancelled (`apiCancelled` or `callerCtx`) and the
    cancel message is in the outbox (which `cancel_sent_of_cancelled` gives from the moment the manager has
    handled the cancel of a tracked request), a position is reached where BOTH returned channels are closed,
    the cancel message to the own peer is still in the outbox, and a `RequestClientCancelledErr` has been
    delivered on the error channel whenever the request's terminal error is the client-cancelled one (no
    failure status / hook error won the race) or the context was cancelled before the error collector saw the
    internal channel closed. -/
theorem cancel_sent_eventually (σ : Nat → State) (h0 : ∃ p e t, σ 0 = init p e t)
    (hex : GS.Temporal.Exec sys σ) (hfair : GroupFair σ) (i : Nat)
    (hc : (σ i).apiCancelled = true ∨ (σ i).callerCtx = true)
    (hout : cancelTo (σ i).peer ∈ (σ i).outbox) :
    ∃ j, i ≤ j ∧ bothClosed (σ j) = true ∧ cancelTo (σ j).peer ∈ (σ j).outbox ∧
      ((σ j).termErr = some Err.cc → Err.cc ∈ sends (σ j).retE) ∧
      ((σ j).ctxWhileOpen = true → Err.cc ∈ sends (σ j).retE) := by
  obtain ⟨j, hij, hb⟩ := terminates σ h0 hex hfair i (Or.inr hc)
  obtain ⟨d, rfl⟩ := Nat.exists_eq_add_of_le hij
  obtain ⟨hpre, hp⟩ := exec_outbox_mono hex i d
  have hr := exec_reachable h0 hex (i + d)
  have hce : (σ (i + d)).ce = .done := by
    simp [bothClosed] at hb; exact hb.2
  exact ⟨i + d, hij, hb, by rw [hp]; exact hpre.subset hout,
    fun ht => cancel_outcome_api hr ht hce, fun ht => cancel_outcome_ctx hr ht hce⟩

/-! ## The same, read off the model's own records (every reachable state) -/

/-- **cancel_sent_of_recorded** (invariant over `Reachable`).  Whenever the model's own state records that a
    `CancelRequest` was handled for a tracked request -- the terminal error is `RequestClientCancelledErr`
    (`cancel_api_records_cc`), or a CancelRequest caller is still waiting for the termination (`waiters`), or a
    CancelRequest call has returned ok (`cancelOk ∈ apiLog`) -- the cancel message to the request's own peer
    is in the outbox, every cancel message in the outbox is that one, and this remains so in every later
    state.  (For a context cancel the model keeps no such record in the manager; that case is covered by the
    history form `cancel_sent_of_cancelled` with `api = false`.) -/
theorem cancel_sent_of_recorded {s : State} (h : Reachable s)
    (hc : s.termErr = some Err.cc ∨ 0 < s.waiters ∨ ApiRes.cancelOk ∈ s.apiLog) :
    cancelTo s.peer ∈ s.outbox ∧ (∀ o ∈ s.outbox, o.kind = .cancel → o = cancelTo s.peer) ∧
    ∀ acts s', run s acts = some s' → s'.peer = s.peer ∧ cancelTo s'.peer ∈ s'.outbox := by
  have hin := invCF_reachable h hc
  refine ⟨hin, ?_, ?_⟩
  · intro o ho hk
    have := outbox_own_peer h o ho
    cases o with
    | mk k q => simp at this hk; subst this hk; rfl
  · intro acts s' hr
    obtain ⟨hpre, hp⟩ := outbox_monotone hr
    exact ⟨hp, by rw [hp]; exact hpre.subset hin⟩

/-- non-vacuity (test): after `cancelQueuedTrace` all three records hold or held: terminal error cc, cancelOk. -/
example : ((run (init 7 10 10) cancelQueuedTrace).map fun s => (s.termErr, s.apiLog, s.outbox)) =
    some (some Err.cc, [ApiRes.cancelOk], [cancelTo 7]) := by decide

theorem exec_termErr_keep {σ : Nat → State} (hex : GS.Temporal.Exec sys σ) (i d : Nat) {x : Err}
    (h : (σ i).termErr = some x) : (σ (i + d)).termErr = some x := by
  induction d with
  | zero => exact h
  | succ d ih =>
    rcases hex (i + d) with h1 | ⟨a, h1⟩
    · rw [show i + (d + 1) = i + d + 1 from rfl, h1]; exact ih
    · exact step_termErr_keep (show step (σ (i + d)) a = some (σ (i + d + 1)) from h1) ih

/-- **cancel_api_eventually.**  On every weakly fair execution: from any position where `CancelRequest` was
    the first terminal cause of a tracked request (the manager recorded `RequestClientCancelledErr` as the
    terminal error; `Triggered` holds there since the API was called), a position is reached where both
    returned channels are closed, the cancel message to the own peer is in the outbox, and a
    `RequestClientCancelledErr` HAS been delivered on the error channel.  (If a failure status or hook error
    was recorded first, `termErr` is that error instead -- "unless a failure status won the race" -- and
    `failure_outcome` applies.) -/
theorem cancel_api_eventually (σ : Nat → State) (h0 : ∃ p e t, σ 0 = init p e t)
    (hex : GS.Temporal.Exec sys σ) (hfair : GroupFair σ) (i : Nat)
    (htr : Triggered (σ i)) (ht : (σ i).termErr = some Err.cc) :
    ∃ j, i ≤ j ∧ bothClosed (σ j) = true ∧ cancelTo (σ j).peer ∈ (σ j).outbox ∧ Err.cc ∈ sends (σ j).retE := by
  obtain ⟨j, hij, hb⟩ := terminates σ h0 hex hfair i htr
  obtain ⟨d, rfl⟩ := Nat.exists_eq_add_of_le hij
  have hr := exec_reachable h0 hex (i + d)
  have ht' := exec_termErr_keep hex i d ht
  have hce : (σ (i + d)).ce = .done := by
    simp [bothClosed] at hb; exact hb.2
  exact ⟨i + d, hij, hb, (cancel_sent_of_recorded hr (Or.inl ht')).1, cancel_outcome_api hr ht' hce⟩

end GS.C04
