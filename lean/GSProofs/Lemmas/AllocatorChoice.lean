import GSProofs.Lemmas.AllocatorReach
/-!
# Allocator: the heap's tie-break is irrelevant (history-dependent `Peek`)

`pick : Pick` in the model is a function of the current peer list, while a real binary heap's
choice among comparator-equivalent elements depends on its history.  Here the allocator is given a
**nondeterministic semantics**: at *every single call* of `Peek` (every loop iteration of every
operation) *any* admissible pick function — hence any comparator-minimal member,
`exists_admissible_choosing` — may be used, different ones at different calls even on equal lists.
`runR_unique`: every such nondeterministic run yields literally the same final state and the same
event list as the functional model with any fixed admissible `pick` (e.g. `pickMin`).  So all
theorems proved about `run pick` hold for every history-dependent heap behaviour.
-/
namespace GS.Alloc

/-- any comparator-minimal member can be the answer of an admissible `Peek` -/
theorem exists_admissible_choosing (mp : Nat) (ps : List PeerSt) (np : PeerSt) (hmem : np ∈ ps)
    (hmin : ∀ b ∈ ps, PeerSt.lt mp b np = false) :
    ∃ pick : Pick, Admissible pick ∧ pick mp ps = some np := by
  refine ⟨fun mp' ps' => if mp' = mp ∧ ps' = ps then some np else pickMin mp' ps', ?_, by simp⟩
  refine ⟨?_, ?_, ?_⟩
  · intro mp' ps' h
    by_cases hc : mp' = mp ∧ ps' = ps
    · simp [hc] at h
    · simp only [hc, if_false] at h; exact pickMin_admissible.nonempty _ _ h
  · intro mp' ps' x h
    by_cases hc : mp' = mp ∧ ps' = ps
    · simp only [hc, and_self, if_true, Option.some.injEq] at h; rw [← h, hc.2]; exact hmem
    · simp only [hc, if_false] at h; exact pickMin_admissible.mem _ _ _ h
  · intro mp' ps' x h
    by_cases hc : mp' = mp ∧ ps' = ps
    · simp only [hc, and_self, if_true, Option.some.injEq] at h; rw [← h, hc.1, hc.2]; exact hmin
    · simp only [hc, if_false] at h; exact pickMin_admissible.min _ _ _ h

/-- the wake-up loop where every iteration may use a different admissible `Peek` -/
inductive LoopRunR : State → State → List Event → Prop
  | stop {s : State} (pick : Pick) : Admissible pick → loopStep pick s = none → LoopRunR s s []
  | iter {s s1 s2 : State} {e es : List Event} (pick : Pick) : Admissible pick →
      loopStep pick s = some (s1, e) → LoopRunR s1 s2 es → LoopRunR s s2 (e ++ es)

theorem LoopRun.toR {pick : Pick} (hp : Admissible pick) {s s' : State} {es : List Event}
    (h : LoopRun pick s s' es) : LoopRunR s s' es := by
  induction h with
  | stop hl => exact .stop pick hp hl
  | iter hl _ ih => exact .iter pick hp hl ih

/-- nobody is waiting -/
def AllIdle (s : State) : Prop := ∀ c ∈ s.peers, c.pending = []

theorem filter_erasePeer_idle {ps : List PeerSt} {np : PeerSt} (hn : (ids ps).Nodup) (hmem : np ∈ ps)
    (hz : np.total = 0) :
    (erasePeer ps np.id).filter (fun st => st.total != 0) = ps.filter (fun st => st.total != 0) := by
  unfold erasePeer
  rw [List.filter_filter]
  apply List.filter_congr
  intro x hx
  by_cases hid : x.id = np.id
  · have := eq_of_mem_of_id_eq hn hx hmem hid
    subst this; simp [hz]
  · simp [hid]

/-- with nobody waiting, the loop (whatever the choices) just drops the entries holding nothing -/
theorem loopRunR_idle {s s' : State} {es : List Event} (h : LoopRunR s s' es) (hw : WF s)
    (hi : AllIdle s) :
    s' = { s with peers := s.peers.filter (fun st => st.total != 0) } ∧ es = [] := by
  induction h with
  | @stop s pick hp hl =>
    have hc := loopStep_cases hp hw
    rw [hl] at hc
    refine ⟨?_, rfl⟩
    have hfil : s.peers.filter (fun st => st.total != 0) = s.peers := by
      cases hc with
      | stopEmpty he => rw [he]; rfl
      | stopTotal np h0 rest hmem _ hpend _ => rw [hi np hmem] at hpend; cases hpend
      | stopPeer np h0 rest hmem _ hpend _ => rw [hi np hmem] at hpend; cases hpend
      | stopIdle np hmem hmin hpend hpos =>
        apply List.filter_eq_self.mpr
        intro b hb
        have := hmin b hb
        unfold PeerSt.lt at this
        simp only [hi b hb, hpend, decide_eq_false_iff_not] at this
        have : b.total ≠ 0 := by omega
        simpa using this
    rw [hfil]
  | @iter s s1 s2 e es pick hp hl _ ih =>
    have hc := loopStep_cases hp hw
    have hw1 := loopStep_WF hp hw hl
    rw [hl] at hc
    cases hc with
    | grant np hd rest hmem _ hpend _ _ => rw [hi np hmem] at hpend; cases hpend
    | erase np hmem hmin hpend hz =>
      have hi1 : AllIdle { s with peers := erasePeer s.peers np.id } :=
        fun c hc => hi c (mem_erasePeer.mp hc).1
      obtain ⟨h1, h2⟩ := ih hw1 hi1
      refine ⟨?_, by rw [h2]; rfl⟩
      rw [h1]
      show ({ s with peers := (erasePeer s.peers np.id).filter _ } : State) = _
      rw [filter_erasePeer_idle hw.nodup hmem hz]

/-- the loop body after `Peek` returned `np` -/
def stepWith (s : State) (np : PeerSt) : Option (State × List Event) :=
  match np.pending with
  | h :: rest =>
    if !fits s.total h.amount s.maxTotal then none
    else if !fits np.total h.amount s.maxPeer then none
    else
      let np' := { np with total := add64 np.total h.amount, pending := rest }
      some ({ s with total := add64 s.total h.amount, peers := setPeer s.peers np' },
            [Event.granted np.id h.ticket h.amount])
  | [] =>
    if np.total > 0 then none
    else some ({ s with peers := erasePeer s.peers np.id }, [])

theorem loopStep_eq_stepWith (pick : Pick) (s : State) :
    loopStep pick s = (pick s.maxPeer s.peers).bind (stepWith s) := by
  unfold loopStep
  cases pick s.maxPeer s.peers <;> rfl

/-- if somebody is waiting, one iteration does not depend on the admissible choice -/
theorem loopStep_choice_irrelevant {p p' : Pick} (hp : Admissible p) (hp' : Admissible p') {s : State}
    (hw : WF s) (hni : ¬ AllIdle s) : loopStep p s = loopStep p' s := by
  rw [loopStep_eq_stepWith, loopStep_eq_stepWith]
  cases h1 : p s.maxPeer s.peers with
  | none => exact absurd (by intro c hc; rw [hp.nonempty _ _ h1] at hc; cases hc) hni
  | some np =>
    cases h2 : p' s.maxPeer s.peers with
    | none => exact absurd (by intro c hc; rw [hp'.nonempty _ _ h2] at hc; cases hc) hni
    | some np' =>
      show stepWith s np = stepWith s np'
      have hm := hp.mem _ _ _ h1
      have hm' := hp'.mem _ _ _ h2
      have hmin := hp.min _ _ _ h1
      have hmin' := hp'.min _ _ _ h2
      rcases hpe : np.pending with _ | ⟨h, rest⟩
      · exact absurd (no_pending_of_min_empty hmin hpe) hni
      rcases hpe' : np'.pending with _ | ⟨h', rest'⟩
      · exact absurd (no_pending_of_min_empty hmin' hpe') hni
      by_cases hf : np.total + h.amount ≤ s.maxPeer
      · by_cases hf' : np'.total + h'.amount ≤ s.maxPeer
        · have l1 := min_of_headFits hmin hpe hf np' hm' h' ⟨⟨rest', hpe'⟩, hf'⟩
          have l2 := min_of_headFits hmin' hpe' hf' np hm h ⟨⟨rest, hpe⟩, hf⟩
          have hid := hw.inj np hm np' hm' h (by rw [hpe]; simp) h' (by rw [hpe']; simp) (by omega)
          rw [eq_of_mem_of_id_eq hw.nodup hm hm' hid]
        · exact absurd ⟨⟨rest, hpe⟩, hf⟩ (no_headFits_of_min_nofit hmin' hpe' (by omega) np hm h)
      · have e1 : fits np.total h.amount s.maxPeer = false := (fits_false_iff _ _ _).mpr (by omega)
        by_cases hf' : np'.total + h'.amount ≤ s.maxPeer
        · exact absurd ⟨⟨rest', hpe'⟩, hf'⟩ (no_headFits_of_min_nofit hmin hpe (by omega) np' hm' h')
        · have e2 : fits np'.total h'.amount s.maxPeer = false := (fits_false_iff _ _ _).mpr (by omega)
          unfold stepWith
          rw [hpe, hpe']
          simp only [e1, e2]
          cases fits s.total h.amount s.maxTotal <;> cases fits s.total h'.amount s.maxTotal <;> rfl

/-- **the wake-up loop is deterministic whatever the heap does:** any run with per-iteration
    choices ends in the same state with the same events as the loop of the functional model. -/
theorem loopRunR_unique {p : Pick} (hp : Admissible p) {s a : State} {ea : List Event}
    (h : LoopRunR s a ea) (hw : WF s) : (a, ea) = processPending p s := by
  have key : ∀ {s a ea}, LoopRunR s a ea → WF s → ∀ b eb, LoopRun p s b eb → a = b ∧ ea = eb := by
    intro s a ea h
    induction h with
    | @stop s pick hpk hl =>
      intro hw b eb hb
      by_cases hi : AllIdle s
      · have r1 := loopRunR_idle (.stop pick hpk hl) hw hi
        have r2 := loopRunR_idle (hb.toR hp) hw hi
        exact ⟨r1.1.trans r2.1.symm, r1.2.trans r2.2.symm⟩
      · rw [loopStep_choice_irrelevant hpk hp hw hi] at hl
        cases hb with
        | stop _ => exact ⟨rfl, rfl⟩
        | iter hl' _ => rw [hl] at hl'; cases hl'
    | @iter s s1 s2 e es pick hpk hl htail ih =>
      intro hw b eb hb
      by_cases hi : AllIdle s
      · have r1 := loopRunR_idle (.iter pick hpk hl htail) hw hi
        have r2 := loopRunR_idle (hb.toR hp) hw hi
        exact ⟨r1.1.trans r2.1.symm, r1.2.trans r2.2.symm⟩
      · have hw1 := loopStep_WF hpk hw hl
        rw [loopStep_choice_irrelevant hpk hp hw hi] at hl
        cases hb with
        | stop hl' => rw [hl] at hl'; cases hl'
        | iter hl' htail' =>
          rw [hl] at hl'
          injection hl' with hl'
          rw [Prod.mk.injEq] at hl'
          obtain ⟨rfl, rfl⟩ := hl'
          obtain ⟨r1, r2⟩ := ih hw1 _ _ htail'
          exact ⟨r1, by rw [r2]⟩
  obtain ⟨r1, r2⟩ := key h hw _ _ (processPending_loopRun hp hw)
  rw [r1, r2]

theorem releaseCore_wf {s s1 : State} {p a : Nat} {ev : Event} (hw : WF s)
    (hc : releaseCore s p a = some (s1, ev)) : WF s1 := by
  cases hf : findPeer s.peers p with
  | none => unfold releaseCore at hc; simp [hf] at hc
  | some st =>
    have e := (releaseCore_some hw (a := a) hf).1
    rw [hc] at e
    injection e with e; rw [Prod.mk.injEq] at e
    rw [e.1]; exact releaseCore_WF hw hf

theorem releasePeerCore_wf {s s1 : State} {p : Nat} {evs : List Event} (hw : WF s)
    (hc : releasePeerCore s p = some (s1, evs)) : WF s1 := by
  cases hf : findPeer s.peers p with
  | none => unfold releasePeerCore at hc; simp [hf] at hc
  | some st =>
    have e := releasePeerCore_some hw hf
    rw [hc] at e
    injection e with e; rw [Prod.mk.injEq] at e
    rw [e.1]; exact releasePeerCore_WF hw hf

/-- one operation, with arbitrary admissible heap choices at every `Peek` -/
inductive StepR : State → Op → State × List Event → Prop
  | alloc {s : State} {p a t : Nat} : StepR s (.alloc p a t) (alloc s p a t)
  | releaseErr {s : State} {p a : Nat} : releaseCore s p a = none →
      StepR s (.release p a) (s, [Event.errNoPeer])
  | release {s s1 s2 : State} {p a : Nat} {ev : Event} {es : List Event} :
      releaseCore s p a = some (s1, ev) → LoopRunR s1 s2 es → StepR s (.release p a) (s2, ev :: es)
  | releasePeerErr {s : State} {p : Nat} : releasePeerCore s p = none →
      StepR s (.releasePeer p) (s, [Event.errNoPeer])
  | releasePeer {s s1 s2 : State} {p : Nat} {evs es : List Event} :
      releasePeerCore s p = some (s1, evs) → LoopRunR s1 s2 es → StepR s (.releasePeer p) (s2, evs ++ es)

/-- a whole history, with arbitrary admissible heap choices at every `Peek` -/
inductive RunR : State → List Op → State × List Event → Prop
  | nil {s : State} : RunR s [] (s, [])
  | cons {s : State} {op : Op} {ops : List Op} {r1 r2 : State × List Event} :
      StepR s op r1 → RunR r1.1 ops r2 → RunR s (op :: ops) (r2.1, r1.2 ++ r2.2)

theorem stepR_unique {p : Pick} (hp : Admissible p) {s : State} (hw : WF s) {op : Op}
    {r : State × List Event} (h : StepR s op r) : r = step p s op := by
  cases h with
  | alloc => rfl
  | releaseErr hc => show _ = release p s _ _; unfold release; rw [hc]
  | release hc hl =>
    show _ = release p s _ _
    unfold release; rw [hc]
    have := loopRunR_unique hp hl (releaseCore_wf hw hc)
    simp only [← this]
  | releasePeerErr hc => show _ = releasePeer p s _; unfold releasePeer; rw [hc]
  | releasePeer hc hl =>
    show _ = releasePeer p s _
    unfold releasePeer; rw [hc]
    have := loopRunR_unique hp hl (releasePeerCore_wf hw hc)
    simp only [← this]

/-- **History-independence.**  Every nondeterministic run (any comparator-minimal element at every
    `Peek`, possibly different at different calls) produces exactly the final state and the event
    list of the functional model `run pick` for any admissible `pick`. -/
theorem runR_unique {p : Pick} (hp : Admissible p) {s : State} (hi : Inv s) {ops : List Op}
    {r : State × List Event} (h : RunR s ops r) : r = run p s ops := by
  induction h with
  | nil => rfl
  | @cons s op ops r1 r2 hs _ ih =>
    have e1 := stepR_unique hp hi.wf hs
    subst e1
    have e2 := ih (step_Inv hp hi op)
    subst e2
    rfl

theorem step_isStepR {p : Pick} (hp : Admissible p) {s : State} (hw : WF s) (op : Op) :
    StepR s op (step p s op) := by
  cases op with
  | alloc q a t => exact .alloc
  | release q a =>
    show StepR s _ (release p s q a)
    unfold release
    cases hc : releaseCore s q a with
    | none => exact .releaseErr hc
    | some r =>
      obtain ⟨s1, ev⟩ := r
      exact .release hc ((processPending_loopRun hp (releaseCore_wf hw hc)).toR hp)
  | releasePeer q =>
    show StepR s _ (releasePeer p s q)
    unfold releasePeer
    cases hc : releasePeerCore s q with
    | none => exact .releasePeerErr hc
    | some r =>
      obtain ⟨s1, evs⟩ := r
      exact .releasePeer hc ((processPending_loopRun hp (releasePeerCore_wf hw hc)).toR hp)

/-- the functional model is one of the nondeterministic runs (so `RunR` is not empty) -/
theorem run_isRunR {p : Pick} (hp : Admissible p) {s : State} (hi : Inv s) (ops : List Op) :
    RunR s ops (run p s ops) := by
  induction ops generalizing s with
  | nil => exact .nil
  | cons op ops ih => exact .cons (step_isStepR hp hi.wf op) (ih (step_Inv hp hi op))

end GS.Alloc
