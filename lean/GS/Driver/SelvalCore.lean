import GS.Model.Validator
import GS.Driver.Proto
/-!
Line-protocol driver for the selector-validator model (components `selval` and `selvale2e`,
property C08); the two executables GS/Driver/Selval.lean and GS/Driver/SelvalE2E.lean only add `main`.

ops (one output line each):
  sel  <max> <selector in prefix form>   -> `v=<verdict> wf=<0|1> enc=<node in prefix form>`
                                            (or `v=- wf=0 enc=-` if a fields clause repeats a key)
  node <max> <node in prefix form>       -> `v=<verdict>`
  alt  <max> <k> <k selector tokens> <node in prefix form>
                                         -> `v=<verdict> parses=<0|1>`  (does ParseSelector read the node as that selector)
  wired <selector in prefix form>        -> `resp=<served|status>` | `not-wf`  (default responder configuration)
  wiredp <selector in prefix form>       -> the same: default responder plus a hook that only pauses, unpaused by the
                                            harness afterwards; pausing validates nothing, so the outcome is `wired`'s

selector prefix form:  m | ms a b | a S | f n (s:key S)* | i idx S | r a b S
                     | R <none|d<int>> <-|!<nat>> S | e | u n S* | t s:adl S
node prefix form:      N | T | F | I<int> | s:<text> | y:<text> | K<nat> | L<n> node* | M<n> (s:key node)*
-/
namespace GS.Driver.Selval
open GS.Proto GS.Sel GS.Validator

def dropChars (n : Nat) (s : String) : String := String.ofList (s.toList.drop n)
def startsWith (p s : String) : Bool := p.toList.isPrefixOf s.toList

def strTok? (t : String) : Option String := if startsWith "s:" t then some (dropChars 2 t) else none

/-- parse one node; fuel bounds the recursion (number of tokens) -/
def parseNode : Nat → Toks → Option (Node × Toks)
  | 0, _ => none
  | _, [] => none
  | fuel + 1, t :: rest =>
    if t == "N" then some (.null, rest)
    else if t == "T" then some (.bool true, rest)
    else if t == "F" then some (.bool false, rest)
    else if startsWith "s:" t then some (.str (dropChars 2 t), rest)
    else if startsWith "y:" t then some (.bytes (dropChars 2 t), rest)
    else if startsWith "I" t then (dropChars 1 t).toInt?.map fun i => (.int i, rest)
    else if startsWith "K" t then (dropChars 1 t).toNat?.map fun c => (.link c, rest)
    else if startsWith "L" t then
      match (dropChars 1 t).toNat? with
      | none => none
      | some n =>
        let rec elems (k : Nat) (ts : Toks) (acc : List Node) : Option (List Node × Toks) :=
          match k with
          | 0 => some (acc.reverse, ts)
          | k + 1 =>
            match parseNode fuel ts with
            | some (x, ts') => elems k ts' (x :: acc)
            | none => none
        (elems n rest []).map fun (xs, ts) => (.list xs, ts)
    else if startsWith "M" t then
      match (dropChars 1 t).toNat? with
      | none => none
      | some n =>
        let rec entries (k : Nat) (ts : Toks) (acc : List (String × Node)) : Option (List (String × Node) × Toks) :=
          match k, ts with
          | 0, ts => some (acc.reverse, ts)
          | k + 1, kt :: ts =>
            match strTok? kt, parseNode fuel ts with
            | some key, some (x, ts') => entries k ts' ((key, x) :: acc)
            | _, _ => none
          | _ + 1, [] => none
        (entries n rest []).map fun (kvs, ts) => (.map kvs, ts)
    else none

def parseLimit (t : String) : Option Limit :=
  if t == "none" then some .none
  else if startsWith "d" t then (dropChars 1 t).toInt?.map .depth
  else none

def parseStop (t : String) : Option (Option Nat) :=
  if t == "-" then some none
  else if startsWith "!" t then (dropChars 1 t).toNat?.map some
  else none

def parseSel : Nat → Toks → Option (Sel × Toks)
  | 0, _ => none
  | _, [] => none
  | fuel + 1, t :: rest =>
    if t == "m" then some (.matcher none, rest)
    else if t == "e" then some (.edge, rest)
    else if t == "ms" then
      match rest with
      | a :: b :: rest' =>
        match a.toInt?, b.toInt? with
        | some a, some b => some (.matcher (some (a, b)), rest')
        | _, _ => none
      | _ => none
    else if t == "a" then (parseSel fuel rest).map fun (s, ts) => (.all s, ts)
    else if t == "i" then
      match rest with
      | i :: rest' =>
        match i.toInt?, parseSel fuel rest' with
        | some i, some (s, ts) => some (.index i s, ts)
        | _, _ => none
      | _ => none
    else if t == "r" then
      match rest with
      | a :: b :: rest' =>
        match a.toInt?, b.toInt?, parseSel fuel rest' with
        | some a, some b, some (s, ts) => some (.range a b s, ts)
        | _, _, _ => none
      | _ => none
    else if t == "R" then
      match rest with
      | l :: st :: rest' =>
        match parseLimit l, parseStop st, parseSel fuel rest' with
        | some l, some st, some (s, ts) => some (.recursive l s st, ts)
        | _, _, _ => none
      | _ => none
    else if t == "t" then
      match rest with
      | adl :: rest' =>
        match strTok? adl, parseSel fuel rest' with
        | some adl, some (s, ts) => some (.interpretAs adl s, ts)
        | _, _ => none
      | _ => none
    else if t == "u" then
      match rest with
      | n :: rest' =>
        match n.toNat? with
        | none => none
        | some n =>
          let rec members (k : Nat) (ts : Toks) (acc : List Sel) : Option (List Sel × Toks) :=
            match k with
            | 0 => some (acc.reverse, ts)
            | k + 1 =>
              match parseSel fuel ts with
              | some (x, ts') => members k ts' (x :: acc)
              | none => none
          (members n rest' []).map fun (ms, ts) => (.union ms, ts)
      | _ => none
    else if t == "f" then
      match rest with
      | n :: rest' =>
        match n.toNat? with
        | none => none
        | some n =>
          let rec flds (k : Nat) (ts : Toks) (acc : List (String × Sel)) : Option (List (String × Sel) × Toks) :=
            match k, ts with
            | 0, ts => some (acc.reverse, ts)
            | k + 1, kt :: ts =>
              match strTok? kt, parseSel fuel ts with
              | some key, some (x, ts') => flds k ts' ((key, x) :: acc)
              | _, _ => none
            | _ + 1, [] => none
          (flds n rest' []).map fun (fs, ts) => (.fields fs, ts)
      | _ => none
    else none

/-- print a node in prefix form -/
partial def showNode : Node → List String
  | .null => ["N"]
  | .bool true => ["T"]
  | .bool false => ["F"]
  | .int i => [s!"I{i}"]
  | .str s => ["s:" ++ s]
  | .bytes s => ["y:" ++ s]
  | .link c => [s!"K{c}"]
  | .list xs => s!"L{xs.length}" :: xs.flatMap showNode
  | .map kvs => s!"M{kvs.length}" :: kvs.flatMap fun (k, v) => ("s:" ++ k) :: showNode v

def showVerdict : Verdict → String
  | .ok => "ok"
  | .invalidLimit => "invalid-limit"
  | .error => "error"
  | .panic => "panic"
  | .unsupported => "unsupported"

def showResp : Option PQAct → String
  | none => "served"
  | some .pause => "paused"
  | some (.finishWithError s) => s

def stepLine (t : Toks) : String :=
  match t with
  | "sel" :: mx :: rest =>
    match mx.toInt?, parseSel (rest.length + 1) rest with
    | some mx, some (s, []) =>
      if !buildable s then "v=- wf=0 enc=-"
      else
        let n := enc s
        s!"v={showVerdict (validate mx n)} wf={if wf s then 1 else 0} enc={joinWith " " (showNode n)}"
    | _, _ => "bad-op"
  | "node" :: mx :: rest =>
    match mx.toInt?, parseNode (rest.length + 1) rest with
    | some mx, some (n, []) => s!"v={showVerdict (validate mx n)}"
    | _, _ => "bad-op"
  | "alt" :: mx :: k :: rest =>
    match mx.toInt?, k.toNat? with
    | some mx, some k =>
      match parseSel (k + 1) (rest.take k), parseNode (rest.length + 1) (rest.drop k) with
      | some (s, []), some (n, []) =>
        s!"v={showVerdict (validate mx n)} parses={if parsesB s n && wfIn false s then 1 else 0}"
      | _, _ => "bad-op"
    | _, _ => "bad-op"
  | "wired" :: rest | "wiredp" :: rest =>
    match parseSel (rest.length + 1) rest with
    | some (s, []) => if !wf s then "not-wf" else s!"resp={showResp (defaultResponse (enc s))}"
    | _ => "bad-op"
  | _ => "bad-op"

def handler (ops : List Toks) : List String := ops.map stepLine

end GS.Driver.Selval
