import GS.Driver.WireCore
/-! model driver of component `netstream` (handleNewStream over mocknet; same handler as `wire`) -/
def main : IO Unit := GS.Proto.runModel GS.Driver.WireCore.handler
