import GS.Model.PanicsRes
/-!
Helper lemmas for C22 (resource layer), part 2: slot accounting.  If the clean-up path of every
error class calls TaskDone exactly once (`SlotsOK`, a `decide` over the generated path), then in every
reachable state the number of busy workers and every peer's work in progress are exactly the tasks
that are really being executed (`Inv`), for every schedule - in particular nothing stays occupied
once the requests are done.
-/
namespace GS.Panics.Res
open GS.Generated.PanicSites GS.Generated.PanicCleanup GS.Panics

/-- every error class's clean-up gives the task slot back exactly once -/
def SlotsOK (cfg : Cfg) : Prop := ∀ c : ErrClass, (cleanupActs cfg.levels c).countP isSlotRelease = 1

def todoOK (r : RReq) : Prop :=
  match r.phase with
  | .cleaning todo => todo.countP isSlotRelease ≤ 1
  | _ => True

/-- holds a slot and belongs to a peer selected by `g` -/
def hp (g : Nat → Bool) (r : RReq) : Bool := holds r && g r.peer

structure Inv (s : RSys) : Prop where
  busy : s.busy = s.reqs.countP holds
  active : ∀ p : Nat, s.active.count p = s.reqs.countP (hp (fun q => q == p))
  todo : ∀ (j : Nat) (r : RReq), s.reqs[j]? = some r → todoOK r

theorem countP_set' {p : RReq → Bool} {l : List RReq} {i : Nat} {r r' : RReq} (h : l[i]? = some r) :
    (l.set i r').countP p + (if p r = true then 1 else 0) = l.countP p + (if p r' = true then 1 else 0) := by
  obtain ⟨hlt, hget⟩ := List.getElem?_eq_some_iff.mp h
  rw [List.countP_set hlt, hget]
  by_cases hpr : p r = true
  · have hpos : 0 < l.countP p := List.countP_pos_iff.mpr ⟨r, List.mem_iff_getElem?.mpr ⟨i, h⟩, hpr⟩
    simp only [hpr, if_true]; omega
  · simp [hpr]

/-- how one step changes the slot bookkeeping -/
inductive Change (s s' : RSys) (i : Nat) (r : RReq) : Prop
  | same : s'.reqs = s.reqs → s'.busy = s.busy → s'.active = s.active → Change s s' i r
  | keep (r' : RReq) : s'.reqs = s.reqs.set i r' → r'.peer = r.peer → holds r' = holds r → todoOK r' →
      s'.busy = s.busy → s'.active = s.active → Change s s' i r
  | take (r' : RReq) : s'.reqs = s.reqs.set i r' → r'.peer = r.peer → holds r = false → holds r' = true →
      todoOK r' → s'.busy = s.busy + 1 → s'.active = r.peer :: s.active → Change s s' i r
  | give (r' : RReq) : s'.reqs = s.reqs.set i r' → r'.peer = r.peer → holds r = true → holds r' = false →
      todoOK r' → s'.busy = s.busy - 1 → s'.active = s.active.erase r.peer → Change s s' i r

theorem stepRunning_change {cfg : Cfg} (ok : SlotsOK cfg) (r : RReq) (hph : r.phase = .running) :
    (stepRunning cfg r).1.peer = r.peer ∧ holds (stepRunning cfg r).1 = true ∧ todoOK (stepRunning cfg r).1 := by
  rcases r with ⟨peer, script, phase, out, cls, delivered, lock, released⟩
  simp only at hph
  subst hph
  cases script with
  | nil => simp [stepRunning, failWith, holds, todoOK, ok .none]
  | cons c rest =>
    rcases c with ⟨sd, kd, res⟩
    cases res with
    | ok => simp [stepRunning, holds, todoOK]
    | err => simp [stepRunning, failWith, holds, todoOK, ok .ordinary]
    | panic =>
      by_cases hf : cfg.fr sd kd = true
      · simp [stepRunning, failWith, holds, todoOK, hf, ok .panicked]
      · simp [stepRunning, holds, todoOK, hf]

theorem step_change {cfg : Cfg} (ok : SlotsOK cfg) (s : RSys) (i : Nat) (r : RReq)
    (hri : s.reqs[i]? = some r) (htodo : todoOK r) : Change s (step cfg s i) i r := by
  unfold step
  by_cases hc : s.crashed = true
  · simp only [hc, if_true]; exact .same rfl rfl rfl
  · simp only [hc, Bool.false_eq_true, if_false, hri]
    cases hph : r.phase with
    | queued =>
      by_cases hp : canPop cfg s r = true
      · simp only [hp, if_true]
        exact .take { r with phase := .running } rfl rfl (by simp [holds, hph]) (by simp [holds])
          (by simp [todoOK]) rfl rfl
      · simp only [hp, Bool.false_eq_true, if_false]; exact .same rfl rfl rfl
    | running =>
      obtain ⟨h1, h2, h3⟩ := stepRunning_change ok r hph
      have hr : holds r = true := by simp [holds, hph]
      rcases hst : stepRunning cfg r with ⟨r', e⟩
      rw [hst] at h1 h2 h3
      cases e with
      | crash => exact .same rfl rfl rfl
      | none => exact .keep r' rfl h1 (by rw [h2, hr]) h3 rfl rfl
      | cb sd k => exact .keep r' rfl h1 (by rw [h2, hr]) h3 rfl rfl
    | cleaning todo =>
      cases todo with
      | nil =>
        exact .keep { r with phase := .done } rfl rfl (by simp [holds, hph]) (by simp [todoOK]) rfl rfl
      | cons a rest =>
        by_cases hl : r.lock = true
        · simp only [hl, if_true]; exact .same rfl rfl rfl
        · simp only [hl, Bool.false_eq_true, if_false]
          have hcnt : (a :: rest).countP isSlotRelease ≤ 1 := by simpa [todoOK, hph] using htodo
          rw [List.countP_cons] at hcnt
          by_cases ha : isSlotRelease a = true
          · -- TaskDone happens now
            have hrest : rest.countP isSlotRelease = 0 := by simp only [ha, if_true] at hcnt; omega
            have hholds : holds r = true := by simp [holds, hph, ha]
            cases a <;> simp [isSlotRelease] at ha
            · exact .give { r with phase := .cleaning rest, released := r.released + 1 } (by simp [applyAct]) rfl hholds
                (by simp [holds, hrest]) (by simp [todoOK, hrest]) (by simp [applyAct]) (by simp [applyAct])
            · exact .give { r with phase := .cleaning rest, released := r.released + 1 } (by simp [applyAct]) rfl hholds
                (by simp [holds, hrest]) (by simp [todoOK, hrest]) (by simp [applyAct]) (by simp [applyAct])
          · have hrest : rest.countP isSlotRelease ≤ 1 := by simp only [ha] at hcnt; simpa using hcnt
            have hh : holds { (applyAct s i r a).2 with phase := .cleaning rest } = holds r := by
              simp [holds, hph, ha]
            cases a <;> simp [isSlotRelease] at ha <;>
              exact .keep _ (by simp [applyAct]) (by simp [applyAct]) hh (by simp [todoOK, hrest])
                (by simp [applyAct]) (by simp [applyAct])
    | done => exact .same rfl rfl rfl

theorem step_inv {cfg : Cfg} (ok : SlotsOK cfg) {s : RSys} (h : Inv s) (i : Nat) : Inv (step cfg s i) := by
  cases hri : s.reqs[i]? with
  | none =>
    have : step cfg s i = s := by
      unfold step
      by_cases hc : s.crashed = true <;> simp [hc, hri]
    rw [this]; exact h
  | some r =>
    have htodoSet : ∀ (s' : RSys) (r' : RReq), s'.reqs = s.reqs.set i r' → todoOK r' →
        ∀ (j : Nat) (q : RReq), s'.reqs[j]? = some q → todoOK q := by
      intro s' r' hs' hr' j q hq
      rw [hs', List.getElem?_set] at hq
      by_cases hij : i = j
      · subst hij
        by_cases hlt : i < s.reqs.length
        · simp [hlt] at hq; rw [← hq]; exact hr'
        · simp [hlt] at hq
      · simp [hij] at hq; exact h.todo j q hq
    have hpeer : ∀ (g : Nat → Bool) (r' : RReq), r'.peer = r.peer → hp g r' = (holds r' && g r.peer) := by
      intro g r' hp'; simp [hp, hp']
    cases step_change ok s i r hri (h.todo i r hri) with
    | same h1 h2 h3 =>
      exact ⟨by rw [h1, h2]; exact h.busy, by intro p; rw [h1, h3]; exact h.active p,
             by rw [h1]; exact h.todo⟩
    | keep r' h1 h2 h3 h4 h5 h6 =>
      refine ⟨?_, ?_, htodoSet _ r' h1 h4⟩
      · have := countP_set' (p := holds) (r' := r') hri
        rw [h1, h5, h.busy]; simp only [h3] at this; omega
      · intro p
        have := countP_set' (p := hp (fun q => q == p)) (r' := r') hri
        rw [hpeer _ r' h2, hpeer _ r rfl, h3] at this
        rw [h1, h6, h.active p]; omega
    | take r' h1 h2 h3 h3' h4 h5 h6 =>
      refine ⟨?_, ?_, htodoSet _ r' h1 h4⟩
      · have := countP_set' (p := holds) (r' := r') hri
        rw [h1, h5, h.busy]; simp [h3, h3'] at this; omega
      · intro p
        have := countP_set' (p := hp (fun q => q == p)) (r' := r') hri
        rw [hpeer _ r' h2, hpeer _ r rfl, h3, h3'] at this
        rw [h1, h6, List.count_cons, h.active p]
        by_cases hpp : (r.peer == p) = true <;> simp [hpp] at this ⊢ <;> omega
    | give r' h1 h2 h3 h3' h4 h5 h6 =>
      have hmem : r ∈ s.reqs := List.mem_iff_getElem?.mpr ⟨i, hri⟩
      refine ⟨?_, ?_, htodoSet _ r' h1 h4⟩
      · have := countP_set' (p := holds) (r' := r') hri
        have hpos : 0 < s.reqs.countP holds := List.countP_pos_iff.mpr ⟨r, hmem, h3⟩
        rw [h1, h5, h.busy]; simp [h3, h3'] at this; omega
      · intro p
        have := countP_set' (p := hp (fun q => q == p)) (r' := r') hri
        rw [hpeer _ r' h2, hpeer _ r rfl, h3, h3'] at this
        rw [h1, h6, List.count_erase, h.active p]
        by_cases hpp : (r.peer == p) = true
        · have hpos : 0 < s.reqs.countP (hp (fun q => q == p)) :=
            List.countP_pos_iff.mpr ⟨r, hmem, by simp [hp, h3, hpp]⟩
          simp [hpp] at this ⊢; omega
        · simp [hpp] at this ⊢; omega

theorem init_inv (reqs : List RReq) (hq : ∀ r ∈ reqs, r.phase = .queued) : Inv (init reqs) := by
  have hz : ∀ (p : RReq → Bool), (∀ r ∈ reqs, p r = false) → reqs.countP p = 0 := by
    intro p hp'; rw [List.countP_eq_zero]; intro a ha; simp [hp' a ha]
  refine ⟨?_, ?_, ?_⟩
  · simp only [init]
    rw [hz]; intro r hr; simp [holds, hq r hr]
  · intro p
    simp only [init]
    rw [hz]; simp
    intro r hr; simp [hp, holds, hq r hr]
  · intro j r hr
    have := hq r (List.mem_iff_getElem?.mpr ⟨j, by simpa [init] using hr⟩)
    simp [todoOK, this]

theorem run_inv {cfg : Cfg} (ok : SlotsOK cfg) (sched : List Nat) :
    ∀ {s : RSys}, Inv s → Inv (run cfg s sched) := by
  induction sched with
  | nil => intro s h; exact h
  | cons i rest ih => intro s h; simpa [run] using ih (s := step cfg s i) (step_inv ok h i)

/-- when no request is being executed, nothing is occupied -/
theorem idle_free {s : RSys} (h : Inv s) (hidle : ∀ r ∈ s.reqs, r.phase = .queued ∨ r.phase = .done) :
    s.busy = 0 ∧ ∀ p, s.active.count p = 0 := by
  have hno : ∀ r ∈ s.reqs, holds r = false := by
    intro r hr; rcases hidle r hr with h' | h' <;> simp [holds, h']
  refine ⟨?_, ?_⟩
  · rw [h.busy, List.countP_eq_zero]; intro a ha; simp [hno a ha]
  · intro p; rw [h.active p, List.countP_eq_zero]; intro a ha; simp [hp, hno a ha]

end GS.Panics.Res
