import GS.Model.PeerManager
import GS.Driver.Proto
/-! line-protocol driver for the peer-manager model (component `peermgr`, property C17).

ops:  conn <p> | disc <p> | shutret | get <p> | self <q> | exit <q>
`disc` runs the locked part of Disconnected; if it removed the entry, the call of Shutdown() is
outstanding until `shutret`.  One output line per op:
  ret=<id|-> new=<ids created> shut=<ids whose Shutdown() was called> blocked=<n> peers=<ConnectedPeers> live=<p:count,…>
-/
namespace GS.Driver.PeerMgr
open GS.Proto GS.PM

structure D where
  s : State := {}
  seen : List Nat := []

def see (d : D) (p : Nat) : D := if d.seen.contains p then d else { d with seen := sortNat (p :: d.seen) }

def render (old : State) (d : D) (ret : String) : String :=
  let s := d.s
  let created := (s.queues.drop old.queues.length).map (·.id)
  let shut := (s.queues.filter fun q => q.shutdown && !q.exited &&
      !(old.queues.any fun o => o.id == q.id && (o.shutdown || o.exited))).map (·.id)
  let blocked := (s.queues.filter (·.pending)).length
  let peers := sortNat (s.table.map (·.peer))
  let lv := joinWith "," (d.seen.map fun p => s!"{p}:{(live s p).length}")
  s!"ret={ret} new={natList created} shut={natList (sortNat shut)} blocked={blocked} peers={natList peers} live={lv}"

def stepLine (d : D) (t : Toks) : D × String :=
  let old := d.s
  match t with
  | ["conn", p] =>
    match p.toNat? with
    | some p => let d := see { d with s := connected d.s p } p; (d, render old d "-")
    | none => (d, "bad-op")
  | ["disc", p] =>
    match p.toNat? with
    | some p => let d := see { d with s := disconnected d.s p } p; (d, render old d "-")
    | none => (d, "bad-op")
  | ["shutret"] =>
    match d.s.queues.find? (·.pending) with
    | some q => let d := { d with s := shutdownCall d.s q.id }; (d, render old d "-")
    | none => (d, render old d "-")
  | ["get", p] =>
    match p.toNat? with
    | some p =>
      let (s, id) := getProcess d.s p
      let d := see { d with s := s } p
      (d, render old d (toString id))
    | none => (d, "bad-op")
  | ["self", q] =>
    match q.toNat? with
    | some q => let d := { d with s := selfShutdown d.s q }; (d, render old d "-")
    | none => (d, "bad-op")
  | ["exit", q] =>
    match q.toNat? with
    | some q => let d := { d with s := queueExit d.s q }; (d, render old d "-")
    | none => (d, "bad-op")
  | _ => (d, "bad-op")

def handler (ops : List Toks) : List String :=
  let (_, outs) := ops.foldl (fun (acc : D × List String) t =>
    let (d', o) := stepLine acc.1 t
    (d', o :: acc.2)) ({}, [])
  outs.reverse

end GS.Driver.PeerMgr

def main : IO Unit := GS.Proto.runModel GS.Driver.PeerMgr.handler
