import GS.Model.Loader
import GSProofs.Lemmas.LoaderInv
import GSProofs.Lemmas.RequestorSteps
/-!
# C01 — Requestor only delivers and stores verified, selector-reachable data

Property: *every node a requestor hands to its caller, and every block it writes to its local
store, is genuine content of the DAG named by the request's root and is reachable from that root by
the requested selector, whatever the responding peer sends.*

Part 1 (this section): the reconciled loader, for **all** operation sequences — any interleaving of
`IngestResponse` calls with arbitrary metadata / block maps (the adversary), `SetRemoteOnline`,
`Cleanup`, loads and retries.  The only assumption on the adversary's data is `OpWK`: block maps
are keyed by the hash recomputed from the bytes (guaranteed by the wire decoder, C12; the
counterexample `store_needs_wellKeyed` shows that the loader itself does not check it).
Content `b : Blk` *is* the content whose hash is CID `b`, so "the written / delivered content is
genuine content of link `c`" reads `b = c`.
-/
namespace GS.C01
open GS.Loader

/-- block maps of `ingest` operations are keyed by the true hash (C12) -/
def OpWK : Op → Prop
  | .ingest _ bl => WellKeyed bl
  | _ => True

/-- the link the local traversal is asking for when `o` is executed in state `s`: the argument of
    a load, the link of the retried attempt, or — for the other operations, which can only let a
    parked load finish — the link of the parked load -/
def requested (s : State) : Op → Option Cid
  | .load c _ => some c
  | .retry => s.mra.map (·.link)
  | _ => s.pending.map (·.2)

/-- the load result an operation produced, if any -/
def result : OpOut → Option Result
  | .ok w => w
  | .res (.done r) => some r
  | _ => none

/-- soundness of one step `s --o--> s'` with output `out` -/
structure StepSound (s : State) (o : Op) (s' : State) (out : OpOut) : Prop where
  /-- a store write happens only inside a load, for the requested link `c`, with the content of
      `c`; it is the only change of the store and the load reports success -/
  write : ∀ r c b, result out = some r → r.write = some (c, b) →
    b = c ∧ requested s o = some c ∧ s'.store = (c, b) :: s.store ∧ r.err = none ∧ r.data = some b
  /-- a load that reports no write leaves the store alone -/
  nowrite : ∀ r, result out = some r → r.write = none → s'.store = s.store
  /-- delivered data is the content of the requested link, taken from the local store (`Local`) or
      written to it in this very step -/
  data : ∀ r b, result out = some r → r.data = some b →
    requested s o = some b ∧ r.err = none ∧
    (r.loc = true → storeGet s.store b = some b) ∧ (r.loc = false → r.write = some (b, b))
  /-- outside loads the store changes only by the test set-up operation `put` -/
  quiet : result out = none → s'.store = s.store ∨ ∃ c, o = .put c ∧ s'.store = (c, c) :: s.store

theorem shape_sound {s s' : State} {o : Op} {out : OpOut} {c : Cid} {r : Result}
    (h : ∀ c b, (c, b) ∈ s.store → b = c) (hreq : requested s o = some c) (hres : result out = some r)
    (hsh : RunShape s.store c s'.store r) : StepSound s o s' out := by
  cases hsh with
  | noWrite hw hs hd =>
    constructor
    · intro r' c' b' hr' hw'
      rw [hres] at hr'; cases hr'; rw [hw] at hw'; cases hw'
    · intro _ _ _; exact hs
    · intro r' b hr' hb
      rw [hres] at hr'; cases hr'
      obtain ⟨hl, he, hg⟩ := hd b hb
      have hbc : b = c := h c b (storeGet_mem hg)
      subst hbc
      exact ⟨hreq, he, fun _ => hg, fun hf => (by rw [hl] at hf; cases hf)⟩
    · intro hn; rw [hres] at hn; cases hn
  | remote b hw hb hs hd he hl =>
    subst hb
    constructor
    · intro r' c' b' hr' hw'
      rw [hres] at hr'; cases hr'; rw [hw] at hw'; cases hw'
      exact ⟨rfl, hreq, hs, he, hd⟩
    · intro r' hr' hw'
      rw [hres] at hr'; cases hr'; rw [hw] at hw'; cases hw'
    · intro r' b' hr' hb'
      rw [hres] at hr'; cases hr'; rw [hd] at hb'; cases hb'
      exact ⟨hreq, he, (fun hf => by rw [hl] at hf; cases hf), fun _ => hw⟩
    · intro hn; rw [hres] at hn; cases hn

theorem quiet_sound {s s' : State} {o : Op} {out : OpOut} (hres : result out = none)
    (hs : s'.store = s.store) : StepSound s o s' out :=
  ⟨(fun r _ _ hr => by rw [hres] at hr; cases hr), (fun r hr => by rw [hres] at hr; cases hr),
   (fun r _ hr => by rw [hres] at hr; cases hr), fun _ => Or.inl hs⟩

/-- non-load operations: the state change keeps the invariant and the store; afterwards a parked
    load may finish -/
theorem wake_sound {s s1 : State} {o : Op} (h1 : Inv s1) (hst : s1.store = s.store)
    (hpend : s1.pending = s.pending) (ho : requested s o = s.pending.map (·.2)) :
    Inv (wake s1).1 ∧ StepSound s o (wake s1).1 (.ok (wake s1).2) := by
  have hw := wake_spec s1 h1
  refine ⟨hw.1, ?_⟩
  generalize wake s1 = w at hw
  obtain ⟨s2, res⟩ := w
  cases res with
  | none => exact quiet_sound rfl (by rw [← hst]; exact hw.2)
  | some r =>
    obtain ⟨p, c, hp, hsh⟩ := hw.2
    refine shape_sound (c := c) (r := r) ?_ ?_ rfl ?_
    · intro c' b' hm; exact h1.store c' b' (by rw [hst]; exact hm)
    · rw [ho, ← hpend, hp]; rfl
    · rw [← hst]; exact hsh

theorem step_sound (s : State) (o : Op) (h : Inv s) (hwk : OpWK o) :
    Inv (step s o).1 ∧ StepSound s o (step s o).1 (step s o).2 := by
  cases o with
  | put c =>
    refine ⟨⟨h.items, h.last, ?_⟩, ?_⟩
    · intro c' b' hm
      simp only [step, List.mem_cons, Prod.mk.injEq] at hm
      rcases hm with ⟨rfl, rfl⟩ | hm
      · rfl
      · exact h.store c' b' hm
    · exact ⟨(fun r _ _ hr => by simp [step, result] at hr), (fun r hr => by simp [step, result] at hr),
        (fun r _ hr => by simp [step, result] at hr), fun _ => Or.inr ⟨c, rfl, rfl⟩⟩
  | online b =>
    have := wake_sound (s := s) (o := .online b) (h.setOnline b)
      (by unfold Loader.setOnline; dsimp only; split <;> rfl)
      (by unfold Loader.setOnline; dsimp only; split <;> rfl) rfl
    simpa [step] using this
  | ingest md bl =>
    have := wake_sound (s := s) (o := .ingest md bl) (h.ingest md bl hwk)
      (by unfold Loader.ingest; split <;> (try split) <;> rfl)
      (by unfold Loader.ingest; split <;> (try split) <;> rfl) rfl
    simpa [step] using this
  | cleanup =>
    have := wake_sound (s := s) (o := .cleanup) h.cleanup rfl rfl rfl
    simpa [step] using this
  | load c p =>
    simp only [step]
    split
    · exact ⟨h, quiet_sound rfl rfl⟩
    · have hl := load_spec s p c h
      refine ⟨hl.1, ?_⟩
      generalize load s p c = rr at hl
      obtain ⟨s', out⟩ := rr
      cases out with
      | blocked => exact quiet_sound rfl hl.2
      | done r => exact shape_sound h.store rfl rfl hl.2
  | retry =>
    simp only [step]
    split
    · exact ⟨h, quiet_sound rfl rfl⟩
    · have hl := retry_spec s h
      refine ⟨hl.1, ?_⟩
      generalize Loader.retry s = rr at hl
      obtain ⟨s', out⟩ := rr
      cases out with
      | blocked => exact quiet_sound rfl hl.2
      | done r =>
        rcases hl.2 with ⟨_, hw, hd, hs⟩ | ⟨a, ha, hsh⟩
        · exact ⟨(fun r' c b hr hw' => by simp [result] at hr; subst hr; rw [hw] at hw'; cases hw'),
            (fun _ _ _ => hs),
            (fun r' b hr hb => by simp [result] at hr; subst hr; rw [hd] at hb; cases hb),
            (fun hn => by simp [result] at hn)⟩
        · exact shape_sound h.store (by simp [requested, ha]) rfl hsh


/-- the steps of a run: (state before, operation, state after, output) -/
def trace (s : State) : List Op → List (State × Op × State × OpOut)
  | [] => []
  | o :: rest => (s, o, (step s o).1, (step s o).2) :: trace (step s o).1 rest

/-- `trace` is the run of the executable model (`runOps` is what the correspondence check runs) -/
theorem trace_runOps (s : State) (ops : List Op) :
    (runOps s ops).2 = (trace s ops).map (fun t => t.2.2.2) := by
  induction ops generalizing s with
  | nil => rfl
  | cons o rest ih => simp [runOps, trace, ih]

theorem trace_sound (ops : List Op) (hwk : ∀ o ∈ ops, OpWK o) (s : State) (h : Inv s) :
    ∀ t ∈ trace s ops, StepSound t.1 t.2.1 t.2.2.1 t.2.2.2 := by
  induction ops generalizing s with
  | nil => intro t ht; simp [trace] at ht
  | cons o rest ih =>
    intro t ht
    have hs := step_sound s o h (hwk o (List.mem_cons_self ..))
    simp only [trace, List.mem_cons] at ht
    rcases ht with rfl | ht
    · exact hs.2
    · exact ih (fun o' ho' => hwk o' (List.mem_cons_of_mem _ ho')) _ hs.1 t ht

/-- **C01.store_sound (loader).**  For every sequence of operations on a fresh loader whose local
    store is honest — any interleaving of loads, retries, online/offline switches, clean-ups and
    `IngestResponse` calls with arbitrary (wrong, reordered, extra, duplicated, foreign) metadata and
    blocks keyed by their hash — every block written to the store is written during a load, under
    the link `c` that load asks for, and is the content of `c`; nothing else changes the store. -/
theorem store_sound (ops : List Op) (hwk : ∀ o ∈ ops, OpWK o) :
    ∀ t ∈ trace {} ops, ∀ r c b, result t.2.2.2 = some r → r.write = some (c, b) →
      b = c ∧ requested t.1 t.2.1 = some c ∧ t.2.2.1.store = (c, b) :: t.1.store := by
  intro t ht r c b hr hw
  have := (trace_sound ops hwk {} Inv.init t ht).write r c b hr hw
  exact ⟨this.1, this.2.1, this.2.2.1⟩

/-- **C01.deliver_sound (loader).**  Every block a load hands to the traversal is the content of the
    link the traversal asked for; it was read from the (honest) local store or has just been
    written there by the same load (and then satisfies `store_sound`). -/
theorem deliver_sound (ops : List Op) (hwk : ∀ o ∈ ops, OpWK o) :
    ∀ t ∈ trace {} ops, ∀ r b, result t.2.2.2 = some r → r.data = some b →
      requested t.1 t.2.1 = some b ∧
      ((r.loc = true ∧ storeGet t.1.store b = some b) ∨ (r.loc = false ∧ r.write = some (b, b))) := by
  intro t ht r b hr hd
  have := (trace_sound ops hwk {} Inv.init t ht).data r b hr hd
  refine ⟨this.1, ?_⟩
  cases hl : r.loc with
  | true => exact Or.inl ⟨rfl, this.2.2.1 hl⟩
  | false => exact Or.inr ⟨rfl, this.2.2.2 hl⟩

/-- **C01.mismatch_stops, part (a).**  In every run, a load that ends with an error — in particular
    `RemoteIncorrectResponseError` — has written nothing and leaves the store as it was. -/
theorem error_writes_nothing (ops : List Op) (hwk : ∀ o ∈ ops, OpWK o) :
    ∀ t ∈ trace {} ops, ∀ r e, result t.2.2.2 = some r → r.err = some e →
      r.write = none ∧ t.2.2.1.store = t.1.store := by
  intro t ht r e hr he
  have hs := trace_sound ops hwk {} Inv.init t ht
  cases hw : r.write with
  | none => exact ⟨rfl, hs.nowrite r hr hw⟩
  | some cb =>
    obtain ⟨c, b⟩ := cb
    have := (hs.write r c b hr hw).2.2.2.1
    rw [he] at this; cases this

/-- **C01.mismatch_stops, part (b).**  When the replay of earlier loads is finished, the traversal
    is not below a link the remote did not follow, and the head of the remote queue names a link
    different from the requested one, the load answers `RemoteIncorrectResponseError` (local link,
    remote link, path), delivers nothing and writes nothing. -/
theorem mismatch_stops (s : State) (p : Path) (c : Cid) (head : Item) (tl : List Item)
    (hq : s.rq.q = head :: tl) (hv : s.verifierDone = true)
    (hst : (stillOnUnfollowed { s with ver := none } p).2 = false) (hne : head.link ≠ c) :
    (run s p c).2 = .done { data := none, err := some (.incorrect c head.link p), loc := false } ∧
    (run s p c).1.store = s.store := by
  have hw : waitRemote (s.rq.q.length + 1) s = ({ s with ver := none }, .remote) := by
    simp [waitRemote, hq, hv]
  have hsu := stillOnUnfollowed_spec { s with ver := none } p
  unfold run
  dsimp only
  rw [hw]
  dsimp only
  generalize stillOnUnfollowed { s with ver := none } p = su at hst hsu
  obtain ⟨s2, still⟩ := su
  simp only at hst hsu
  subst hst
  have hq2 : s2.rq.q = head :: tl := by rw [hsu.2]; exact hq
  simp [hq2, hne, hsu.1]

/-- non-vacuity: a run with a remote load that writes a block (hypotheses of `store_sound` /
    `deliver_sound` are met by a non-trivial run) -/
example :
    let ops := [Op.online true, .ingest [(1, .present), (2, .missing)] [(1, 1)], .load 1 [], .load 2 [0]]
    (∀ o ∈ ops, OpWK o) ∧
    (runOps {} ops).2.map result =
      [none, none, some { data := some 1, err := none, loc := false, write := some (1, 1) },
       some { data := none, err := some (.missing 2 [0]), loc := true }] := by
  refine ⟨?_, by decide⟩
  intro o ho
  simp only [List.mem_cons, List.mem_nil_iff, or_false] at ho
  rcases ho with rfl | rfl | rfl | rfl <;> simp [OpWK, WellKeyed]

/-- non-vacuity of `mismatch_stops`, and a test that the error carries the right links -/
example :
    (runOps {} [Op.online true, .ingest [(5, .present)] [(5, 5)], .load 1 []]).2.map result =
      [none, none, some { data := none, err := some (.incorrect 1 5 []), loc := false }] := by decide

/-- **The well-keyed hypothesis is necessary**: the loader stores whatever bytes the block map holds
    under the requested link; binding block bytes to their CID is the wire decoder's job (C12). -/
theorem store_needs_wellKeyed :
    ∃ ops : List Op, ∃ t ∈ trace {} ops, ∃ r, result t.2.2.2 = some r ∧ r.write = some (1, 7) :=
  ⟨[Op.online true, .ingest [(1, .present)] [(1, 7)], .load 1 []], by decide⟩


/-!
## Part 2: the requestor (executor + response routing) over an arbitrary link tree

`Requestor.exchange st lt u msgs` is one whole request: a fresh requestor with local store `st`
traverses the link tree `lt` (any list of nodes with depths — realisable or not), and receives the
messages `msgs` — **any** list: any metadata, statuses, block sets (keyed by hash), from the right
or a wrong peer, for this or another request id.  The executor runs whenever it can (by
`C02.kahn` the interleaving of ingest and load steps does not matter).
-/
open GS.Requestor

/-- depth-first walk of a pre-order link tree with one availability answer per visited link:
    `true` = the link is loaded and the walk descends, `false` = its subtree is skipped; the walk
    stops when the answers run out (a prefix).  Returns the loaded nodes and the remaining cursor. -/
def dfs : LT → List Bool → List LNode × LT
  | t, [] => ([], t)
  | [], _ :: _ => ([], [])
  | n :: rest, true :: as => ((n :: (dfs rest as).1), (dfs rest as).2)
  | n :: rest, false :: as => dfs (rest.dropWhile (fun m => m.depth > n.depth)) as
termination_by _ as => as.length

/-- the loads answered with data, as (link, path), in order -/
def blocksOf : List Ev → List (Cid × Path)
  | [] => []
  | .block c p _ _ :: rest => (c, p) :: blocksOf rest
  | _ :: rest => blocksOf rest

theorem blocksOf_append (a b : List Ev) : blocksOf (a ++ b) = blocksOf a ++ blocksOf b := by
  induction a with
  | nil => rfl
  | cons e rest ih => cases e <;> simp [blocksOf, ih]

theorem steps_dfs {t t' : LT} {evs : List Ev} (h : Steps t evs t') :
    ∃ answers, (dfs t answers).2 = t' ∧
      blocksOf evs = (dfs t answers).1.map (fun n => (n.cid, n.path)) := by
  induction h with
  | done t => exact ⟨[], by simp [dfs], by simp [dfs, blocksOf]⟩
  | ctl ev hc _ ih =>
    obtain ⟨as, h1, h2⟩ := ih
    refine ⟨as, h1, ?_⟩
    cases ev <;> simp_all [blocksOf, Ev.isCtl]
  | data n w l i _ ih =>
    obtain ⟨as, h1, h2⟩ := ih
    refine ⟨true :: as, by simp [dfs, h1], ?_⟩
    cases w <;> simp [blocksOf, dfs, h2]
  | skip n _ ih =>
    obtain ⟨as, h1, h2⟩ := ih
    exact ⟨false :: as, by simp [dfs, h1], by simp [blocksOf, dfs, h2]⟩

theorem steps_writes {t t' : LT} {evs : List Ev} (h : Steps t evs t') :
    ∀ c b, Ev.write c b ∈ evs →
      b = c ∧ ∃ pre post p l i, evs = pre ++ Ev.write c b :: Ev.block c p l i :: post ∧
        ∃ n ∈ t, n.cid = c ∧ n.path = p := by
  induction h with
  | done t => intro c b hm; simp at hm
  | ctl ev hc _ ih =>
    intro c b hm
    simp only [List.mem_cons] at hm
    rcases hm with rfl | hm
    · simp [Ev.isCtl] at hc
    · obtain ⟨hb, pre, post, p, l, i, he, hn⟩ := ih c b hm
      exact ⟨hb, ev :: pre, post, p, l, i, by simp [he], hn⟩
  | @data rest t' evs n w l i _ ih =>
    intro c b hm
    cases w with
    | true =>
      simp only [if_true, List.cons_append, List.nil_append, List.mem_cons] at hm
      rcases hm with hm | hm | hm | hm
      · cases hm
        exact ⟨rfl, [], Ev.prog n.vData :: evs, n.path, l, i, by simp, n, List.mem_cons_self .., rfl, rfl⟩
      · cases hm
      · cases hm
      · obtain ⟨hb, pre, post, p, l', i', he, m, hmem, hmc⟩ := ih c b hm
        exact ⟨hb, Ev.write n.cid n.cid :: Ev.block n.cid n.path l i :: Ev.prog n.vData :: pre, post, p, l', i',
          by simp [he], m, List.mem_cons_of_mem _ hmem, hmc⟩
    | false =>
      simp only [Bool.false_eq_true, if_false, List.nil_append, List.mem_cons] at hm
      rcases hm with hm | hm | hm
      · cases hm
      · cases hm
      · obtain ⟨hb, pre, post, p, l', i', he, m, hmem, hmc⟩ := ih c b hm
        exact ⟨hb, Ev.block n.cid n.path l i :: Ev.prog n.vData :: pre, post, p, l', i',
          by simp [he], m, List.mem_cons_of_mem _ hmem, hmc⟩
  | @skip rest t' evs n _ ih =>
    intro c b hm
    simp only [List.mem_cons] at hm
    rcases hm with hm | hm | hm
    · cases hm
    · cases hm
    · obtain ⟨hb, pre, post, p, l', i', he, m, hmem, hmc⟩ := ih c b hm
      refine ⟨hb, Ev.err (.load (.missing n.cid n.path)) :: Ev.prog n.vSkip :: pre, post, p, l', i',
        by simp [he], m, ?_, hmc⟩
      exact List.mem_cons_of_mem _ (List.Sublist.mem hmem (List.dropWhile_sublist _))

/-- **C01 (requestor): the event stream is a depth-first walk.**  For every link tree, honest local
    store, user skip value and every list of hash-keyed messages, what the requestor does — blocks
    written, loads answered with data (block hook), nodes handed to the caller, missing-block
    errors — is a walk of the link tree: deliver the node under the cursor (optionally after writing
    that node's block with that node's content), or skip its subtree with a missing-block error
    naming it, or a control event. -/
theorem exchange_walk (st : List (Cid × Blk)) (hst : HonestStore st) (lt : LT) (u : Nat)
    (msgs : List Msg) (hwk : ∀ m ∈ msgs, m.wk) :
    Steps lt (exchange st lt u msgs).2 (exchange st lt u msgs).1.todo :=
  exchange_steps st hst lt u msgs hwk

/-- **C01.store_sound (requestor).**  Every block the requestor writes is the content of the link it
    is written under (`b = c`), and that link is the link the traversal is requesting at that
    moment: the write is immediately followed by the delivery (block hook) of that very link at its
    path, a node of the link tree (reached by the walk of `deliver_sound`, i.e. below delivered
    nodes only). -/
theorem req_store_sound (st : List (Cid × Blk)) (hst : HonestStore st) (lt : LT) (u : Nat)
    (msgs : List Msg) (hwk : ∀ m ∈ msgs, m.wk) :
    ∀ c b, Ev.write c b ∈ (exchange st lt u msgs).2 →
      b = c ∧ ∃ pre post p l i,
        (exchange st lt u msgs).2 = pre ++ Ev.write c b :: Ev.block c p l i :: post ∧
        ∃ n ∈ lt, n.cid = c ∧ n.path = p :=
  steps_writes (exchange_steps st hst lt u msgs hwk)

/-- **C01.deliver_sound (requestor).**  The sequence of loads answered with data is the sequence
    of loaded nodes of a depth-first walk of the link tree under SOME availability answers (one per
    visited link), possibly cut short: the traversal only ever descends below links it loaded, in
    traversal order, whatever the responder sent. -/
theorem req_deliver_sound (st : List (Cid × Blk)) (hst : HonestStore st) (lt : LT) (u : Nat)
    (msgs : List Msg) (hwk : ∀ m ∈ msgs, m.wk) :
    ∃ answers, blocksOf (exchange st lt u msgs).2 =
      (dfs lt answers).1.map (fun n => (n.cid, n.path)) := by
  obtain ⟨as, _, h⟩ := steps_dfs (exchange_steps st hst lt u msgs hwk)
  exact ⟨as, h⟩


/-- **Peer filter** (`filterResponsesForPeer`): a response that comes from another peer, or carries
    another request id, changes nothing and produces no event. -/
theorem foreign_ignored (s : Requestor.State) (f k : Bool) (status : Nat) (md : List (Cid × Action))
    (bl : List (Cid × Blk)) (h : f = false ∨ k = false) : message s f k status md bl = (s, []) := by
  unfold message
  rcases h with rfl | rfl <;> simp

/-- non-vacuity: an exchange in which the requestor holds the root, fetches one block from the
    responder (write + delivery) and is told that another one is missing -/
example :
    let lt : LT := [⟨9, [], 0, 2, 0⟩, ⟨2, [0], 1, 1, 1⟩, ⟨3, [1], 1, 1, 0⟩]
    let msgs : List Msg := [⟨true, true, 21, [(9, .present), (2, .present), (3, .missing)], [(2, 2)]⟩]
    (exchange [(9, 9)] lt 0 msgs).2 =
      [.block 9 [] true 1, .prog 2, .sentNew 1, .write 2 2, .block 2 [0] false 2, .prog 1,
       .err (.load (.missing 3 [1])), .prog 0] := by decide

/-- non-vacuity of the adversarial side: a forged stream (wrong link first) ends the request with
    RemoteIncorrectResponseError and writes nothing -/
example :
    let lt : LT := [⟨9, [], 0, 2, 0⟩, ⟨2, [0], 1, 1, 1⟩]
    let msgs : List Msg := [⟨true, true, 14, [(9, .present), (7, .present)], [(7, 7), (2, 2)]⟩]
    (exchange [(9, 9)] lt 0 msgs).2 =
      [.block 9 [] true 1, .prog 2, .sentNew 1, .err (.load (.incorrect 2 7 [0])), .sentCancel,
       .err (.load (.incorrect 2 7 [0]))] := by decide

end GS.C01
