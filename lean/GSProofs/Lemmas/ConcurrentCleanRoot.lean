import GSProofs.Lemmas.ConcurrentCleanSys
/-!
Property C20, the regularity clauses of `CleanAt` when the responder LACKS the root (and hence, the local
store being a part of the responder's, the requestor lacks it too): the exchange is one `missing` entry
for the root and the terminal status `RequestFailedContentNotFound` (34) behind it; the executor, parked
on the root with nothing loaded, ends the request on the first of the two (`SkipMe` at the root), so the
failure status never reaches a RUNNING request.
-/
namespace GS.C20
open GS.Loader GS.Requestor GS.LinkTrack GS.Concurrent

/-- the executor is parked in `waitRemote` on `n`, the first node of its cursor, with nothing queued, no
    replay pending and the path tracker idle -/
structure Parked0 (r : Requestor.State) (n : LNode) : Prop where
  ph : r.phase = .running
  ctx : r.ctxCancelled = false
  sent : r.requestSent = true
  todo : ∃ rest, r.todo = n :: rest
  pend : r.L.pending = some (n.path, n.cid)
  opn : r.L.isOpen = true
  q : r.L.rq.q = []
  ver : r.L.verifierDone = true
  unf : r.L.unfollowed = []

/-- the root-missing wire message -/
def wMiss (n : LNode) : Wire := { md := [(n.cid, .missing)], blocks := [] }

/-- issuing a request whose root the local store lacks: the executor parks on the root, skip 0 -/
theorem reqStart_parked (st : List (Cid × Blk)) (n : LNode) (rest : LT) (h : storeGet st n.cid = none) :
    Parked0 (reqStart {} st (n :: rest)).1 n ∧ (reqStart {} st (n :: rest)).2 = [Ev.sentNew 0] ∧
    (reqStart {} st (n :: rest)).1.L.store = st := by
  unfold reqStart request
  simp only [fuelFor, List.length_cons]
  rw [drive_succ]
  simp [loadNode, Loader.load, Loader.run, waitRemote, loadLocal, h, isMiss, Loader.setOnline, Loader.retry,
    RQ.clear]
  exact ⟨rfl, rfl, rfl, ⟨rest, rfl⟩, rfl, rfl, rfl, rfl, rfl⟩

/-- the root-missing message reaches the executor parked on the root: `SkipMe` at the root ends the request -/
theorem message_parked (r : Requestor.State) (n : LNode) (st : List (Cid × Blk)) (hp : Parked0 r n)
    (hd : n.depth = 0) (h : storeGet st n.cid = none) :
    (reqMsg r st (wMiss n)).1.phase = .finished ∧ (reqMsg r st (wMiss n)).1.ctxCancelled = false := by
  obtain ⟨L, todo, ph, sent, nb, us, cc, te⟩ := r
  obtain ⟨store, record, mra, unfollowed, isOpen, ver, rq, pending⟩ := L
  obtain ⟨q, last, lastLinked, tailOn⟩ := rq
  obtain ⟨h1, h2, h3, ⟨rest, h4⟩, h5, h6, h7, h8, h9⟩ := hp
  simp only at h1 h2 h3 h4 h5 h6 h7 h8 h9
  subst h1 h2 h3 h4 h5 h6 h7 h9
  unfold reqMsg wMiss message
  cases ver with
  | none =>
    simp [applyStatus, isTerminal, isSuccess, isFailure, Loader.ingest, buildItems, buildItems.go, RQ.queue, RQ.push,
      resume, Loader.wake, Loader.run, waitRemote, State.verifierDone, stillOnUnfollowed, RQ.consume, recordRemoteAttempt,
      Action.didFollow, loadLocal, h, handle, hd, failWith, finish]
  | some v =>
    simp only [State.verifierDone] at h8
    simp [applyStatus, isTerminal, isSuccess, isFailure, Loader.ingest, buildItems, buildItems.go, RQ.queue, RQ.push,
      resume, Loader.wake, Loader.run, waitRemote, State.verifierDone, h8, stillOnUnfollowed, RQ.consume, recordRemoteAttempt,
      Action.didFollow, loadLocal, h, handle, hd, failWith, finish]

/-- a message to a request that is not running is dropped -/
theorem message_not_running (s : Requestor.State) (status : Nat) (md : List (Cid × Action)) (bl : List (Cid × Blk))
    (h : s.phase ≠ .running) : message s true true status md bl = (s, []) := by
  unfold message
  have : (s.phase != Phase.running || !true || !true) = true := by simp [h]
  rw [this]
  rfl

/-- the responder meets the missing root -/
theorem respStep_rootmiss (t : PeerTracker) (rem : List Cid) (i : Nat) (rr : RespRun) (n : LNode) (rest : LT)
    (h1 : rr.rootMiss = false) (h2 : rr.todo = n :: rest) (hn : n.cid ∉ rem) (hd : n.depth = 0) :
    (respStep t rem i rr).2.2 = wMiss n ∧ (respStep t rem i rr).2.1.rootMiss = true ∧
    (respStep t rem i rr).2.1.active = rr.active := by
  obtain ⟨todo, active, rootMiss⟩ := rr
  simp only at h1 h2
  subst h1 h2
  have hc : rem.contains n.cid = false := by simpa using hn
  have hs := traverse_send t i n.cid false
  unfold respStep
  simp only [Bool.false_eq_true, if_false, hc]
  generalize t.traverse i n.cid false = tr at hs
  obtain ⟨t', send, x⟩ := tr
  simp only at hs ⊢
  cases send with
  | true => exact absurd (hs rfl) (by decide)
  | false =>
    simp [wMiss, hd]

/-- after the missing root: the terminal failure status, and the responder is done -/
theorem respStep_after_rootmiss (t : PeerTracker) (rem : List Cid) (i : Nat) (rr : RespRun) (h1 : rr.rootMiss = true) :
    (respStep t rem i rr).2.1.active = false := by
  unfold respStep
  simp only [h1, if_true]

/-- the states of the root-missing exchange of request `i` (root `n`, which the responder lacks) -/
inductive RM (i : Nat) (n : LNode) (s : Sys) : Prop
  | parked (r : Requestor.State) (rr : RespRun) (ws : List Wire)
      (hr : s.reqs[i]? = some r) (hp : Parked0 r n) (hst : storeGet (storeOf s i) n.cid = none)
      (hrr : s.resp[i]? = some rr) (hc : s.chan[i]? = some ws)
      (hsh : (ws = [] ∧ rr.active = true ∧ rr.rootMiss = false ∧ ∃ rest, rr.todo = n :: rest) ∨
             (ws = [wMiss n] ∧ rr.rootMiss = true) ∨
             (∃ w, ws = [wMiss n, w] ∧ rr.active = false)) : RM i n s
  | over (h : ∀ r, s.reqs[i]? = some r → r.phase ≠ .running ∧ r.ctxCancelled = false) : RM i n s

theorem set_self_some {α : Type} (l : List α) (i : Nat) (v x : α) (h : l[i]? = some x) : (l.set i v)[i]? = some v := by
  rw [getElem?_set_self, h]; rfl

theorem RM_resp (i : Nat) (n : LNode) (s : Sys) (hn : n.cid ∉ s.rem) (hd : n.depth = 0) (h : RM i n s) :
    RM i n (Concurrent.step s (.resp i)) := by
  cases h with
  | over h =>
    refine .over ?_
    cases hr : s.resp[i]? with
    | none => rw [resp_noop s i (fun rr hx => by rw [hr] at hx; cases hx)]; exact h
    | some rr =>
      cases ha : rr.active with
      | false => rw [resp_noop s i (fun rr' hx => by rw [hr] at hx; cases hx; exact ha)]; exact h
      | true => rw [resp_eq s i rr hr ha]; exact h
  | parked r rr ws hr hp hst hrr hc hsh =>
    cases ha : rr.active with
    | false =>
      rw [resp_noop s i (fun rr' hx => by rw [hrr] at hx; cases hx; exact ha)]
      exact .parked r rr ws hr hp hst hrr hc hsh
    | true =>
      rw [resp_eq s i rr hrr ha]
      have hgd : s.chan.getD i [] = ws := by rw [List.getD_eq_getElem?_getD, hc]; rfl
      refine .parked r (respStep s.tracker s.rem i rr).2.1 (ws ++ [(respStep s.tracker s.rem i rr).2.2]) hr hp hst
        ?_ ?_ ?_
      · exact set_self_some _ _ _ _ hrr
      · unfold respOut
        simp only [setAt, hgd]
        exact set_self_some _ _ _ _ hc
      · rcases hsh with ⟨e1, _, e3, rest, e4⟩ | ⟨e1, e2⟩ | ⟨w, _, e2⟩
        · obtain ⟨k1, k2, _⟩ := respStep_rootmiss s.tracker s.rem i rr n rest e3 e4 hn hd
          exact Or.inr (Or.inl ⟨by rw [e1, k1]; rfl, k2⟩)
        · exact Or.inr (Or.inr ⟨_, by rw [e1]; rfl, respStep_after_rootmiss _ _ _ _ e2⟩)
        · rw [e2] at ha; cases ha

theorem RM_deliver (i : Nat) (n : LNode) (s : Sys) (hd : n.depth = 0) (h : RM i n s) :
    RM i n (Concurrent.step s (.deliver i)) := by
  cases h with
  | over h =>
    cases hr : s.reqs[i]? with
    | none => rw [deliver_noop_req s i hr]; exact .over h
    | some r =>
      cases hc : s.chan[i]? with
      | none => rw [deliver_noop_chan s i (by rw [List.getD_eq_getElem?_getD, hc]; rfl)]; exact .over h
      | some l =>
        cases l with
        | nil => rw [deliver_noop_chan s i (by rw [List.getD_eq_getElem?_getD, hc]; rfl)]; exact .over h
        | cons w ws =>
          rw [deliver_eq s i r w ws hr hc]
          refine .over ?_
          intro r' hr'
          unfold delivOut at hr'
          simp only [setAt] at hr'
          rcases set_get _ _ _ _ _ hr' with ⟨_, rfl⟩ | ⟨hne, _⟩
          · rw [reqMsg_eq, message_not_running (rws r (storeOf s i)) _ _ _ (h r hr).1]
            exact h r hr
          · exact absurd rfl hne
  | parked r rr ws hr hp hst hrr hc hsh =>
    have hdel : ∀ ws', ws = wMiss n :: ws' → RM i n (Concurrent.step s (.deliver i)) := by
      intro ws' e
      rw [e] at hc
      rw [deliver_eq s i r (wMiss n) ws' hr hc]
      refine .over ?_
      intro r' hr'
      unfold delivOut at hr'
      simp only [setAt] at hr'
      rcases set_get _ _ _ _ _ hr' with ⟨_, rfl⟩ | ⟨hne, _⟩
      · obtain ⟨m1, m2⟩ := message_parked r n (storeOf s i) hp hd hst
        exact ⟨(by rw [m1]; intro hx; cases hx), m2⟩
      · exact absurd rfl hne
    rcases hsh with hA | hB | ⟨w, e1, _⟩
    · rw [deliver_noop_chan s i (by rw [List.getD_eq_getElem?_getD, hc, hA.1]; rfl)]
      exact .parked r rr ws hr hp hst hrr hc (Or.inl hA)
    · exact hdel [] hB.1
    · exact hdel [w] e1

theorem RM_run (i : Nat) (n : LNode) (hd : n.depth = 0) : ∀ (τ : List Act) (s : Sys), n.cid ∉ s.rem →
    (∀ a ∈ τ, a = .resp i ∨ a = .deliver i) → RM i n s → RM i n (Concurrent.run s τ)
  | [], _, _, _, h => h
  | a :: τ, s, hn, hτ, h => by
    have ih := RM_run i n hd τ (Concurrent.step s a) (by rw [step_rem]; exact hn)
      (fun b hb => hτ b (List.mem_cons_of_mem _ hb))
    rcases hτ a List.mem_cons_self with rfl | rfl
    · exact ih (RM_resp i n s hn hd h)
    · exact ih (RM_deliver i n s hd h)

/-- the two regularity clauses of `CleanAt` in every state of the root-missing exchange -/
theorem RM_regular (i : Nat) (n : LNode) (s : Sys) (h : RM i n s) :
    (∀ r : Requestor.State, s.reqs[i]? = some r →
      r.ctxCancelled = false ∧ (r.phase = .running → r.requestSent = true ∧ r.todo ≠ [])) ∧
    (∀ (r : Requestor.State) (w : Wire) (ws : List Wire), s.reqs[i]? = some r → r.phase = .running →
      s.chan[i]? = some (w :: ws) → isFailure w.status = false) := by
  cases h with
  | over h =>
    exact ⟨fun r hr => ⟨(h r hr).2, fun hp => absurd hp (h r hr).1⟩, fun r w ws hr hp _ => absurd hp (h r hr).1⟩
  | parked r rr ws hr hp hst hrr hc hsh =>
    refine ⟨fun r' hr' => ?_, fun r' w ws' _ _ hc' => ?_⟩
    · rw [hr] at hr'; cases hr'
      obtain ⟨rest, ht⟩ := hp.todo
      exact ⟨hp.ctx, fun _ => ⟨hp.sent, by rw [ht]; exact List.cons_ne_nil _ _⟩⟩
    · rw [hc] at hc'
      simp only [Option.some.injEq] at hc'
      rcases hsh with ⟨e1, _⟩ | ⟨e1, _⟩ | ⟨w', e1, _⟩
      · rw [e1] at hc'; cases hc'
      · rw [e1] at hc'; cases hc'; rfl
      · rw [e1] at hc'; cases hc'; rfl

/-- the request is issued in the initial system; the local store lacks the root, the responder too -/
theorem RM_start (st : List (Cid × Blk)) (rem : List Cid) (lts : List LT) (keys : List (Option Key)) (i : Nat)
    (n : LNode) (rest : LT) (hl : lts[i]? = some (n :: rest)) (hst : storeGet st n.cid = none) :
    RM i n (Concurrent.step (initSys st rem lts keys) (.start i)) := by
  have hreq : (initSys st rem lts keys).reqs[i]? = some {} := by
    simp only [initSys, List.getElem?_map, hl, Option.map_some]
  have hlt : (initSys st rem lts keys).lts[i]? = some (n :: rest) := hl
  have hresp : (initSys st rem lts keys).resp[i]? = some {} := by
    simp only [initSys, List.getElem?_map, hl, Option.map_some]
  have hchan : (initSys st rem lts keys).chan[i]? = some [] := by
    simp only [initSys, List.getElem?_map, hl, Option.map_some]
  have hown : (initSys st rem lts keys).own = [] := rfl
  have hstore : (initSys st rem lts keys).store = st := rfl
  generalize initSys st rem lts keys = B at hreq hlt hresp hchan hown hstore
  simp only [Concurrent.step, hreq, hlt]
  have hph : (({} : Requestor.State).phase != Phase.idle) = false := rfl
  rw [if_neg (by rw [hph]; simp)]
  rw [storeOf_shared B i hown, hstore]
  obtain ⟨hP1, hP2, hP3⟩ := reqStart_parked st n rest hst
  generalize reqStart {} st (n :: rest) = rq at hP1 hP2 hP3
  obtain ⟨r', ev⟩ := rq
  simp only at hP1 hP2 hP3 ⊢
  subst hP2
  have hsk : sentSkip [Ev.sentNew 0] = some 0 := rfl
  simp only [hsk]
  rw [putStore_shared B i _ hown]
  refine .parked r' { todo := n :: rest, active := true } [] ?_ hP1 ?_ ?_ ?_ (Or.inl ⟨rfl, rfl, rfl, rest, rfl⟩)
  · exact set_self_some _ _ _ _ hreq
  · simp [storeOf, hown, hP3, hst]
  · exact set_self_some _ _ _ _ hresp
  · exact hchan

/-! ## the reports of the root-missing exchange: the only block reported missing is the root -/

/-- the reports of the delivery that ends the request name no block but the root as missing -/
theorem message_parked_evs (r : Requestor.State) (n : LNode) (st : List (Cid × Blk)) (hp : Parked0 r n)
    (hd : n.depth = 0) (h : storeGet st n.cid = none) :
    ∀ c p, (c, p) ∈ missingOf (reqMsg r st (wMiss n)).2 → c = n.cid := by
  obtain ⟨L, todo, ph, sent, nb, us, cc, te⟩ := r
  obtain ⟨store, record, mra, unfollowed, isOpen, ver, rq, pending⟩ := L
  obtain ⟨q, last, lastLinked, tailOn⟩ := rq
  obtain ⟨h1, h2, h3, ⟨rest, h4⟩, h5, h6, h7, h8, h9⟩ := hp
  simp only at h1 h2 h3 h4 h5 h6 h7 h8 h9
  subst h1 h2 h3 h4 h5 h6 h7 h9
  unfold reqMsg wMiss message
  cases ver with
  | none =>
    cases te <;>
    simp [applyStatus, isTerminal, isSuccess, isFailure, Loader.ingest, buildItems, buildItems.go, RQ.queue, RQ.push,
      resume, Loader.wake, Loader.run, waitRemote, State.verifierDone, stillOnUnfollowed, RQ.consume, recordRemoteAttempt,
      Action.didFollow, loadLocal, h, handle, hd, failWith, finish, missingOf, writeEvs]
  | some v =>
    simp only [State.verifierDone] at h8
    cases te <;>
    simp [applyStatus, isTerminal, isSuccess, isFailure, Loader.ingest, buildItems, buildItems.go, RQ.queue, RQ.push,
      resume, Loader.wake, Loader.run, waitRemote, State.verifierDone, h8, stillOnUnfollowed, RQ.consume, recordRemoteAttempt,
      Action.didFollow, loadLocal, h, handle, hd, failWith, finish, missingOf, writeEvs]

theorem mem_missing_set (l : List (List Ev)) (i : Nat) (e : List Ev) (x : Cid × Path)
    (h : x ∈ missingOf ((l.set i (l.getD i [] ++ e)).getD i [])) :
    x ∈ missingOf (l.getD i []) ∨ x ∈ missingOf e := by
  rw [List.getD_eq_getElem?_getD, getElem?_set_self, List.getD_eq_getElem?_getD] at h
  rw [List.getD_eq_getElem?_getD]
  cases hl : l[i]? with
  | none => rw [hl] at h; simp [missingOf] at h
  | some y =>
    rw [hl] at h
    simp only [Option.map_some, Option.getD_some] at h ⊢
    unfold missingOf at h ⊢
    rw [List.filterMap_append] at h
    exact List.mem_append.mp h

/-- the only block request `i` has reported missing is `n` -/
def EV (i : Nat) (n : LNode) (s : Sys) : Prop := ∀ c p, (c, p) ∈ missingOf (s.evs.getD i []) → c = n.cid

theorem EV_resp (i : Nat) (n : LNode) (s : Sys) (h : EV i n s) : EV i n (Concurrent.step s (.resp i)) := by
  cases hr : s.resp[i]? with
  | none => rw [resp_noop s i (fun rr hx => by rw [hr] at hx; cases hx)]; exact h
  | some rr =>
    cases ha : rr.active with
    | false => rw [resp_noop s i (fun rr' hx => by rw [hr] at hx; cases hx; exact ha)]; exact h
    | true => rw [resp_eq s i rr hr ha]; exact h

theorem EV_deliver (i : Nat) (n : LNode) (s : Sys) (hd : n.depth = 0) (hrm : RM i n s) (h : EV i n s) :
    EV i n (Concurrent.step s (.deliver i)) := by
  cases hr : s.reqs[i]? with
  | none => rw [deliver_noop_req s i hr]; exact h
  | some r =>
    cases hc : s.chan[i]? with
    | none => rw [deliver_noop_chan s i (by rw [List.getD_eq_getElem?_getD, hc]; rfl)]; exact h
    | some l =>
      cases l with
      | nil => rw [deliver_noop_chan s i (by rw [List.getD_eq_getElem?_getD, hc]; rfl)]; exact h
      | cons w ws =>
        rw [deliver_eq s i r w ws hr hc]
        intro c p hm
        unfold delivOut at hm
        simp only [setAt] at hm
        rcases mem_missing_set _ _ _ _ hm with hm | hm
        · exact h c p hm
        · cases hrm with
          | over ho =>
            rw [reqMsg_eq, message_not_running (rws r (storeOf s i)) _ _ _ (ho r hr).1] at hm
            simp [missingOf] at hm
          | parked r0 rr ws0 hr0 hp hst hrr hc0 hsh =>
            rw [hr] at hr0; cases hr0
            rw [hc] at hc0; cases hc0
            have hw : w = wMiss n := by
              rcases hsh with ⟨e1, _⟩ | ⟨e1, _⟩ | ⟨w', e1, _⟩
              · cases e1
              · cases e1; rfl
              · cases e1; rfl
            subst hw
            exact message_parked_evs r n (storeOf s i) hp hd hst c p hm

theorem RM_EV_run (i : Nat) (n : LNode) (hd : n.depth = 0) : ∀ (τ : List Act) (s : Sys), n.cid ∉ s.rem →
    (∀ a ∈ τ, a = .resp i ∨ a = .deliver i) → RM i n s → EV i n s → EV i n (Concurrent.run s τ)
  | [], _, _, _, _, h => h
  | a :: τ, s, hn, hτ, hrm, h => by
    have ih := RM_EV_run i n hd τ (Concurrent.step s a) (by rw [step_rem]; exact hn)
      (fun b hb => hτ b (List.mem_cons_of_mem _ hb))
    rcases hτ a List.mem_cons_self with rfl | rfl
    · exact ih (RM_resp i n s hn hd hrm) (EV_resp i n s h)
    · exact ih (RM_deliver i n s hd hrm) (EV_deliver i n s hd hrm h)

/-- nothing has been reported missing right after the request was issued -/
theorem EV_start (st : List (Cid × Blk)) (rem : List Cid) (lts : List LT) (keys : List (Option Key)) (i : Nat)
    (n : LNode) (rest : LT) (hl : lts[i]? = some (n :: rest)) (hst : storeGet st n.cid = none) :
    EV i n (Concurrent.step (initSys st rem lts keys) (.start i)) := by
  intro c p hm
  have hev0 : (initSys st rem lts keys).evs.getD i [] = [] := by
    simp [initSys, List.getD_eq_getElem?_getD, List.getElem?_map, hl]
  have hreq : (initSys st rem lts keys).reqs[i]? = some {} := by
    simp only [initSys, List.getElem?_map, hl, Option.map_some]
  have hlt : (initSys st rem lts keys).lts[i]? = some (n :: rest) := hl
  have hown : (initSys st rem lts keys).own = [] := rfl
  have hstore : (initSys st rem lts keys).store = st := rfl
  generalize initSys st rem lts keys = B at hreq hlt hown hstore hev0 hm
  simp only [Concurrent.step, hreq, hlt] at hm
  have hph : (({} : Requestor.State).phase != Phase.idle) = false := rfl
  rw [if_neg (by rw [hph]; simp)] at hm
  rw [storeOf_shared B i hown, hstore] at hm
  obtain ⟨_, hP2, _⟩ := reqStart_parked st n rest hst
  generalize reqStart {} st (n :: rest) = rq at hP2 hm
  obtain ⟨r', ev⟩ := rq
  simp only at hP2 hm
  subst hP2
  have hsk : sentSkip [Ev.sentNew 0] = some 0 := rfl
  simp only [hsk, setAt] at hm
  rcases mem_missing_set _ _ _ _ hm with hm | hm
  · rw [hev0] at hm
    simp [missingOf] at hm
  · simp [missingOf] at hm

end GS.C20
