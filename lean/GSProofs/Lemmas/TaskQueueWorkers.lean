import GSProofs.Lemmas.TaskQueueStep
/-!
Helper lemmas for C21, part 5: worker steps (TaskDone, return, PopTasks) preserve `Inv`; hence every
step does.
-/
namespace GS.TQ

theorem sumBy_set_eq {f : WSt → Nat} {ws : List WSt} {i : Nat} {w0 w : WSt}
    (h : ws[i]? = some w0) (he : f w = f w0) : sumBy f (ws.set i w) = sumBy f ws := by
  have := sumBy_set f ws i w0 w h
  omega

theorem Inv.done {s : Sys} (hI : Inv s) {i p : Nat} {cur : Task} {rest : List Task}
    (hw : s.workers[i]? = some (.exec p cur false rest)) :
    Inv { s with q := done s.q p cur.uid, workers := s.workers.set i (.exec p cur true rest) } := by
  have hcnt : ∀ p' u, sumBy (heldCnt p' u) (s.workers.set i (.exec p cur true rest)) +
      (if p = p' ∧ cur.uid = u then 1 else 0) = sumBy (heldCnt p' u) s.workers := by
    intro p' u
    have := sumBy_set (heldCnt p' u) s.workers i _ (.exec p cur true rest) hw
    simp only [heldCnt] at this
    by_cases h1 : p = p' <;> by_cases h2 : cur.uid = u <;> simp [h1, h2] at this ⊢ <;> omega
  have hlen : ∀ p', sumBy (heldLen p') (s.workers.set i (.exec p cur true rest)) +
      (if p = p' then 1 else 0) = sumBy (heldLen p') s.workers := by
    intro p'
    have := sumBy_set (heldLen p') s.workers i _ (.exec p cur true rest) hw
    simp only [heldLen] at this
    by_cases h1 : p = p' <;> simp [h1] at this ⊢ <;> omega
  obtain ⟨hc, hfr, _, _⟩ := done_peers s.q p cur.uid
  rcases hc with ⟨hnone, hp⟩ | hp
  · refine ⟨by rw [hp]; exact hI.nodup, by rw [hp, hfr]; exact hI.frozen, ?_, ?_, ?_⟩
    · intro tr htr u
      rw [hp] at htr
      have := hcnt tr.id u
      rw [if_neg (fun h => hnone tr htr h.1.symm)] at this
      have := hI.acnt tr htr u
      show _ ≤ sumBy _ (s.workers.set i _)
      omega
    · intro tr htr
      rw [hp] at htr
      have := hlen tr.id
      rw [if_neg (fun h => hnone tr htr h.symm)] at this
      have := hI.elen tr htr
      show sumBy _ (s.workers.set i _) ≤ _
      omega
    · intro p' hp'
      rw [hp] at hp'
      have := hI.enone p' hp'
      have := hlen p'
      show sumBy _ (s.workers.set i _) = 0
      omega
  · refine ⟨by rw [hp, ids_modifyT (f := doneT cur.uid) (fun _ => rfl)]; exact hI.nodup, ?_, ?_, ?_, ?_⟩
    · intro tr htr hfz
      rw [hp] at htr
      obtain ⟨t0, ht0, hc⟩ := mem_modifyT htr
      rw [hfr]
      rcases hc with ⟨_, rfl⟩ | ⟨_, rfl⟩
      · exact hI.frozen _ ht0 hfz
      · exact hI.frozen t0 ht0 hfz
    · intro tr htr u
      rw [hp] at htr
      obtain ⟨t0, ht0, hc⟩ := mem_modifyT htr
      show _ ≤ sumBy _ (s.workers.set i _)
      rcases hc with ⟨hne, rfl⟩ | ⟨he, rfl⟩
      · have := hcnt tr.id u
        rw [if_neg (fun h => hne h.1.symm)] at this
        have := hI.acnt _ ht0 u
        omega
      · have h1 := hcnt t0.id u
        have h2 := hI.acnt _ ht0 u
        show cntUid u (t0.active.eraseP _) ≤ sumBy (heldCnt t0.id u) _
        by_cases hu : cur.uid = u
        · subst hu
          rw [if_pos ⟨he.symm, rfl⟩] at h1
          have := cntUid_eraseP_self cur.uid t0.active
          omega
        · rw [if_neg (fun h => hu h.2)] at h1
          have := cntUid_eraseP_le u cur.uid t0.active
          omega
    · intro tr htr
      rw [hp] at htr
      obtain ⟨t0, ht0, hc⟩ := mem_modifyT htr
      show sumBy _ (s.workers.set i _) ≤ _
      rcases hc with ⟨hne, rfl⟩ | ⟨he, rfl⟩
      · have := hlen tr.id
        rw [if_neg (fun h => hne h.symm)] at this
        have := hI.elen _ ht0
        omega
      · have h1 := hlen t0.id
        rw [if_pos he.symm] at h1
        have h2 := hI.elen _ ht0
        have := length_eraseP_ge t0.active (·.uid == cur.uid)
        show sumBy (heldLen t0.id) _ ≤ (t0.active.eraseP _).length
        omega
    · intro p' hp'
      have hno : ∀ tr ∈ s.q.peers, tr.id ≠ p' := by
        intro tr htr he
        have hm := mem_modifyT_of_mem (p := p) (f := doneT cur.uid) htr
        rw [← hp] at hm
        apply hp' _ hm
        split
        · exact he
        · exact he
      have := hI.enone p' hno
      have := hlen p'
      show sumBy _ (s.workers.set i _) = 0
      omega

/-- ExecuteTask returned: next task of the batch, or back to the top of the loop -/
theorem Inv.ret {s : Sys} (hI : Inv s) {i : Nat} {w0 w : WSt}
    (hw : s.workers[i]? = some w0)
    (hc : ∀ p u, heldCnt p u w = heldCnt p u w0) (hl : ∀ p, heldLen p w = heldLen p w0) :
    Inv { s with workers := s.workers.set i w } := by
  refine ⟨hI.nodup, hI.frozen, ?_, ?_, ?_⟩
  · intro tr htr u
    show _ ≤ sumBy _ (s.workers.set i _)
    rw [sumBy_set_eq hw (hc _ _)]; exact hI.acnt tr htr u
  · intro tr htr
    show sumBy _ (s.workers.set i _) ≤ _
    rw [sumBy_set_eq hw (hl _)]; exact hI.elen tr htr
  · intro p hp
    show sumBy _ (s.workers.set i _) = 0
    rw [sumBy_set_eq hw (hl _)]; exact hI.enone p hp

theorem heldCnt_startFrom (p u : Nat) (r : PopResult) (q : Nat) (hq : r.peer = some q) :
    heldCnt p u (startFrom r) = if q = p then cntUid u r.tasks else 0 := by
  unfold startFrom
  rw [hq]
  cases r.tasks with
  | nil => simp [heldCnt, cntUid]
  | cons t ts => by_cases h : q = p <;> simp [heldCnt, cntUid, List.countP_cons, h] <;> omega

theorem heldLen_startFrom (p : Nat) (r : PopResult) (q : Nat) (hq : r.peer = some q) :
    heldLen p (startFrom r) = if q = p then r.tasks.length else 0 := by
  unfold startFrom
  rw [hq]
  cases r.tasks with
  | nil => simp [heldLen]
  | cons t ts => by_cases h : q = p <;> simp [heldLen, h] <;> omega

theorem mem_setT_self {ps : List Tracker} {t t' : Tracker} (h : t ∈ ps) (he : t'.id = t.id) :
    t' ∈ setT ps t' := by
  unfold setT
  exact List.mem_map.mpr ⟨t, h, by simp [he]⟩

/-- PopTasks by an idle or ready worker (`q0` = the queue it pops from: `s.q` or `thaw s.q`) -/
theorem Inv.popFor {s : Sys} {i : Nat} {w0 : WSt} (hI : Inv s)
    (hw : s.workers[i]? = some w0) (hc0 : ∀ p u, heldCnt p u w0 = 0) (hl0 : ∀ p, heldLen p w0 = 0) :
    Inv (s.popFor i s.q) := by
  show Inv { s with q := (pop s.q 1).1, workers := s.workers.set i (startFrom (pop s.q 1).2) }
  have hcnt : ∀ (w : WSt) p u, sumBy (heldCnt p u) (s.workers.set i w) =
      sumBy (heldCnt p u) s.workers + heldCnt p u w := by
    intro w p u
    have := sumBy_set (heldCnt p u) s.workers i _ w hw
    rw [hc0] at this; omega
  have hlen : ∀ (w : WSt) p, sumBy (heldLen p) (s.workers.set i w) =
      sumBy (heldLen p) s.workers + heldLen p w := by
    intro w p
    have := sumBy_set (heldLen p) s.workers i _ w hw
    rw [hl0] at this; omega
  rcases pop_cases s.q 1 with ⟨_, hpop⟩ | ⟨tr, hpk, hpeer, htasks, _, _, hcase⟩
  · rw [hpop]
    have e : startFrom ({} : PopResult) = .idle := rfl
    rw [e]
    refine ⟨hI.nodup, hI.frozen, ?_, ?_, ?_⟩
    · intro t ht u; show _ ≤ sumBy _ (s.workers.set i _); rw [hcnt]; have := hI.acnt t ht u; omega
    · intro t ht; show sumBy _ (s.workers.set i _) ≤ _; rw [hlen]; have := hI.elen t ht; simp [heldLen]; omega
    · intro p hp; show sumBy _ (s.workers.set i _) = 0; rw [hlen]; have := hI.enone p hp; simp [heldLen]; omega
  · obtain ⟨htr, _⟩ := peek_some hpk
    have hspec := popLoop_spec s.q.cap 1 (tr.pending.length + 1) tr [] 0
    obtain ⟨hid, hfz, new, hnew, hact, _, _, _⟩ := hspec
    simp only [List.nil_append] at hnew
    generalize hr : popLoop s.q.cap 1 (tr.pending.length + 1) tr [] 0 = r at *
    have hc' := fun p u => heldCnt_startFrom p u (pop s.q 1).2 tr.id hpeer
    have hl' := fun p => heldLen_startFrom p (pop s.q 1).2 tr.id hpeer
    rw [htasks, hnew] at hc' hl'
    rcases hcase with ⟨hp, _, hanil, hfro⟩ | ⟨hp, hfro⟩
    · -- the tracker became idle and was removed; nothing was popped
      have hnn : new = [] := by
        rw [hact] at hanil; exact (List.append_eq_nil_iff.mp hanil).2
      have htan : tr.active = [] := by
        rw [hact] at hanil; exact (List.append_eq_nil_iff.mp hanil).1
      subst hnn
      refine ⟨?_, ?_, ?_, ?_, ?_⟩
      · rw [hp]; exact nodup_eraseT hI.nodup
      · intro t ht hf
        rw [hp] at ht; rw [hfro]
        obtain ⟨h1, h2⟩ := mem_eraseT ht
        exact List.mem_filter.mpr ⟨hI.frozen t h1 hf, by simpa using h2⟩
      · intro t ht u
        rw [hp] at ht
        show _ ≤ sumBy _ (s.workers.set i _)
        rw [hcnt, hc']; have := hI.acnt t (mem_eraseT ht).1 u
        have e0 : cntUid u ([] : List Task) = 0 := rfl
        simp only [e0, ite_self]; omega
      · intro t ht
        rw [hp] at ht
        show sumBy _ (s.workers.set i _) ≤ _
        rw [hlen, hl']; have := hI.elen t (mem_eraseT ht).1; simp; omega
      · intro p hp'
        show sumBy _ (s.workers.set i _) = 0
        rw [hlen, hl']
        simp
        by_cases hpe : tr.id = p
        · have := hI.elen tr htr
          rw [htan, hpe] at this; simpa using this
        · apply hI.enone p
          intro t ht he
          apply hp' t _ he
          rw [hp]
          exact List.mem_filter.mpr ⟨ht, by simp [he]; exact fun h => hpe h.symm⟩
    · -- the tracker stays, with `new` moved to its active list
      refine ⟨?_, ?_, ?_, ?_, ?_⟩
      · rw [hp, ids_setT]; exact hI.nodup
      · intro t ht hf
        rw [hp] at ht; rw [hfro]
        rcases mem_setT ht with ⟨h1, _⟩ | rfl
        · exact hI.frozen t h1 hf
        · rw [hid]; rw [hfz] at hf; exact hI.frozen tr htr hf
      · intro t ht u
        rw [hp] at ht
        show _ ≤ sumBy _ (s.workers.set i _)
        rw [hcnt, hc']
        rcases mem_setT ht with ⟨h1, h2⟩ | rfl
        · have := hI.acnt t h1 u; omega
        · rw [hact, cntUid_append, hid]; have := hI.acnt tr htr u; simp; omega
      · intro t ht
        rw [hp] at ht
        show sumBy _ (s.workers.set i _) ≤ _
        rw [hlen, hl']
        rcases mem_setT ht with ⟨h1, h2⟩ | rfl
        · have := hI.elen t h1
          rw [hid] at h2
          rw [if_neg (fun h => h2 h.symm)]; omega
        · rw [hact, hid]; have := hI.elen tr htr; simp; omega
      · intro p hp'
        show sumBy _ (s.workers.set i _) = 0
        rw [hlen, hl']
        have hrm : r.1 ∈ (pop s.q 1).1.peers := by rw [hp]; exact mem_setT_self htr hid
        have hne : tr.id ≠ p := by rw [← hid]; exact hp' _ hrm
        rw [if_neg hne]
        have : sumBy (heldLen p) s.workers = 0 := by
          apply hI.enone p
          intro t ht he
          apply hp' t _ he
          rw [hp]
          unfold setT
          refine List.mem_map.mpr ⟨t, ht, ?_⟩
          have : ¬ (t.id == r.1.id) = true := by simp [hid, he]; exact fun h => hne h.symm
          rw [if_neg this]
        omega

end GS.TQ
