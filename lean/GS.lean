import GS.Model.Allocator
import GS.Driver.Proto
import GS.Driver.Alloc
