package wire

// Component "netstream": raw bytes written on a libp2p (mocknet) stream into the real
// network.handleNewStream, with a fake Receiver recording ReceiveMessage / ReceiveError.
//
//	case <id> k=<n> end=<eof|err>      what the *property* expects: the generator built the stream
//	                                   from n valid frames followed by nothing (eof) or by something
//	                                   that is not a valid frame (err)
//	net <bytes>                        -> "<delivered> <eof|err> | nf | nf ..."
//
// Oracles (C12): messages delivered = the valid prefix; malformed input => exactly one ReceiveError
// and the stream is reset (the writer sees a reset, not a clean close); nothing is delivered after
// the error; every delivered block is keyed by the hash of its bytes; afterwards a fresh stream with
// a valid message is still served; no panic reaches the panic callback.

import (
	"bufio"
	"context"
	"encoding/binary"
	"fmt"
	"io"
	"math/rand"
	"strings"
	"sync"
	"time"

	"github.com/libp2p/go-libp2p/core/host"
	"github.com/libp2p/go-libp2p/core/peer"
	mocknet "github.com/libp2p/go-libp2p/p2p/net/mock"

	"github.com/ipfs/go-graphsync/message"
	gsnet "github.com/ipfs/go-graphsync/network"

	"verifharness/reg"
)

type netEvent struct {
	isErr bool
	msg   message.GraphSyncMessage
	err   error
}

type fakeReceiver struct {
	mu     sync.Mutex
	events []netEvent
	wake   chan struct{}
}

func (f *fakeReceiver) push(e netEvent) {
	f.mu.Lock()
	f.events = append(f.events, e)
	f.mu.Unlock()
	select {
	case f.wake <- struct{}{}:
	default:
	}
}
func (f *fakeReceiver) ReceiveMessage(_ context.Context, _ peer.ID, m message.GraphSyncMessage) {
	f.push(netEvent{msg: m})
}
func (f *fakeReceiver) ReceiveError(_ peer.ID, err error) { f.push(netEvent{isErr: true, err: err}) }
func (f *fakeReceiver) Connected(peer.ID)                  {}
func (f *fakeReceiver) Disconnected(peer.ID)               {}
func (f *fakeReceiver) take() []netEvent {
	f.mu.Lock()
	defer f.mu.Unlock()
	ev := f.events
	f.events = nil
	return ev
}
func (f *fakeReceiver) count() (n int, hasErr bool) {
	f.mu.Lock()
	defer f.mu.Unlock()
	for _, e := range f.events {
		if e.isErr {
			hasErr = true
		}
	}
	return len(f.events), hasErr
}

type netRig struct {
	h1, h2, h3 host.Host
	recv   *fakeReceiver
	panics int
	mu     sync.Mutex
}

func newRig() (*netRig, error) {
	mn := mocknet.New()
	h1, err := mn.GenPeer()
	if err != nil {
		return nil, err
	}
	h2, err := mn.GenPeer()
	if err != nil {
		return nil, err
	}
	h3, err := mn.GenPeer()
	if err != nil {
		return nil, err
	}
	if err := mn.LinkAll(); err != nil {
		return nil, err
	}
	rig := &netRig{h1: h1, h2: h2, h3: h3, recv: &fakeReceiver{wake: make(chan struct{}, 1)}}
	n2 := gsnet.NewFromLibp2pHost(h2, gsnet.PanicCallback(func(recovered interface{}, debugStackTrace string) {
		rig.mu.Lock()
		rig.panics++
		rig.mu.Unlock()
	}))
	n2.SetDelegate(rig.recv)
	if _, err := mn.ConnectPeers(h1.ID(), h2.ID()); err != nil {
		return nil, err
	}
	if _, err := mn.ConnectPeers(h3.ID(), h2.ID()); err != nil {
		return nil, err
	}
	return rig, nil
}

// send writes b on a fresh stream, half-closes it, and reports how the remote side ended the
// stream: "closed" (clean close) or "reset".
func (rig *netRig) send(b []byte) (string, error) {
	ctx, cancel := context.WithTimeout(context.Background(), 30*time.Second)
	defer cancel()
	s, err := rig.h1.NewStream(ctx, rig.h2.ID(), gsnet.ProtocolGraphsync_2_0_0)
	if err != nil {
		return "", err
	}
	werr := make(chan error, 1)
	go func() {
		_, err := s.Write(b)
		if err == nil {
			err = s.CloseWrite()
		}
		werr <- err
	}()
	_ = s.SetReadDeadline(time.Now().Add(30 * time.Second))
	_, rerr := io.Copy(io.Discard, s)
	select {
	case <-werr:
	case <-time.After(30 * time.Second):
	}
	_ = s.Reset()
	if rerr == nil {
		return "closed", nil
	}
	if strings.Contains(rerr.Error(), "reset") {
		return "reset", nil
	}
	return "other:" + rerr.Error(), nil
}

// settle waits until the receiver has seen `want` events or an error event, or the timeout expires.
func (rig *netRig) settle(wantErr bool, wantMsgs int) {
	deadline := time.After(5 * time.Second)
	for {
		n, hasErr := rig.recv.count()
		if (wantErr && hasErr) || (!wantErr && n >= wantMsgs) {
			// give a stray late event a moment to show up (it would be an oracle failure)
			time.Sleep(2 * time.Millisecond)
			return
		}
		select {
		case <-rig.recv.wake:
		case <-time.After(20 * time.Millisecond):
		case <-deadline:
			return
		}
	}
}

// probeWithin writes a complete valid message on a fresh stream from `from` and reports whether the
// node delivered it within the watchdog time.
func (rig *netRig) probeWithin(from host.Host, probe []byte, want string, d time.Duration) (bool, string) {
	ctx, cancel := context.WithTimeout(context.Background(), d)
	defer cancel()
	s, err := from.NewStream(ctx, rig.h2.ID(), gsnet.ProtocolGraphsync_2_0_0)
	if err != nil {
		return false, "cannot open a stream: " + err.Error()
	}
	defer s.Reset()
	go func() {
		if _, err := s.Write(probe); err == nil {
			_ = s.CloseWrite()
		}
	}()
	deadline := time.After(d)
	for {
		rig.recv.mu.Lock()
		for _, e := range rig.recv.events {
			if !e.isErr && nf(e.msg) == want {
				rig.recv.mu.Unlock()
				return true, ""
			}
		}
		rig.recv.mu.Unlock()
		select {
		case <-rig.recv.wake:
		case <-time.After(10 * time.Millisecond):
		case <-deadline:
			return false, fmt.Sprintf("not delivered within %s", d)
		}
	}
}

// stall: "nor stops serving other streams". One stream sends a length prefix and only part of the
// announced frame and then stays open and silent; complete valid messages on other streams (same
// peer, other peer) must still be delivered promptly. The watchdog (4 s) is far above the normal
// latency (milliseconds) and below the handler's 10 s read deadline, after which a node that was
// blocked by the stalled stream would recover by itself.
func (rig *netRig) stall(out *reg.Out, partial, probe []byte, probeNF string) string {
	ctx, cancel := context.WithTimeout(context.Background(), 10*time.Second)
	defer cancel()
	rig.recv.take()
	s1, err := rig.h1.NewStream(ctx, rig.h2.ID(), gsnet.ProtocolGraphsync_2_0_0)
	if err != nil {
		out.Fail("net-serve", "could not open a stream to the node: %v", err)
		return "no-stream"
	}
	if _, err := s1.Write(partial); err != nil {
		out.Fail("net-serve", "could not write to the stream: %v", err)
	}
	time.Sleep(30 * time.Millisecond) // let the handler get into the frame body
	res := "served"
	for _, from := range []struct {
		name string
		h    host.Host
	}{{"the same peer", rig.h1}, {"another peer", rig.h3}} {
		rig.recv.take()
		ok, why := rig.probeWithin(from.h, probe, probeNF, 4*time.Second)
		if !ok {
			out.Fail("other-stream-blocked", "while one stream is stalled in the middle of a frame, a complete valid message from %s on another stream was %s", from.name, why)
			res = "blocked"
		}
	}
	_ = s1.Reset()
	// the stalled stream now fails: wait for its ReceiveError so that it does not leak into the next case
	deadline := time.After(3 * time.Second)
	for {
		_, hasErr := rig.recv.count()
		if hasErr {
			break
		}
		select {
		case <-rig.recv.wake:
		case <-time.After(10 * time.Millisecond):
		case <-deadline:
		}
		if _, hasErr := rig.recv.count(); hasErr {
			break
		}
		select {
		case <-deadline:
			out.Fail("net-error-report", "the stalled stream was reset by its writer but no ReceiveError was reported")
			rig.recv.take()
			return res
		default:
		}
	}
	time.Sleep(5 * time.Millisecond)
	rig.recv.take()
	out.Cov("net:stall-" + res)
	return res
}

var probeDesc = []string{"req", "x000102030405060708090a0b0c0d0e0f", "c", "0", "-", "N", "0"}

func RunNet(cases []reg.Case, out *reg.Out) {
	rig, err := newRig()
	if err != nil {
		fmt.Println("#harness-error mocknet:", err)
		return
	}
	probe := goBytes(probeDesc, false)
	probeMsg, _ := buildMsg(&toks{t: probeDesc}, false)
	probeNF := nf(probeMsg)
	for _, c := range cases {
		out.BeginCase(c)
		wantK, wantEnd := -1, ""
		for _, t := range strings.Fields(c.Header) {
			if strings.HasPrefix(t, "k=") {
				fmt.Sscanf(t, "k=%d", &wantK)
			}
			if strings.HasPrefix(t, "end=") {
				wantEnd = t[4:]
			}
		}
		for _, op := range c.Ops {
			if op[0] == "hash" {
				out.Line("ok")
				continue
			}
			if op[0] == "stall" && len(op) == 2 {
				b, err := unhx(op[1])
				if err != nil {
					out.Line("bad-op")
					continue
				}
				out.Cov("op:stall")
				out.Line("%s", rig.stall(out, b, probe, probeNF))
				continue
			}
			if op[0] != "net" || len(op) != 2 {
				out.Line("bad-op")
				continue
			}
			b, err := unhx(op[1])
			if err != nil {
				out.Line("bad-op")
				continue
			}
			out.Cov("op:net")
			dline, dpaths := streamLine(out, b)
			dmsgs := dpaths[0].msgs
			dend := "err"
			if strings.HasPrefix(dline, fmt.Sprintf("%d eof", len(dmsgs))) {
				dend = "eof"
			}
			rig.recv.take()
			how, err := rig.send(b)
			if err != nil {
				out.Fail("net-serve", "could not open a stream to the node: %v", err)
				out.Line("no-stream")
				continue
			}
			rig.settle(how == "reset", len(dmsgs))
			evs := rig.recv.take()
			var nfs []string
			errs, afterErr := 0, false
			for _, e := range evs {
				if e.isErr {
					errs++
					continue
				}
				if errs > 0 {
					afterErr = true
				}
				checkDelivered(out, e.msg)
				nfs = append(nfs, nf(e.msg))
			}
			end := "eof"
			if errs > 0 {
				end = "err"
			}
			out.Cov("net:end-" + end)
			out.Cov("net:stream-" + how)
			out.CovN("net:delivered", len(nfs))
			if errs > 1 {
				out.Fail("net-error-report", "%d ReceiveError calls for one stream", errs)
			}
			if afterErr {
				out.Fail("net-after-error", "a message was delivered after the stream's receive error")
			}
			if (errs > 0) != (how == "reset") {
				out.Fail("net-error-report", "ReceiveError calls: %d, but the stream was %s", errs, how)
			}
			// C12: "a malformed message is reported as a receive error and its stream is reset" --
			// what is malformed is decided by the decoder itself, asked directly (successive FromNet
			// calls on the same bytes, a code path that does not go through handleNewStream's error
			// test): every message it yields must have been delivered, and if it stops with anything
			// but a bare end of input, the stream must have been reset with one ReceiveError.
			if len(nfs) != len(dmsgs) {
				out.Fail("net-malformed", "the decoder yields %d messages for these bytes, the stream handler delivered %d", len(dmsgs), len(nfs))
			}
			if dend != end {
				out.Fail("net-malformed", "the decoder ends these bytes with %s, the stream handler with %s (stream %s): a message that fails to decode must give one ReceiveError and a reset", dend, end, how)
			}
			if wantK >= 0 {
				if len(nfs) != wantK {
					out.Fail("net-malformed", "stream built from %d valid frames: %d messages delivered", wantK, len(nfs))
				}
				if wantEnd != "" && wantEnd != end {
					out.Fail("net-malformed", "stream expected to end with %s (malformed tail => receive error + reset): got %s, stream %s", wantEnd, end, how)
				}
			}
			rig.mu.Lock()
			pn := rig.panics
			rig.panics = 0
			rig.mu.Unlock()
			if pn > 0 {
				out.Fail("panic", "%d panic(s) recovered in handleNewStream", pn)
			}
			// the node must still serve a new, valid stream
			how2, err := rig.send(probe)
			rig.settle(false, 1)
			ev2 := rig.recv.take()
			if err != nil || len(ev2) != 1 || ev2[0].isErr || nf(ev2[0].msg) != probeNF || how2 != "closed" {
				out.Fail("net-serve", "a valid message on a fresh stream was not served after the previous stream (err=%v events=%d stream=%s)", err, len(ev2), how2)
			}
			out.Line("%s", strings.Join(append([]string{fmt.Sprintf("%d %s", len(nfs), end)}, nfs...), " | "))
		}
	}
}

// GenNet: streams of valid frames with an optional malformed tail.
func GenNet(seed int64, n int, tier string, w *bufio.Writer) {
	r := rand.New(rand.NewSource(seed ^ 0x9e7))
	for i := 0; i < n; i++ {
		k := r.Intn(4)
		var all []byte
		var hints []string
		for j := 0; j < k; j++ {
			var fb []byte
			for fb == nil {
				m := smallMsg(r)
				fb = goBytes(m.toks(), r.Intn(2) == 0)
				if fb != nil {
					hints = append(hints, m.hints()...)
				}
			}
			all = append(all, fb...)
		}
		end, kind := "eof", "clean"
		var good []byte
		for good == nil {
			good = goBytes(smallMsg(r).toks(), false)
		}
		_, hl := binary.Uvarint(good)
		payload := good[hl:]
		switch r.Intn(22) {
		case 0, 1, 2:
			if k == 0 {
				kind = "empty"
			}
		case 3: // cut inside a frame's payload (at least one payload byte present)
			if len(payload) > 1 {
				all = append(all, good[:hl+1+r.Intn(len(payload)-1)]...)
				end, kind = "err", "truncated"
			}
		case 4: // only the length prefix of a frame, then the stream ends
			all = append(all, good[:hl]...)
			end, kind = "err", "header-only"
		case 5: // length prefix cut in the middle of the varint
			all = append(all, 0x80)
			end, kind = "err", "varint-cut"
		case 6:
			all = append(all, []byte{0x80, 0x80, 0x80, 0x80, 0x80, 0x80, 0x80, 0x80, 0x80, 0x80, 0x01}...)
			end, kind = "err", "varint-overlong"
		case 7: // announced size above the limit
			all = append(all, binary.AppendUvarint(nil, 1<<22+1)...)
			all = append(all, payload...)
			end, kind = "err", "oversize"
		case 8: // not CBOR
			all = append(all, frameOf([]byte{0xff, 0x00, 0x01})...)
			end, kind = "err", "not-cbor"
		case 9: // CBOR, not a graphsync message
			all = append(all, frameOf(Mp(kv("gs3", Mp())).enc(nil))...)
			end, kind = "err", "wrong-schema"
		case 10: // request id that is not a UUID
			all = append(all, frameOf(Mp(kv("gs2", Mp(kv("req", Ar(Mp(kv("id", Bs(rndBytes(r, 15))), kv("type", Tx("c")))))))).enc(nil))...)
			end, kind = "err", "bad-id"
		case 11: // empty frame
			all = append(all, 0x00)
			end, kind = "err", "zero-length"
		case 14, 15: // well-framed, well-formed CBOR, but a block whose CID prefix is empty / cut / garbage
			// (go-cid reports these as "invalid cid: EOF" / "unexpected EOF": errors WRAPPING io.EOF)
			pfx := [][]byte{{}, {0x01}, {0x01, 0x55}, {0x01, 0x55, 0x12}, {0x80}, {0x01, 0x55, 0x92}, {0x01, 0x80, 0x80},
				{0xff, 0xff, 0xff, 0xff, 0xff, 0xff, 0xff, 0xff, 0xff, 0xff}, {0x02, 0x55, 0x12, 0x20}, {0x01, 0x55, 0x7f, 0x20}}[r.Intn(10)]
			blk := Ar(Bs(pfx), Bs(rndBytes(r, r.Intn(20))))
			inner := Mp(kv("blk", Ar(blk)))
			if r.Intn(2) == 0 {
				inner = Mp(kv("blk", Ar(Ar(Bs([]byte{0x01, 0x55, 0x12, 0x20}), Bs([]byte("ok"))), blk)),
					kv("req", Ar(Mp(kv("id", Bs(rndBytes(r, 16))), kv("type", Tx("c"))))))
			}
			all = append(all, frameOf(Mp(kv("gs2", inner)).enc(nil))...)
			end, kind = "err", "bad-block-prefix"
		case 16: // other payload-level errors inside a complete frame: links with cut / empty CIDs, short ids
			c := rndCid(r).Bytes()
			bad := []*V{
				{K: 'b', B: append([]byte{0}, c[:len(c)/2]...), Tags: []uint64{42}},
				{K: 'b', B: []byte{0}, Tags: []uint64{42}},
				{K: 'b', B: []byte{0, 1}, Tags: []uint64{42}},
				{K: 'b', B: []byte{0, 1, 0x55, 0x12, 0x20, 1, 2, 3}, Tags: []uint64{42}},
			}[r.Intn(4)]
			all = append(all, frameOf(Mp(kv("gs2", Mp(kv("req", Ar(Mp(kv("id", Bs(rndBytes(r, 16))), kv("type", Tx("n")), kv("root", bad))))))).enc(nil))...)
			end, kind = "err", "bad-link"
		case 17, 18, 19: // a mutated encoding of a real message (what is expected is asked of the decoder)
			t, _ := parseTree(payload)
			if t != nil {
				kind = "mutated:" + mutateMessageTree(r, t)
				if r.Intn(3) == 0 {
					kind += "+" + mutateTree(r, t)
				}
				out := frameOf(t.enc(nil))
				if len(out) < 1<<16 {
					hints = append(hints, hintsForTree(t)...)
					all = append(all, out...)
					k, end = -1, ""
				} else {
					kind = "clean"
				}
			}
		case 20, 21: // a complete valid message FOLLOWED BY EXTRA BYTES inside the same frame
			var extra []byte
			switch r.Intn(3) {
			case 0:
				extra = []byte{0}
			case 1:
				extra = rndBytes(r, 1+r.Intn(6))
			default:
				extra = payload // a second message smuggled into the frame
			}
			all = append(all, frameOf(append(append([]byte{}, payload...), extra...))...)
			end, kind = "err", "trailing-in-frame"
		case 12, 13: // a complete frame whose DAG-CBOR content stops early (CBOR is prefix-free: never valid)
			if len(payload) > 1 {
				all = append(all, frameOf(payload[:1+r.Intn(len(payload)-1)])...)
				end, kind = "err", "cbor-cut"
			}
		}
		if i%50 == 1 {
			// a stream that stalls in the middle of a frame must not keep other streams from being served
			cut := hl
			if r.Intn(3) > 0 && len(payload) > 1 {
				cut = hl + 1 + r.Intn(len(payload)-1)
			}
			emit(w, "case n%d stall", i)
			emit(w, "stall %s", hx(good[:cut]))
			continue
		}
		if i == 0 {
			// one frame whose payload is exactly the size limit: must be delivered
			all = goBytes(sizedMessage(r, 1<<22).toks(), false)
			k, end, kind, hints = 1, "eof", "at-limit", nil
		}
		if k < 0 {
			emit(w, "case n%d %s", i, kind)
		} else {
			emit(w, "case n%d k=%d end=%s %s", i, k, end, kind)
		}
		for _, h := range hints {
			emit(w, "%s", h)
		}
		emit(w, "net %s", hx(all))
	}
}
