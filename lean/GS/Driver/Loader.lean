import GS.Model.Loader
import GS.Driver.Proto
import GS.Driver.LoaderCodec
/-! line-protocol driver for the reconciled-loader model (component `loader`).

ops:   new | put <cid>… | online 0|1 | ingest <items|-> <blocks|-> | load <cid> <path|-> | retry | cleanup
       items  = comma separated <cid><p|d|m|s>     blocks = comma separated <cid> or <key>=<content>
       path   = segments joined by '/'             any other line (lt / remote / note …) -> "-"
-/
namespace GS.Driver.Loader
open GS.Proto GS.Loader GS.Driver.LoaderCodec

def showResult (r : Result) : String :=
  let l := if r.loc then "L1" else "L0"
  let w := match r.write with
    | some (c, b) => s!" W{c}={b}"
    | none => ""
  match r.err, r.data with
  | some (.missing c p), _ => s!"missing {c} {showPath p} {l}{w}"
  | some (.incorrect a b p), _ => s!"incorrect {a} {b} {showPath p} {l}{w}"
  | some .extraData, _ => s!"extra {l}{w}"
  | some .nothingLeft, _ => s!"nothing {l}{w}"
  | some .retryNone, _ => s!"retrynone {l}{w}"
  | none, some b => s!"data {b} {l}{w}"
  | none, none => s!"nodata {l}{w}"

def showOut : OpOut → String
  | .ok none => "ok"
  | .ok (some r) => "ok | " ++ showResult r
  | .res (.done r) => showResult r
  | .res .blocked => "blocked"
  | .bad => "bad-op"

def parseOp (t : Toks) : Option (List Op) :=
  match t with
  | "put" :: cs => do let cs ← cs.mapM String.toNat?; pure (cs.map Op.put)
  | ["online", "0"] => some [.online false]
  | ["online", "1"] => some [.online true]
  | ["ingest", is, bs] => do pure [.ingest (← parseItems is) (← parseBlocks bs)]
  | ["load", c, p] => do pure [.load (← c.toNat?) (← parsePath p)]
  | ["retry"] => some [.retry]
  | ["cleanup"] => some [.cleanup]
  | _ => none

def stepLine (s : State) (t : Toks) : State × String :=
  match t with
  | "lt" :: _ | "remote" :: _ | "note" :: _ => (s, "-")
  | ["new"] => ({}, "ok")
  | _ =>
  match parseOp t with
  | none => (s, "bad-op")
  | some [op] => let (s', o) := step s op; (s', showOut o)
  | some ops => ((runOps s ops).1, "ok")       -- `put` with several cids

def handler (ops : List Toks) : List String :=
  let (_, outs) := ops.foldl (fun (acc : State × List String) t =>
    let (s', o) := stepLine acc.1 t
    (s', o :: acc.2)) ({}, [])
  outs.reverse

end GS.Driver.Loader

def main : IO Unit := GS.Proto.runModel GS.Driver.Loader.handler
