import GS.Model.PauseResume
import GSProofs.Lemmas.RequestorSteps
/-!
Safety of the requestor under pause / resume: for EVERY history of messages (stale or not, honest or
not, as long as block maps are hash-keyed), Pause and Unpause calls and hook pauses, the event stream
of the request is still a depth-first walk of the link tree (`Requestor.Steps`).
-/
namespace GS.C06
open GS.Loader GS.Requestor GS.PauseResume

/-- invariant of the paused model between two operations -/
structure PRInv (s : PState) : Prop where
  rinv  : RInv s.R
  ppend : s.paused = true → s.R.L.pending = none
  epend : s.pendingErr ≠ none → s.R.L.pending = none

/-- what a continuation (the rest of the executor loop) must guarantee -/
def GoodCont (cont : PState → PState × List Ev) : Prop :=
  ∀ s' : PState, Inv s'.R.L → s'.R.L.pending = none → s'.paused = false → s'.pendingErr = none →
    Steps s'.R.todo (cont s').2 (cont s').1.R.todo ∧ PRInv (cont s').1

theorem setOnline_false_inv {l : Loader.State} (h : Inv l) : Inv (Loader.setOnline l false) := h.setOnline false

theorem stopForPause_steps (s : PState) (hi : Inv s.R.L) (hp : s.R.L.pending = none) :
    Steps s.R.todo (stopForPause s).2 (stopForPause s).1.R.todo ∧ PRInv (stopForPause s).1 := by
  unfold stopForPause
  refine ⟨Steps.ctl _ rfl (Steps.done _), ⟨hi.setOnline false, ?_⟩, ?_, ?_⟩
  · intro p c h
    simp only at h
    rw [(setOnline_frame s.R.L false).1, hp] at h
    cases h
  · intro _
    simp only
    rw [(setOnline_frame s.R.L false).1]; exact hp
  · intro _
    simp only
    rw [(setOnline_frame s.R.L false).1]; exact hp

theorem afterLoad_steps (s : PState) (hi : Inv s.R.L) (hp : s.R.L.pending = none) (hnp : s.paused = false)
    (hpe : s.pendingErr = none) (b : Bool) (cont : PState → PState × List Ev) (hc : GoodCont cont) :
    Steps s.R.todo (afterLoad s b cont).2 (afterLoad s b cont).1.R.todo ∧ PRInv (afterLoad s b cont).1 := by
  unfold afterLoad
  cases hpc : pauseCheck s b with
  | mk p s1 =>
    have hs1 : s1 = { s with pauseTok := false } := by
      unfold pauseCheck at hpc
      simp only [Prod.mk.injEq] at hpc
      exact hpc.2.symm
    subst hs1
    cases p with
    | true => simp only; exact stopForPause_steps { s with pauseTok := false } hi hp
    | false => simp only; exact hc { s with pauseTok := false } hi hp hnp hpe

theorem writeEvs_of_err {n : LNode} {res : Result} (hf : LoadFact n res) (e : LoadErr) (he : res.err = some e) :
    writeEvs res = [] := by
  unfold writeEvs
  cases hw : res.write with
  | none => rfl
  | some w =>
    have := hf.werr (by rw [hw]; simp)
    rw [he] at this
    cases this

theorem afterResult_steps (s : PState) (hi : Inv s.R.L) (hp : s.R.L.pending = none) (hnp : s.paused = false)
    (hpe : s.pendingErr = none) (n : LNode) (rest : LT) (res : Result) (hf : LoadFact n res)
    (htodo : s.R.todo = n :: rest) (ev1 : List Ev) (hev1 : ∀ e ∈ ev1, e.isCtl = true)
    (cont : PState → PState × List Ev) (hc : GoodCont cont) :
    Steps (n :: rest) (afterResult s n rest res ev1 cont).2 (afterResult s n rest res ev1 cont).1.R.todo ∧
    PRInv (afterResult s n rest res ev1 cont).1 := by
  unfold afterResult
  cases hew : endsWith s n res with
  | some ee =>
    obtain ⟨e', e⟩ := ee
    simp only
    -- the load failed: no write, only control events
    have herr : res.err = some e := by
      unfold endsWith at hew
      split at hew
      · cases hew
      · cases hr : res.err with
        | none => simp [hr] at hew
        | some e0 =>
          simp only [hr] at hew
          split at hew
          · simp only [Option.some.injEq, Prod.mk.injEq] at hew; rw [hew.2]
          · cases hew
    have hw : writeEvs res = [] := writeEvs_of_err hf e herr
    rw [hw]
    have hctl0 : ∀ x ∈ ev1 ++ [] ++ [Ev.err (RErr.load e)], x.isCtl = true := by
      intro x hx
      simp only [List.append_nil, List.mem_append, List.mem_singleton] at hx
      rcases hx with hx | hx
      · exact hev1 x hx
      · subst hx; rfl
    cases hpc : pauseCheck s false with
    | mk p s1 =>
      have hs1 : s1 = { s with pauseTok := false } := by
        unfold pauseCheck at hpc
        simp only [Prod.mk.injEq] at hpc
        exact hpc.2.symm
      subst hs1
      cases p with
      | true =>
        simp only
        have hs := stopForPause_steps { s with pauseTok := false, pendingErr := some e' } hi hp
        refine ⟨?_, hs.2⟩
        have h1 : Steps (n :: rest) (ev1 ++ [] ++ [Ev.err (RErr.load e)]) (n :: rest) := Steps.ctls _ hctl0
        have h2 := hs.1
        simp only at h2
        rw [htodo] at h2
        exact Steps.append h1 h2
      | false =>
        simp only
        have hfw := failWith_spec s.R e'
        refine ⟨?_, ⟨?_, ?_⟩, ?_, ?_⟩
        · rw [hfw.2.1, htodo]
          exact Steps.append (Steps.ctls _ hctl0) (Steps.ctls _ hfw.1)
        · simp only; rw [hfw.2.2.1]; exact (hi.setOnline false).cleanup
        · intro p c h
          simp only at h
          rw [hfw.2.2.1] at h
          change (Loader.setOnline s.R.L false).pending = _ at h
          rw [(setOnline_frame s.R.L false).1, hp] at h
          cases h
        · intro h; simp [hnp] at h
        · intro h; simp [hpe] at h
  | none =>
    simp only
    have hh := handle_steps s.R n rest res hf htodo
    cases hhd : handle s.R n rest res with
    | mk r2 rest2 =>
      obtain ⟨evs, go⟩ := rest2
      rw [hhd] at hh
      obtain ⟨hst, hla, hfalse, _⟩ := hh
      simp only at hst hla hfalse
      have hi2 : Inv r2.L := hla.inv hi
      have hp2 : r2.L.pending = none := by rw [hla.pending]; exact hp
      have hpre : Steps (n :: rest) (ev1 ++ evs) r2.todo := Steps.append (Steps.ctls _ hev1) hst
      cases go with
      | true =>
        simp only
        have := afterLoad_steps { s with R := r2 } hi2 hp2 hnp hpe res.err.isNone cont hc
        exact ⟨Steps.append hpre this.1, this.2⟩
      | false =>
        simp only
        exact ⟨hpre, ⟨hi2, fun p c h => by simp only at h; rw [hp2] at h; cases h⟩,
          fun h => by simp [hnp] at h, fun h => by simp [hpe] at h⟩

theorem driveP_steps : ∀ (fuel : Nat) (s : PState), Inv s.R.L → s.R.L.pending = none →
    Steps s.R.todo (driveP fuel s).2 (driveP fuel s).1.R.todo ∧ PRInv (driveP fuel s).1 := by
  intro fuel
  induction fuel with
  | zero =>
    intro s hi hp
    exact ⟨Steps.done _, ⟨hi, fun p c h => by simp [driveP] at h; rw [hp] at h; cases h⟩, fun _ => hp, fun _ => hp⟩
  | succ fuel ih =>
    intro s hi hp
    have hbase : PRInv s := ⟨⟨hi, fun p c h => by rw [hp] at h; cases h⟩, fun _ => hp, fun _ => hp⟩
    rw [driveP]
    by_cases hg : (s.R.phase != Phase.running || s.paused) = true
    · rw [if_pos hg]; exact ⟨Steps.done _, hbase⟩
    · rw [if_neg hg]
      have hnp : s.paused = false := by
        cases hpz : s.paused with
        | false => rfl
        | true => simp [hpz] at hg
      cases hpe : s.pendingErr with
      | some e' =>
        simp only
        have hfw := failWith_spec s.R e'
        refine ⟨?_, ⟨?_, ?_⟩, ?_, ?_⟩
        · rw [hfw.2.1]; exact Steps.ctls _ hfw.1
        · simp only; rw [hfw.2.2.1]; exact (hi.setOnline false).cleanup
        · intro p c h
          simp only at h
          rw [hfw.2.2.1] at h
          change (Loader.setOnline s.R.L false).pending = _ at h
          rw [(setOnline_frame s.R.L false).1, hp] at h
          cases h
        · intro h; simp [hnp] at h
        · intro h; simp at h
      | none =>
        simp only
        cases htodo : s.R.todo with
        | nil =>
          simp only
          have hf := finish_spec s.R
          refine ⟨?_, ⟨?_, ?_⟩, ?_, ?_⟩
          · rw [hf.2.1, htodo]; exact Steps.ctls _ hf.1
          · simp only; rw [hf.2.2.1]; exact hi.cleanup
          · intro p c h
            simp only at h
            rw [hf.2.2.1] at h
            change s.R.L.pending = _ at h
            rw [hp] at h; cases h
          · intro h; simp [hnp] at h
          · intro h; simp [hpe] at h
        | cons n rest =>
          simp only
          have hn := loadNode_spec s.R n hi
          cases hln : loadNode s.R n with
          | mk r1 rest1 =>
            obtain ⟨ev1, ores⟩ := rest1
            rw [hln] at hn
            obtain ⟨hi1, htd1, _, hctl1, hnone, hsome⟩ := hn
            simp only at hi1 htd1 hctl1 hnone hsome
            cases ores with
            | none =>
              simp only
              refine ⟨?_, ⟨hi1, ?_⟩, ?_, ?_⟩
              · rw [htd1, htodo]; exact Steps.ctls _ hctl1
              · intro p c h
                simp only at h
                rw [hnone rfl] at h
                simp only [Option.some.injEq, Prod.mk.injEq] at h
                exact ⟨n, rest, by simp only; rw [htd1, htodo], h.2, h.1⟩
              · intro h; simp [hnp] at h
              · intro h; simp [hpe] at h
            | some res =>
              simp only
              obtain ⟨hp1, hfact⟩ := hsome res rfl
              have := afterResult_steps
                ({ R := r1, paused := s.paused, pauseTok := s.pauseTok, hookAt := s.hookAt } : PState)
                hi1 hp1 hnp rfl n rest res hfact
                (by simp only; rw [htd1, htodo]) ev1 hctl1 (driveP fuel)
                (fun s' hi' hp' _ _ => ih s' hi' hp')
              exact this

theorem resumeP_steps (s : PState) (h : PRInv s) (hnp : s.paused = false) (hpe : s.pendingErr = none) :
    Steps s.R.todo (resumeP s).2 (resumeP s).1.R.todo ∧ PRInv (resumeP s).1 := by
  obtain ⟨⟨L, todo, phase, rs, nb, us, cc, te⟩, paused, tok, hookAt, pend⟩ := s
  simp only at hnp hpe
  subst hnp; subst hpe
  have hw := wake_spec L h.rinv.linv
  unfold resumeP
  simp only
  cases hpd : L.pending with
  | none =>
    rw [wake_none L hpd]
    exact ⟨Steps.done _, h⟩
  | some pc =>
    obtain ⟨p, c⟩ := pc
    obtain ⟨n, rest, htodo, hc, hpth⟩ := h.rinv.pend p c hpd
    simp only at htodo
    subst htodo; subst hc; subst hpth
    have hws := wake_some L n.path n.cid hpd
    have hrp := run_pending L n.path n.cid
    have hrm := run_missing L n.path n.cid
    cases hrun : Loader.run L n.path n.cid with
    | mk l1 out =>
      rw [hrun] at hrp hrm
      cases out with
      | blocked =>
        rw [hws.2 l1 hrun] at hw ⊢
        simp only
        refine ⟨Steps.done _, ⟨hw.1, ?_⟩, fun hh => by simp at hh, fun hh => by simp at hh⟩
        intro p c hh
        simp only at hh
        rw [hrp.1 rfl] at hh
        simp only [Option.some.injEq, Prod.mk.injEq] at hh
        exact ⟨n, rest, rfl, hh.2, hh.1⟩
      | done r =>
        rw [hws.1 r l1 hrun] at hw ⊢
        obtain ⟨hi1, p', c', hpc, hsh⟩ := hw
        rw [hpd] at hpc
        simp only [Option.some.injEq, Prod.mk.injEq] at hpc
        obtain ⟨rfl, rfl⟩ := hpc
        simp only at hi1 hsh
        have hfact : LoadFact n r := LoadFact.ofShape hsh (hrm r rfl)
        simp only
        exact afterResult_steps
          ({ R := ⟨l1, n :: rest, phase, rs, nb, us, cc, te⟩, paused := false, pauseTok := tok, hookAt := hookAt } : PState)
          hi1 (hrp.2 r rfl).1 rfl rfl n rest r hfact rfl [] (by simp) (fun s' => driveP (fuelFor s'.R) s')
          (fun s' hi' hp' _ _ => driveP_steps _ s' hi' hp')

theorem deliver_steps (s : PState) (h : PRInv s) (f k : Bool) (status : Nat)
    (md : List (Cid × Action)) (bl : List (Cid × Blk)) (hwk : WellKeyed bl) :
    Steps s.R.todo (deliver s f k status md bl).2 (deliver s f k status md bl).1.R.todo ∧
    PRInv (deliver s f k status md bl).1 := by
  unfold deliver
  split
  · exact ⟨Steps.done _, h⟩
  · have hing : Inv (Loader.ingest s.R.L md bl) := h.rinv.linv.ingest md bl hwk
    have hpi : (Loader.ingest s.R.L md bl).pending = s.R.L.pending := (ingest_frame s.R.L md bl).1
    have hs := applyStatus_spec { s.R with L := Loader.ingest s.R.L md bl } status
    have hrinv : RInv (applyStatus { s.R with L := Loader.ingest s.R.L md bl } status) := by
      rcases hs.2 with hL | hL
      · refine ⟨by rw [hL]; exact hing, ?_⟩
        intro p c hh
        rw [hL] at hh
        rw [hs.1]
        exact h.rinv.pend p c (by rw [← hpi]; exact hh)
      · refine ⟨by rw [hL]; exact hing.setOnline false, ?_⟩
        intro p c hh
        rw [hL, (setOnline_frame _ false).1] at hh
        rw [hs.1]
        exact h.rinv.pend p c (by rw [← hpi]; exact hh)
    have hpend : (applyStatus { s.R with L := Loader.ingest s.R.L md bl } status).L.pending = s.R.L.pending := by
      rcases hs.2 with hL | hL
      · rw [hL]; exact hpi
      · rw [hL, (setOnline_frame _ false).1]; exact hpi
    simp only
    by_cases hp : s.paused = true
    · rw [if_pos hp]
      split
      · -- a terminal failure terminates the paused request
        have hf := finish_spec (applyStatus { s.R with L := Loader.ingest s.R.L md bl } status)
        refine ⟨?_, ⟨?_, ?_⟩, ?_, ?_⟩
        · simp only; rw [hf.2.1, hs.1]; exact Steps.ctls _ hf.1
        · simp only; rw [hf.2.2.1]; exact hrinv.linv.cleanup
        · intro p c hh
          simp only at hh
          rw [hf.2.2.1] at hh
          change (applyStatus _ status).L.pending = _ at hh
          rw [hpend, h.ppend hp] at hh
          cases hh
        · intro hh; simp at hh
        · intro hh
          simp only
          rw [hf.2.2.1]
          change (applyStatus _ status).L.pending = _
          rw [hpend]; exact h.ppend hp
      · refine ⟨?_, ⟨hrinv, ?_, ?_⟩⟩
        · simp only; rw [hs.1]; exact Steps.done _
        · intro _; simp only; rw [hpend]; exact h.ppend hp
        · intro hh; simp only; rw [hpend]; exact h.ppend hp
    · have hnp : s.paused = false := by simpa using hp
      rw [if_neg hp]
      by_cases hpe : s.pendingErr = none
      · have := resumeP_steps { s with R := applyStatus { s.R with L := Loader.ingest s.R.L md bl } status }
          ⟨hrinv, fun hh => by simp [hnp] at hh, fun hh => by simp [hpe] at hh⟩ hnp hpe
        simp only at this
        rw [hs.1] at this
        exact this
      · -- not paused, but the traversal end is pending: cannot happen between operations (the executor
        -- runs on until it parks, pauses or ends); the statement still holds
        have hpn := h.epend hpe
        unfold resumeP
        have hpn' : (applyStatus { s.R with L := Loader.ingest s.R.L md bl } status).L.pending = none := by
          rw [hpend]; exact hpn
        simp only
        rw [wake_none _ hpn']
        simp only
        refine ⟨?_, ⟨?_, ?_, ?_⟩⟩
        · rw [hs.1]; exact Steps.done _
        · exact ⟨hrinv.linv, fun p c hh => by simp only at hh; rw [hpn'] at hh; cases hh⟩
        · intro hh; simp [hnp] at hh
        · intro _; simp only; exact hpn'

theorem step_steps (s : PState) (h : PRInv s) (o : PauseResume.Op)
    (hwk : ∀ m, o = .msg m → WellKeyed m.blocks) :
    Steps s.R.todo (PauseResume.step s o).2 (PauseResume.step s o).1.R.todo ∧ PRInv (PauseResume.step s o).1 := by
  cases o with
  | msg m => exact deliver_steps s h _ _ _ _ _ (hwk m rfl)
  | pause =>
    unfold PauseResume.step pauseApi
    simp only
    split
    · exact ⟨Steps.done _, h⟩
    · exact ⟨Steps.done _, ⟨h.rinv, fun hh => h.ppend hh, fun hh => h.epend hh⟩⟩
  | unpause =>
    unfold PauseResume.step PauseResume.unpause
    simp only
    split
    · exact ⟨Steps.done _, h⟩
    · rename_i hg
      have hp : s.paused = true := by
        cases hpz : s.paused with
        | true => rfl
        | false => simp [hpz] at hg
      exact driveP_steps _ { s with paused := false, R := { s.R with requestSent := false } } h.rinv.linv (h.ppend hp)

theorem run_steps : ∀ (ops : List PauseResume.Op) (s : PState), PRInv s →
    (∀ m, PauseResume.Op.msg m ∈ ops → WellKeyed m.blocks) →
    Steps s.R.todo (PauseResume.run s ops).2 (PauseResume.run s ops).1.R.todo ∧ PRInv (PauseResume.run s ops).1 := by
  intro ops
  induction ops with
  | nil => intro s h _; exact ⟨Steps.done _, h⟩
  | cons o rest ih =>
    intro s h hwk
    simp only [PauseResume.run]
    have h1 := step_steps s h o (fun m hm => hwk m (by rw [hm]; exact List.mem_cons_self ..))
    have h2 := ih _ h1.2 (fun m hm => hwk m (List.mem_cons_of_mem _ hm))
    exact ⟨Steps.append h1.1 h2.1, h2.2⟩

theorem exchange_steps_paused (st : List (Cid × Blk)) (hst : HonestStore st) (lt : LT) (u : Nat)
    (hookAt : List Nat) (ops : List PauseResume.Op)
    (hwk : ∀ m, PauseResume.Op.msg m ∈ ops → WellKeyed m.blocks) :
    Steps lt (PauseResume.exchange st lt u hookAt ops).2 (PauseResume.exchange st lt u hookAt ops).1.R.todo := by
  unfold PauseResume.exchange PauseResume.request
  simp only
  have hi : Inv ({ store := st } : Loader.State) := ⟨by simp, by simp, hst⟩
  have h1 := driveP_steps (fuelFor { ({ L := { store := st } } : Requestor.State) with todo := lt, phase := .running, userSkip := u })
    { R := { ({ L := { store := st } } : Requestor.State) with todo := lt, phase := .running, userSkip := u }, hookAt := hookAt }
    hi rfl
  have h2 := run_steps ops _ h1.2 hwk
  exact Steps.append h1.1 h2.1

end GS.C06
