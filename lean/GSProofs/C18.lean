import GSProofs.Lemmas.PublisherIntervals
/-!
# C18 — Event publisher delivers each topic's events in order, then closes once

"Each subscriber receives, in publication order, exactly the events published on a topic after it
subscribed and before the topic was closed, it unsubscribed, or the publisher shut down, and is
told exactly once per subscription that the subscription has ended.  Nothing is delivered to it
afterwards."

Model: `GS/Model/Publisher.lean` (registry with both maps, the `start` loop, the final sweep, the
client-side `closed` flag).  All theorems quantify over **every command list** and over **every
trace the Go code can produce** for it: `Trace cmds tr` allows an arbitrary iteration order at
every `range` over a Go map (`GoRun`); the executable model `run` is one such trace
(`run_is_trace`).  Everything is stated per (subscriber `s`, topic `t`) on `proj s t tr`, the
subsequence of callbacks made to `s` about `t` — every callback belongs to exactly one such
projection, so the family of projections describes the whole trace up to the interleaving of
different subscribers/topics (which comes from map iteration order and is not promised).

Vocabulary (definitions in `GSProofs/Lemmas/PublisherSpec.lean`):
* `isEnd s t c`      : `c` is `closeTopic t`, `unsubAll s` or `shutdown`;
* `Subscribed s t pre`: `pre = a ++ subscribe t s :: b` with no end of (s,t) in `b` and no
  shutdown in `a` — "s subscribed to t and the subscription has not ended";
* `specFrom s t act cmds` / `activeAfter`: the same thing as a recursive automaton.

Helper lemmas live in `GSProofs/Lemmas/Publisher*.lean`.
-/
namespace GS.C18
open GS.Publisher

/-- `tr` is a callback trace of the publisher goroutine consuming the queue `cmds` from the empty
    registry, for some iteration order of every map range. -/
abbrev Trace (cmds : List Cmd) (tr : List Callback) : Prop := GoRun Registry.empty cmds tr

/-- The executable model (compared with the real code by the correspondence check) is one of the
    traces the theorems talk about. -/
theorem run_is_trace (cmds : List Cmd) : Trace cmds (run cmds) := goRun_runFrom _ cmds

/-- **Main theorem.**  For every command list, every Go trace, every subscriber and topic: what
    `s` sees about `t` is exactly the output of the interval automaton on the command list
    (events published while subscribed, in order; one OnClose at each end; nothing else). -/
theorem trace_eq_spec {cmds tr} (h : Trace cmds tr) (s : Sub) (t : Topic) :
    proj s t tr = specFrom s t false cmds := by
  have := goRun_spec h Registry.inv_empty s t
  simpa [Registry.not_mem_empty] using this

/-- The automaton's "subscribed" flag after a prefix is the declarative `Subscribed`. -/
theorem subscribed_iff {s t} {pre : List Cmd} (hp : Cmd.shutdown ∉ pre) :
    activeAfter s t false pre = true ↔ Subscribed s t pre := activeAfter_false_iff hp

/-- **One more command** (the inductive characterisation of all traces): processing `c` after
    `pre` appends to what `s` sees about `t` exactly `stepSpec`'s verdict. -/
theorem step {pre : List Cmd} {c : Cmd} {tr tr'} (hp : Cmd.shutdown ∉ pre)
    (h : Trace pre tr) (h' : Trace (pre ++ [c]) tr') (s : Sub) (t : Topic) :
    proj s t tr' = proj s t tr ++ specFrom s t (activeAfter s t false pre) [c] := by
  rw [trace_eq_spec h', trace_eq_spec h, specFrom_append hp]

/-- **exact (delivery).**  A `publish t e` processed while `s` is subscribed to `t` delivers
    exactly `OnNext(t, e)` to `s`, after everything delivered before ("in publication order"). -/
theorem exact_delivered {pre : List Cmd} {t : Topic} {e : Ev} {tr tr'} (hp : Cmd.shutdown ∉ pre)
    (h : Trace pre tr) (h' : Trace (pre ++ [Cmd.publish t e]) tr') {s : Sub}
    (hs : Subscribed s t pre) :
    proj s t tr' = proj s t tr ++ [Callback.onNext s t e] := by
  rw [step hp h h', (subscribed_iff hp).2 hs]; simp [specFrom, stepSpec]

/-- **exact (nothing else).**  A `publish t0 e` delivers nothing to `s` about `t` when `s` is not
    subscribed to `t`, or when `t ≠ t0`. -/
theorem exact_not_delivered {pre : List Cmd} {t0 : Topic} {e : Ev} {tr tr'} (hp : Cmd.shutdown ∉ pre)
    (h : Trace pre tr) (h' : Trace (pre ++ [Cmd.publish t0 e]) tr') {s : Sub} {t : Topic}
    (hs : ¬ Subscribed s t pre ∨ t0 ≠ t) :
    proj s t tr' = proj s t tr := by
  rw [step hp h h']
  rcases hs with hs | hs
  · have : activeAfter s t false pre = false := by
      rw [← Bool.not_eq_true, subscribed_iff hp]; exact hs
    simp [this, specFrom, stepSpec]
  · simp [specFrom, stepSpec, hs]

/-- **close_once.**  An end of the subscription (`closeTopic t`, `unsubAll s`, `shutdown`)
    processed while `s` is subscribed to `t` produces exactly one `OnClose(t)` to `s`, after all
    events of the subscription, and `s` is no longer subscribed afterwards. -/
theorem close_once {pre : List Cmd} {c : Cmd} {tr tr'} (hp : Cmd.shutdown ∉ pre)
    (h : Trace pre tr) (h' : Trace (pre ++ [c]) tr') {s : Sub} {t : Topic}
    (hc : isEnd s t c = true) (hs : Subscribed s t pre) :
    proj s t tr' = proj s t tr ++ [Callback.onClose s t] ∧ ¬ Subscribed s t (pre ++ [c]) := by
  constructor
  · rw [step hp h h', (subscribed_iff hp).2 hs, specFrom_true_end hc]; simp [specFrom]
  · by_cases hsd : c = Cmd.shutdown
    · subst hsd; exact not_subscribed_of_shutdown_mem (by simp)
    · have hp' : Cmd.shutdown ∉ pre ++ [c] := by
        simp only [List.mem_append, List.mem_singleton, not_or]; exact ⟨hp, fun e => hsd e.symm⟩
      rw [← subscribed_iff hp', activeAfter_append]
      simp only [activeAfter, stepSpec_fst s t _ c hsd, hc]
      have : c ≠ Cmd.subscribe t s := by rintro rfl; simp [isEnd] at hc
      simp [this]

/-- **close_once (no spurious close)** and **silent_after.**  While `s` is not subscribed to `t`
    — never subscribed, or after the OnClose of `close_once` and before a new `subscribe t s` —
    no command whatsoever makes a callback to `s` about `t`. -/
theorem silent_after {pre : List Cmd} {c : Cmd} {tr tr'} (hp : Cmd.shutdown ∉ pre)
    (h : Trace pre tr) (h' : Trace (pre ++ [c]) tr') {s : Sub} {t : Topic}
    (hs : ¬ Subscribed s t pre) :
    proj s t tr' = proj s t tr := by
  have hf : activeAfter s t false pre = false := by
    rw [← Bool.not_eq_true, subscribed_iff hp]; exact hs
  rw [step hp h h', hf]
  cases c <;> simp [specFrom, stepSpec]

/-- … and only `subscribe t s` itself can make `s` subscribed to `t` again. -/
theorem unsubscribed_persists {pre : List Cmd} {c : Cmd} {s : Sub} {t : Topic} (hp : Cmd.shutdown ∉ pre)
    (hs : ¬ Subscribed s t pre) (hc : c ≠ Cmd.subscribe t s) : ¬ Subscribed s t (pre ++ [c]) := by
  by_cases hsd : c = Cmd.shutdown
  · subst hsd; exact not_subscribed_of_shutdown_mem (by simp)
  · have hp' : Cmd.shutdown ∉ pre ++ [c] := by
      simp only [List.mem_append, List.mem_singleton, not_or]; exact ⟨hp, fun e => hsd e.symm⟩
    rw [← subscribed_iff hp', activeAfter_append]
    have hf : activeAfter s t false pre = false := by
      rw [← Bool.not_eq_true, subscribed_iff hp]; exact hs
    rw [hf]
    simp only [activeAfter, stepSpec_fst s t false c hsd]
    simp [hc]

/-- A command that is neither a publish on `t` nor an end of (s,t) makes no callback to `s` about
    `t` even while subscribed (in particular `subscribe` itself is silent). -/
theorem silent_otherwise {pre : List Cmd} {c : Cmd} {tr tr'} (hp : Cmd.shutdown ∉ pre)
    (h : Trace pre tr) (h' : Trace (pre ++ [c]) tr') {s : Sub} {t : Topic}
    (hc : isEnd s t c = false) (hpub : ∀ e, c ≠ Cmd.publish t e) :
    proj s t tr' = proj s t tr := by
  rw [step hp h h']
  cases c with
  | subscribe t' s' => simp [specFrom, stepSpec]
  | publish t' e =>
    have : ¬ t' = t := fun x => hpub e (by rw [x])
    simp [specFrom, stepSpec, this]
  | closeTopic t' =>
    have : (t' == t) = false := by simpa [isEnd] using hc
    simp [specFrom, stepSpec, this]
  | unsubAll s' =>
    have : (s' == s) = false := by simpa [isEnd] using hc
    simp [specFrom, stepSpec, this]
  | shutdown => simp [isEnd] at hc

/-- **Whole subscription, ended.**  If the queue is `a ++ subscribe t s :: b ++ e :: rest`, with no
    end of (s,t) in `b` and `e` an end, then `s` sees about `t`: what it saw for `a`, then exactly
    the events published on `t` in `b`, in order, then one `OnClose(t)`, then whatever the rest
    produces starting unsubscribed (nothing at all if `e` was the shutdown). -/
theorem interval_closed {a b rest : List Cmd} {e : Cmd} {s : Sub} {t : Topic} {tra tr}
    (ha : Cmd.shutdown ∉ a) (hb : ∀ c ∈ b, isEnd s t c = false) (he : isEnd s t e = true)
    (h : Trace a tra) (h' : Trace (a ++ Cmd.subscribe t s :: (b ++ e :: rest)) tr) :
    proj s t tr = proj s t tra ++ (pubsOn t b).map (Callback.onNext s t) ++
      Callback.onClose s t :: specFrom s t false (if e = Cmd.shutdown then [] else rest) := by
  rw [trace_eq_spec h', trace_eq_spec h, specFrom_append ha,
    specFrom_cons_of_ne (by simp : Cmd.subscribe t s ≠ Cmd.shutdown)]
  have : (stepSpec s t (activeAfter s t false a) (Cmd.subscribe t s)).1 = true := by simp [stepSpec]
  rw [this, specFrom_true_noend hb, specFrom_true_end he]
  simp [stepSpec]

/-- **Whole subscription, still open** (no end yet, goroutine still running): the events published
    on `t` since the subscribe, in order, and no OnClose. -/
theorem interval_open {a b : List Cmd} {s : Sub} {t : Topic} {tra tr}
    (ha : Cmd.shutdown ∉ a) (hb : ∀ c ∈ b, isEnd s t c = false)
    (h : Trace a tra) (h' : Trace (a ++ Cmd.subscribe t s :: b) tr) :
    proj s t tr = proj s t tra ++ (pubsOn t b).map (Callback.onNext s t) := by
  rw [trace_eq_spec h', trace_eq_spec h, specFrom_append ha,
    specFrom_cons_of_ne (by simp : Cmd.subscribe t s ≠ Cmd.shutdown)]
  have : (stepSpec s t (activeAfter s t false a) (Cmd.subscribe t s)).1 = true := by simp [stepSpec]
  have hb' := specFrom_true_noend hb ([] : List Cmd)
  rw [List.append_nil] at hb'
  rw [this, hb']
  simp [stepSpec, specFrom]

/-- **Set semantics of `add`.**  Subscribing an already subscribed (t,s) again is the same
    subscription: dropping the second `subscribe t s` from the queue changes nothing that any
    subscriber sees about any topic (no second stream of events, no second OnClose). -/
theorem resubscribe_is_one_subscription {pre post : List Cmd} {s : Sub} {t : Topic} {tr tr'}
    (hp : Cmd.shutdown ∉ pre) (hs : Subscribed s t pre)
    (h : Trace (pre ++ Cmd.subscribe t s :: post) tr) (h' : Trace (pre ++ post) tr')
    (s' : Sub) (t' : Topic) : proj s' t' tr = proj s' t' tr' := by
  rw [trace_eq_spec h, trace_eq_spec h', specFrom_append hp, specFrom_append hp,
    specFrom_cons_of_ne (by simp : Cmd.subscribe t s ≠ Cmd.shutdown)]
  by_cases e : t = t' ∧ s = s'
  · obtain ⟨e1, e2⟩ := e; subst e1; subst e2
    rw [(subscribed_iff hp).2 hs]; simp [stepSpec]
  · have : (t == t' && s == s') = false := by
      rw [Bool.and_eq_false_iff]; simp only [beq_eq_false_iff_ne]
      by_cases e1 : t = t'
      · exact Or.inr (fun e2 => e ⟨e1, e2⟩)
      · exact Or.inl e1
    simp [stepSpec, this]

/-- **after_shutdown_noop (goroutine).**  Whatever is still queued behind the shutdown command is
    never processed: the traces of `pre ++ shutdown :: post` are those of `pre ++ [shutdown]`. -/
theorem after_shutdown_noop (pre post : List Cmd) (tr : List Callback) :
    Trace (pre ++ Cmd.shutdown :: post) tr ↔ Trace (pre ++ [Cmd.shutdown]) tr := by
  unfold Trace
  generalize Registry.empty = r
  induction pre generalizing r tr with
  | nil =>
    constructor
    · intro h; cases h with
      | shutdown _ _ ps hp => exact GoRun.shutdown r [] ps hp
      | step _ _ _ _ _ _ hs _ => cases hs
    · intro h; cases h with
      | shutdown _ _ ps hp => exact GoRun.shutdown r post ps hp
      | step _ _ _ _ _ _ hs _ => cases hs
  | cons c pre ih =>
    constructor
    · intro h; cases h with
      | shutdown _ _ ps hp => exact GoRun.shutdown r _ ps hp
      | step _ _ r' o _ os hs hr => exact GoRun.step r c r' o _ os hs ((ih (r := r') (tr := os)).1 hr)
    · intro h; cases h with
      | shutdown _ _ ps hp => exact GoRun.shutdown r _ ps hp
      | step _ _ r' o _ os hs hr => exact GoRun.step r c r' o _ os hs ((ih (r := r') (tr := os)).2 hr)

/-- **Nothing afterwards (shutdown).**  Once a shutdown has been processed, no further command
    makes any callback to anybody. -/
theorem silent_after_shutdown {pre : List Cmd} {c : Cmd} {tr tr'} (hp : Cmd.shutdown ∈ pre)
    (h : Trace pre tr) (h' : Trace (pre ++ [c]) tr') (s : Sub) (t : Topic) :
    proj s t tr' = proj s t tr := by
  rw [trace_eq_spec h', trace_eq_spec h, specFrom_append_of_shutdown_mem hp]

/-- the same for the executable model -/
theorem run_after_shutdown (pre post : List Cmd) :
    run (pre ++ Cmd.shutdown :: post) = run (pre ++ [Cmd.shutdown]) := by
  unfold run
  generalize Registry.empty = r
  induction pre generalizing r with
  | nil => rfl
  | cons c pre ih => cases c <;> simp [runFrom, ih]

/-- **after_shutdown_noop (client side).**  The queue built by any sequence of API calls is
    `queued apis`: the commands of the calls up to and including the first `Shutdown`; every later
    call (including a second `Shutdown`) finds `closed` set and queues nothing.  The callbacks of
    the whole system are those of the goroutine consuming that queue — provided `Startup` is called
    at some point (before, between or after the other calls); without `Startup` nothing is
    delivered. -/
theorem exec_eq (apis : List Api) :
    Sys.exec {} apis = if Api.startup ∈ apis then run (queued apis) else [] := by
  have := exec_not_started [] false apis
  simp only [List.nil_append, queuedC, Bool.false_eq_true, if_false] at this
  rw [this]
  split
  · exact feed_eq_runFrom Registry.empty (queued apis)
  · rfl

/-- nothing is queued behind a shutdown, and at most one shutdown is queued -/
theorem queued_shutdown_last (apis : List Api) :
    ∀ pre post, queued apis = pre ++ Cmd.shutdown :: post → post = [] ∧ Cmd.shutdown ∉ pre := by
  induction apis with
  | nil => intro pre post h; simp [queued] at h
  | cons a rest ih =>
    intro pre post h
    cases a with
    | shutdown =>
      simp only [queued] at h
      cases pre with
      | nil => simp at h; exact ⟨h, by simp⟩
      | cons x pre => simp at h
    | startup => simp only [queued, Api.cmd, List.nil_append] at h; exact ih pre post h
    | subscribe t s =>
      simp only [queued, Api.cmd, List.singleton_append] at h
      cases pre with
      | nil => simp at h
      | cons x pre =>
        simp only [List.cons_append, List.cons.injEq] at h
        obtain ⟨h1, h2⟩ := ih pre post h.2
        exact ⟨h1, by rw [← h.1]; simp [h2]⟩
    | unsubscribe s =>
      simp only [queued, Api.cmd, List.singleton_append] at h
      cases pre with
      | nil => simp at h
      | cons x pre =>
        simp only [List.cons_append, List.cons.injEq] at h
        obtain ⟨h1, h2⟩ := ih pre post h.2
        exact ⟨h1, by rw [← h.1]; simp [h2]⟩
    | publish t e =>
      simp only [queued, Api.cmd, List.singleton_append] at h
      cases pre with
      | nil => simp at h
      | cons x pre =>
        simp only [List.cons_append, List.cons.injEq] at h
        obtain ⟨h1, h2⟩ := ih pre post h.2
        exact ⟨h1, by rw [← h.1]; simp [h2]⟩
    | close t =>
      simp only [queued, Api.cmd, List.singleton_append] at h
      cases pre with
      | nil => simp at h
      | cons x pre =>
        simp only [List.cons_append, List.cons.injEq] at h
        obtain ⟨h1, h2⟩ := ih pre post h.2
        exact ⟨h1, by rw [← h.1]; simp [h2]⟩

/-! ## Non-vacuity (tests by evaluation, not proofs of the property) -/

/-- `Subscribed` is satisfiable; here subscriber 1 on topic 0 after a re-subscribe and a publish -/
example : Subscribed 1 0 [.subscribe 0 1, .subscribe 0 1, .publish 0 5, .closeTopic 3, .unsubAll 2] :=
  ⟨[], _, rfl, by simp, by simp [isEnd]⟩

/-- the hypotheses of `interval_closed` are met by a concrete queue, and the model's run on it -/
example : run [.subscribe 0 1, .publish 0 5, .subscribe 0 1, .publish 1 6, .publish 0 7, .closeTopic 0,
      .publish 0 8, .subscribe 0 1, .publish 0 9, .shutdown, .publish 0 10]
    = [.onNext 1 0 5, .onNext 1 0 7, .onClose 1 0, .onNext 1 0 9, .onClose 1 0] := by decide

/-- two subscribers, two topics, unsubscribe-all and the final sweep -/
example : run [.subscribe 0 1, .subscribe 1 1, .subscribe 0 2, .publish 0 5, .unsubAll 1, .publish 0 6,
      .publish 1 7, .shutdown]
    = [.onNext 1 0 5, .onNext 2 0 5, .onClose 1 0, .onClose 1 1, .onNext 2 0 6, .onClose 2 0] := by decide

/-- client side: calls after Shutdown are dropped, a late Startup still processes the whole queue -/
example : Sys.exec {} [.subscribe 0 1, .publish 0 5, .shutdown, .publish 0 6, .shutdown, .startup]
    = [.onNext 1 0 5, .onClose 1 0] := by decide

/-- without Startup nothing is delivered -/
example : Sys.exec {} [.subscribe 0 1, .publish 0 5, .shutdown] = [] := by decide

end GS.C18
