import GS.Driver.BudgetCore
/-! model driver executable for component `budget` (C07) -/
def main : IO Unit := GS.Proto.runModel GS.Driver.Budget.handler
