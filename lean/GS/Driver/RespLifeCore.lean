import GS.Model.RespLifecycle
import GS.Driver.Proto
/-!
Line-protocol driver for the responder lifecycle model (components `resplife`, `peerstate`, `stall`).

Each script op of harness/resplife is a fixed composition of model actions (the harness waits for
the real code to reach its next synchronisation point, i.e. runs internal actions to quiescence):

  new/cancel/upd/pause/...  = enqueue ; `mgr`*                     (manager drains its mailbox)
  pop                       = `pop` ; `mgr`* ; (`wstep` ; `mgr`*)*  until the worker parks
  step w                    = `wstep w` ; `mgr`* ; ...              until the worker parks again
  net p ok|fail             = `net` ; (`pub` ; `mgr`*)* ; `extract` (or `primer` ; `extract`) ; grants
  thaw                      = `thaw`

The schedule restriction of the harness (an op that could make a second executor signal pending is
`refused`) is mirrored here (`sig`), not in the model.
-/
namespace GS.Driver.RespLife
open GS.Proto GS.RespLife

structure D where
  s : State := {}
  ready : Bool := false
  npeers : Nat := 0
  nnew : Nat := 0
  nids : Nat := 0
  sig : List (Id × Nat) := []
  blockedOrder : List Party := []
  seen : Nat := 0             -- events already printed
  -- op `popq`: workers that have popped their task but whose StartTask message the harness holds back;
  -- the model enqueues StartTask with the pop, so the driver withdraws it until `step <w>` re-sends it
  held : List Nat := []

def sortStr (xs : List String) : List String :=
  xs.foldl (fun acc x =>
    let (a, b) := acc.span (fun y => decide (y < x) || y == x)
    a ++ x :: b) []

def parked (d : D) : Bool := d.s.park.isSome

/-- `mgr`* : until the mailbox is empty or the manager is parked without a grant -/
def settleMgr : Nat → State → State
  | 0, s => s
  | fuel + 1, s =>
    match step s .mgr with
    | some s' => settleMgr fuel s'
    | none => s

/-- resume a granted park (if any) and drain the mailbox -/
def settleResume (s : State) : State := settleMgr (s.mailbox.length + 2) s

/-- drain the mailbox; a parked manager stays parked even if its reservation has been granted
    (the harness forwards grants only at the end of a `net` op) -/
def settle (s : State) : State := if s.park.isSome then s else settleResume s

def phaseLetter : WPhase → String
  | .atLoader => "L"
  | .inHook _ _ => "H"
  | .preFinish _ => "F"
  | .blockedTx _ _ _ => "B"
  | .done => "D"
  | .waitStart | .waitFinish | .waitUpdates _ _ => "M"     -- waiting for the (parked) manager
  | _ => "R"

/-- run worker `w` until it parks (loader / hook / allocator) or is done -/
def runWorker : Nat → State → Nat → State
  | 0, s, _ => s
  | fuel + 1, s, w =>
    match workerOf s w with
    | none => s
    | some wk =>
      match wk.phase with
      | .started | .gotUpdates _ _ _ | .blockedTx _ _ true =>
        match step s (.wstep w 0) with
        | some s' => runWorker fuel (settle s') w
        | none => s
      | _ => s

def stName : RState → String
  | .queued => "Q"
  | .running => "R"
  | .paused => "P"
  | .completing => "C"

def wireSummary (b : Builder) : String :=
  let parts := (b.entries.filter (·.inResp)).map fun e =>
    -- a wire response keys its extensions by name and the harness uses a single name
    s!"r{e.id}:{e.code.getD stPartial}:{e.links}:{if e.exts > 0 then 1 else 0}"
  "<" ++ joinWith "," (sortStr parts) ++ ">"

def evString : Event → Option String
  | .done id c => some s!"done(r{id},{c})"
  | .canc id => some s!"canc(r{id})"
  | .nerr id => some s!"nerr(r{id})"
  | .bs id => some s!"bs(r{id})"
  | .proc id => some s!"proc(r{id})"
  | _ => none

def countDup (xs : List String) : List String :=
  let uniq := xs.foldl (fun acc x => if acc.contains x then acc else acc ++ [x]) []
  uniq.map fun x =>
    let n := (xs.filter (· == x)).length
    if n > 1 then s!"{x}x{n}" else x

def snapshot (d : D) : D × String :=
  let s := d.s
  let evs := (s.events.drop d.seen).filterMap evString
  let ev := joinWith "," (sortStr (countDup evs))
  let st :=
    if parked d then "?"
    else String.join ((List.range d.npeers).map fun p =>
      let rs := sortStr ((s.table.filter (·.peer == p)).map fun r => s!"r{r.id}={stName r.state}")
      let q := getQ s p
      let act := sortStr (q.active.map fun i => s!"r{i}")
      let pend := sortStr (q.pending.map fun t => s!"r{t.1}")
      s!"p{p}[{joinWith "," rs}|a:{joinWith "," act}|q:{joinWith "," pend}]")
  let pr := joinWith "," (sortStr (s.prot.map fun t => s!"p{t.1}/r{t.2}"))
  let fl := String.join ((List.range d.npeers).map fun p =>
    match (getMQ s p).inflight with
    | none => s!"p{p}-"
    | some b => s!"p{p}{wireSummary b}")
  let wk := joinWith "," ((s.workers.zipIdx.filter (fun x => x.1.phase != .done)).map fun x =>
    s!"w{x.2}={if d.held.contains x.2 then "P" else phaseLetter x.1.phase}")
  let mg := if parked d then " mg:blocked" else ""
  -- a release that gave back more than was allocated can never match the real run: forced divergence
  let uf := if s.underflow then " MODEL-RELEASE-UNDERFLOW" else ""
  ({ d with seen := s.events.length }, s!"ev:{ev} st:{st} pr:{pr} fl:{fl} wk:{wk}{mg}{uf}")

-- ------------------------------------------------------------------ schedule restriction
def sigOf (d : D) (id : Id) : Nat := ((d.sig.find? (·.1 == id)).map (·.2)).getD 0

def setSig (d : D) (id : Id) (n : Nat) : D :=
  { d with sig := (d.sig.filter (·.1 != id)) ++ [(id, n)] }

def signalling (d : D) (id : Id) (states : List RState) : List Id :=
  if parked d then []
  else match lookup d.s id with
    | some r => if states.contains r.state then [id] else []
    | none => []

def signalOK (d : D) (ids : List Id) : Option D :=
  if ids.any (fun i => sigOf d i ≥ 1) then none
  else some (ids.foldl (fun d i => setSig d i 1) d)

/-- an update is also admitted when the only pending signal of the request is an update signal (2) -/
def signalUpd (d : D) (ids : List Id) : Option D :=
  if ids.any (fun i => sigOf d i == 1 || sigOf d i == 3) then none
  else some (ids.foldl (fun d i => setSig d i 2) d)

/-- likewise a further abort while the only pending signal is an error signal (3) -/
def signalErr (d : D) (ids : List Id) : Option D :=
  if ids.any (fun i => sigOf d i == 1 || sigOf d i == 2) then none
  else some (ids.foldl (fun d i => setSig d i 3) d)

-- ------------------------------------------------------------------ ops
def apiResString : ApiRes → String
  | .ok => "ok"
  | .notFound => "notfound"
  | .err => "err"

/-- enqueue a mailbox message from outside and let the manager run -/
def mgrOp (d : D) (a : Action) : D × String :=
  if parked d then
    ({ d with s := (step d.s a).getD d.s }, "timeout")
  else
    let n0 := d.s.events.length
    let s1 := settle ((step d.s a).getD d.s)
    let d1 := { d with s := s1 }
    if s1.park.isSome then ({ d1 with blockedOrder := d1.blockedOrder ++ [.mgr] }, "blocked")
    else
      let res := (s1.events.drop n0).filterMap fun e => match e with
        | .apiRes _ r => some (apiResString r)
        | _ => none
      (d1, res.getLast?.getD "ok")

def parseHook (c : Char) : Option Hook :=
  match c with
  | 'a' => some ⟨.accept, false⟩ | 'A' => some ⟨.accept, true⟩
  | 'r' => some ⟨.reject, false⟩ | 'R' => some ⟨.reject, true⟩
  | 'e' => some ⟨.error, false⟩ | 'E' => some ⟨.error, true⟩
  | 'p' => some ⟨.pause, false⟩ | 'P' => some ⟨.pause, true⟩
  | _ => none

def parseBH (c : Char) : BH :=
  match c with
  | 'x' => .ext | 'p' => .pause | 'e' => .err | 'k' => .park | _ => .ok

def parseUP (s : String) : UP :=
  match s with
  | "x" => .ext | "e" => .err | "u" => .unpause | "U" => .unpauseExt | _ => .ok

def toInt (s : String) : Option Int := s.toInt?

/-- static pop order of the harness' comparators -/
def choosePop (s : State) (npeers : Nat) : Option (Peer × Id) :=
  let ready := (List.range npeers).filter fun p =>
    let q := getQ s p
    q.freeze == 0 && !q.pending.isEmpty && (s.maxActive == 0 || q.active.length < s.maxActive)
  match ready with
  | [] => none
  | p :: _ =>
    let q := getQ s p
    let best := q.pending.foldl (fun (acc : Option (Id × Nat)) t =>
      match acc with
      | none => some t
      | some b => if t.2 > b.2 || (t.2 == b.2 && t.1 < b.1) then some t else some b) none
    best.map fun b => (p, b.1)

def workerState (s : State) (w : Nat) : String :=
  match workerOf s w with
  | some wk => phaseLetter wk.phase
  | none => "?"

def noteBlocked (d : D) (w : Nat) : D :=
  match workerOf d.s w with
  | some wk => match wk.phase with
    | .blockedTx _ _ false => if d.blockedOrder.contains (.worker w) then d else { d with blockedOrder := d.blockedOrder ++ [.worker w] }
    | _ => d
  | none => d

def pubLoopF : Nat → State → Peer → State
  | 0, s, _ => s
  | fuel + 1, s, p =>
    match step s (.pub p) with
    | some s' => pubLoopF fuel (settle s') p
    | none => s

/-- workers that were waiting for the parked manager continue, in index order -/
def runWaiting (s : State) : State :=
  (List.range s.workers.length).foldl (fun s w =>
    match workerOf s w with
    | some wk => match wk.phase with
      | .started | .gotUpdates _ _ _ => runWorker 64 s w
      | _ => s
    | none => s) s

/-- forward grants: the manager first (it drains its mailbox, then the workers that waited for it
    run), then workers in the order in which they started waiting -/
def deliverGrants : Nat → D → D
  | 0, d => d
  | fuel + 1, d =>
    if (d.s.park.map (·.granted)).getD false then
      let s1 := settleResume d.s
      let d1 := { d with blockedOrder := d.blockedOrder.erase .mgr }
      if s1.park.isSome then deliverGrants fuel { d1 with s := s1, blockedOrder := d1.blockedOrder ++ [.mgr] }
      else
        -- publishers that were waiting for the manager continue, then the waiting workers
        let s1p := (List.range d.npeers).foldl (fun s p => pubLoopF 64 s p) s1
        let s2 := runWaiting s1p
        let d2 := (List.range s2.workers.length).foldl noteBlocked { d1 with s := s2 }
        deliverGrants fuel d2
    else
      let granted := d.blockedOrder.find? fun
        | .mgr => false
        | .worker w => match workerOf d.s w with
          | some wk => match wk.phase with
            | .blockedTx _ _ true => true
            | _ => false
          | none => false
      match granted with
      | some (.worker w) =>
        let s1 := runWorker 64 d.s w
        let d1 := noteBlocked { d with s := s1, blockedOrder := d.blockedOrder.erase (.worker w) } w
        deliverGrants fuel d1
      | _ => d

def pubLoop := pubLoopF

def ensureParked (s : State) (p : Peer) : State :=
  match (getMQ s p).inflight with
  | some _ => s
  | none =>
    match step s (.extract p) with
    | some s' => s'
    | none => let s1 := primer s p; (step s1 (.extract p)).getD s1

def opNet (d : D) (p : Peer) (ok : Bool) : D × String :=
  if p ≥ d.npeers then (d, "bad")
  else
    match (getMQ d.s p).inflight with
    | none => (d, "none")
    | some b =>
      let summary := wireSummary b
      match step d.s (.net p ok) with
      | none => (d, "none")
      | some s1 =>
        let s2 := pubLoop (4 * ((getMQ s1 p).pubQ.length + 1)) s1 p
        let s3 := ensureParked s2 p
        let d1 := deliverGrants 32 { d with s := s3 }
        (d1, (if ok then "sent" else "failed") ++ summary)

def endLine (d : D) : String :=
  if parked d then "end blocked"
  else
    let s := d.s
    let pendingN := ((s.queues.map (·.pending.length)).sum)
    let activeN := ((s.queues.map (·.active.length)).sum)
    let quiet := d.blockedOrder.isEmpty && s.waiting.isEmpty &&
      s.workers.all (·.phase == .done) && pendingN == 0 &&
      (List.range d.npeers).all (fun p =>
        let q := getMQ s p
        (match q.inflight with | some b => !(b.entries.any (·.inResp)) | none => true) &&
        (match q.next with | some b => b.empty | none => true)) &&
      s.table.all (·.state != .paused)
    let allocN := (s.mqs.map (·.allocated)).sum
    s!"end quiet={quiet} left={s.table.length} prot={s.prot.length} active={activeN} pending={pendingN} alloc={allocN}"

def natArg (t : Toks) (i : Nat) : Option Nat := (t[i]?).bind String.toNat?
def intArg (t : Toks) (i : Nat) : Int := ((t[i]?).bind toInt).getD 0

/-- harness `atoi`: anything unparsable is 0; negatives are out of range everywhere they matter -/
def idArg (d : D) (t : Toks) (i : Nat) : Option Nat :=
  let v := intArg t i
  if v < 0 then none else if v.toNat < d.nids then some v.toNat else none

def peerArg (d : D) (t : Toks) (i : Nat) : Option Nat :=
  let v := intArg t i
  if v < 0 then none else if v.toNat < d.npeers then some v.toNat else none

def execOp (d : D) (t : Toks) : D × String :=
  match t with
  | "new" :: _ =>
    if t.length < 9 then (d, "bad") else
    let p := intArg t 1; let k := intArg t 2; let id := intArg t 3; let pri := intArg t 4
    let n := intArg t 6; let miss := intArg t 7
    if p < 0 || p.toNat ≥ d.npeers || k != d.nnew || id < 0 || id.toNat > d.nids then (d, "bad")
    else if n < 1 || n > 8 then (d, "bad")
    else
      match (t[5]?).bind (fun h => h.toList.head?) |>.bind parseHook with
      | none => (d, "bad")
      | some hook =>
        let cfg : ReqCfg := { pri := pri.toNat, hook, n := n.toNat,
                              miss := if miss < 0 then none else some miss.toNat,
                              bh := (((t[8]?).getD "").toList.filter (· != 'F')).map parseBH,
                              parkFinish := ((t[8]?).getD "").toList.contains 'F' }
        let d1 := { d with nnew := d.nnew + 1, nids := if id.toNat == d.nids then d.nids + 1 else d.nids }
        mgrOp d1 (.recv p.toNat (.new id.toNat cfg))
  | ["cancel", _, _] =>
    match peerArg d t 1, idArg d t 2 with
    | some p, some id =>
      match signalErr d (signalling d id [.running]) with
      | none => (d, "refused")
      | some d1 => mgrOp d1 (.recv p (.cancel id))
    | _, _ => (d, "bad")
  | ["upd", _, _, plan] =>
    match peerArg d t 1, idArg d t 2 with
    | some p, some id =>
      match signalUpd d (signalling d id [.running, .queued]) with
      | none => (d, "refused")
      | some d1 => mgrOp d1 (.recv p (.update id (parseUP plan)))
    | _, _ => (d, "bad")
  | ["pause", _] =>
    match idArg d t 1 with
    | some id =>
      match signalOK d (signalling d id [.running, .queued]) with
      | none => (d, "refused")
      | some d1 => mgrOp d1 (.api (.pause id))
    | none => (d, "bad")
  | "unpause" :: _ =>
    match idArg d t 1 with
    | some id => mgrOp d (.api (.unpause id (t[2]? == some "1")))
    | none => (d, "bad")
  | ["rcancel", _] =>
    match idArg d t 1 with
    | some id =>
      match signalErr d (signalling d id [.running]) with
      | none => (d, "refused")
      | some d1 => mgrOp d1 (.api (.cancel id))
    | none => (d, "bad")
  | "rupdate" :: _ =>
    match idArg d t 1 with
    | some id => mgrOp d (.api (.update id (t[2]? == some "1")))
    | none => (d, "bad")
  | ["pop"] =>
    if parked d then (d, "refused")
    else if d.s.nWorkers != 0 && liveWorkers d.s ≥ d.s.nWorkers then (d, "busy")   -- no idle worker in the pool
    else match choosePop d.s d.npeers with
      | none =>
        -- PopTasks looked at the first tracker in the static order; an idle one is removed
        let top := (d.s.queues.map (·.peer)).foldl (fun (acc : Option Nat) p =>
          match acc with | none => some p | some b => some (min b p)) none
        match top with
        | some p => ({ d with s := (step d.s (.reap p)).getD d.s }, "none")
        | none => (d, "none")
      | some (p, id) =>
        match step d.s (.pop p id) with
        | none => (d, "none")
        | some s1 =>
          let w := s1.workers.length - 1
          let s2 := runWorker 64 (settle s1) w
          let d1 := noteBlocked { d with s := s2 } w
          (d1, s!"w{w}:p{p}:r{id}:{workerState s2 w}")
  | ["popq"] =>
    if parked d then (d, "refused")
    else if d.s.nWorkers != 0 && liveWorkers d.s ≥ d.s.nWorkers then (d, "busy")
    else match choosePop d.s d.npeers with
      | none =>
        let top := (d.s.queues.map (·.peer)).foldl (fun (acc : Option Nat) p =>
          match acc with | none => some p | some b => some (min b p)) none
        match top with
        | some p => ({ d with s := (step d.s (.reap p)).getD d.s }, "none")
        | none => (d, "none")
      | some (p, id) =>
        match step d.s (.pop p id) with
        | none => (d, "none")
        | some s1 =>
          let w := s1.workers.length - 1
          -- withdraw the StartTask message the pop has just enqueued
          let s2 := { s1 with mailbox := s1.mailbox.filter (· != .startTask w) }
          ({ d with s := s2, held := d.held ++ [w] }, s!"w{w}:p{p}:r{id}:P")
  | ["step", _] =>
    if parked d then (d, "refused")
    else
      let wi := intArg t 1
      if wi < 0 then (d, "bad") else
      let w := wi.toNat
      if d.held.contains w then
        -- the held worker now sends StartTask
        let s1 := sendMsg d.s (.startTask w)
        let s2 := runWorker 64 (settle s1) w
        let d1 := noteBlocked { d with s := s2, held := d.held.filter (· != w) } w
        (d1, workerState s2 w)
      else
      match workerOf d.s w with
      | none => (d, "bad")
      | some wk =>
        let go (d : D) : D × String :=
          match step d.s (.wstep w 0) with
          | none => (d, "bad")
          | some s1 =>
            let s2 := runWorker 64 (settle s1) w
            let d1 := noteBlocked { d with s := s2 } w
            (d1, workerState s2 w)
        match wk.phase with
        | .atLoader => go (setSig d wk.id 0)
        | .inHook _ _ => go d
        | .preFinish _ => go d
        | _ => (d, "bad")
  | ["net", _, o] =>
    if o != "ok" && o != "fail" then (d, "bad")
    else
      let pre : Option D :=
        match peerArg d t 1 with
        | some p =>
          if o == "fail" && !parked d then
            signalErr d (((d.s.table.filter fun r => r.peer == p && r.state == .running).map (·.id)))
          else some d
        | none => some d
      match pre with
      | none => (d, "refused")
      | some d1 =>
        let p := intArg t 1
        if p < 0 then (d1, "bad") else opNet d1 p.toNat (o == "ok")
  | ["thaw"] => ({ d with s := thawAll d.s }, "ok")
  | _ => (d, "bad")

def stepLine (d : D) (t : Toks) : D × String :=
  match t with
  | "cfg" :: _ =>
    if t.length < 6 || d.ready then (d, "bad") else
    let np := (natArg t 1).getD 0
    let s0 : State := { limit := (natArg t 2).getD 0, leafLen := (natArg t 3).getD 0,
                        innerLen := (natArg t 4).getD 0, extLen := (natArg t 5).getD 0,
                        maxActive := (natArg t 6).getD 0, nWorkers := (natArg t 7).getD 0 }
    let s1 := (List.range np).foldl (fun s p => ensureParked s p) s0
    let (d1, snap) := snapshot { s := s1, ready := true, npeers := np }
    (d1, "ok " ++ snap)
  | ["end"] => if d.ready then (d, endLine d) else (d, "bad")
  | _ =>
    if !d.ready then (d, "bad") else
    let (d1, res) := execOp d t
    let (d2, snap) := snapshot d1
    (d2, res ++ " " ++ snap)

def handler (ops : List Toks) : List String :=
  let (_, outs) := ops.foldl (fun (acc : D × List String) t =>
    let (d', o) := stepLine acc.1 t
    (d', o :: acc.2)) ({}, [])
  outs.reverse

end GS.Driver.RespLife
