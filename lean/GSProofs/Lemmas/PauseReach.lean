import GSProofs.Lemmas.LoaderReplay
import GSProofs.Lemmas.PauseLate
import GSProofs.Lemmas.ExchangeComplete
/-!
Reachability invariants for the re-opening resume (property C06, case (c)): along the executor loop
with mixed local and remote loads,

 (i)   the traversal record (with the attempt still parked in `mostRecentLoadAttempt` written out) is
       the record of the loads made so far,
 (ii)  every delivered block is in the store,
 (iii) a parked load is the load of the node the cursor stands on (and nothing is parked in
       `mostRecentLoadAttempt` then),

as long as every load so far was answered with data (the block count equals the number of link-tree
nodes consumed).  Loader level first (`run_reach`, `load_reach`), then the plain executor
(`Q`, `drive_Q` … `exchange_Q`), then the hooked executor up to the pause (`driveP_splitAt` …, copies
of the `Split` lemmas of `PauseLate.lean` for predicates that look at the cursor), then the resumed
executor up to the moment it goes online again (`drive_reopen`).
-/
namespace GS.Loader
open GS.Requestor (LNode LT)

/-! ### loader level -/

theorem recordRemoteAttempt_rs (s : State) (p : Path) (a : Action) :
    (recordRemoteAttempt s p a).record = s.record ∧ (recordRemoteAttempt s p a).store = s.store := by
  unfold recordRemoteAttempt; split <;> exact ⟨rfl, rfl⟩

theorem waitRemote_rs (fuel : Nat) (s : State) :
    (waitRemote fuel s).1.record = s.record ∧ (waitRemote fuel s).1.store = s.store := by
  induction fuel generalizing s with
  | zero => exact ⟨rfl, rfl⟩
  | succ n ih =>
    unfold waitRemote
    dsimp only
    split
    · split
      · exact ⟨rfl, rfl⟩
      · split
        · exact ⟨rfl, rfl⟩
        · rename_i v' _
          have h1 := ih (recordRemoteAttempt { s with rq := s.rq.consume, ver := some v' }
            (verPath s.record (s.ver.getD none)) (by assumption : Item).action)
          have h2 := recordRemoteAttempt_rs { s with rq := s.rq.consume, ver := some v' }
            (verPath s.record (s.ver.getD none)) (by assumption : Item).action
          exact ⟨h1.1.trans h2.1, h1.2.trans h2.2⟩
    · split <;> exact ⟨rfl, rfl⟩

theorem stillOnUnfollowed_rs (s : State) (p : Path) :
    (stillOnUnfollowed s p).1.record = s.record ∧ (stillOnUnfollowed s p).1.store = s.store := by
  unfold stillOnUnfollowed
  split
  · exact ⟨rfl, rfl⟩
  · split <;> exact ⟨rfl, rfl⟩

theorem loadLocal_ok (s : State) (p : Path) (c : Cid) (h : (loadLocal s p c).err = none) :
    holds s.store c = true := by
  unfold loadLocal at h
  unfold holds
  cases hg : storeGet s.store c with
  | none => rw [hg] at h; cases h
  | some b => rfl

/-- what one (re-)run of a load does to the record, the store and the retry bookkeeping -/
theorem run_reach (s : State) (p : Path) (c : Cid) :
    (run s p c).1.record = s.record ∧
    ((run s p c).2 = .blocked → (run s p c).1.store = s.store ∧ (run s p c).1.mra = s.mra) ∧
    (∀ r, (run s p c).2 = .done r →
       (∀ x, holds s.store x = true → holds (run s p c).1.store x = true) ∧
       (r.err = none → holds (run s p c).1.store c = true)) := by
  have hw := waitRemote_rs (s.rq.q.length + 1) s
  have hf := waitRemote_frame (s.rq.q.length + 1) s
  unfold run
  dsimp only
  generalize waitRemote (s.rq.q.length + 1) s = w at hw hf
  obtain ⟨s1, wt⟩ := w
  simp only at hw hf
  cases wt with
  | blocked => exact ⟨hw.1, fun _ => ⟨hw.2, hf.2.1⟩, fun r h => by cases h⟩
  | err e =>
    dsimp only
    refine ⟨hw.1, fun h => (by cases h), fun r h => ?_⟩
    cases h
    exact ⟨fun x hx => by rw [hw.2]; exact hx, fun he => by cases he⟩
  | offline =>
    dsimp only
    refine ⟨hw.1, fun h => (by cases h), fun r h => ?_⟩
    cases h
    exact ⟨fun x hx => by rw [hw.2]; exact hx,
      fun he => by have := loadLocal_ok s1 p c he; rw [hw.2] at this ⊢; exact this⟩
  | remote =>
    dsimp only
    have hsu := stillOnUnfollowed_rs s1 p
    generalize stillOnUnfollowed s1 p = su at hsu
    obtain ⟨s2, still⟩ := su
    simp only at hsu
    dsimp only
    have hrec2 : s2.record = s.record := hsu.1.trans hw.1
    have hst2 : s2.store = s.store := hsu.2.trans hw.2
    split
    · refine ⟨hrec2, fun h => (by cases h), fun r h => ?_⟩
      cases h
      exact ⟨fun x hx => by simp only; rw [hst2]; exact hx,
        fun he => by simp only; have := loadLocal_ok s2 p c he; rw [hst2] at this ⊢; exact this⟩
    · split
      · refine ⟨hrec2, fun h => (by cases h), fun r h => ?_⟩
        cases h
        exact ⟨fun x hx => by simp only; rw [hst2]; exact hx,
          fun he => by simp only; have := loadLocal_ok s2 p c he; rw [hst2] at this ⊢; exact this⟩
      · rename_i head _ _
        split
        · refine ⟨hrec2, fun h => (by cases h), fun r h => ?_⟩
          cases h
          exact ⟨fun x hx => by simp only; rw [hst2]; exact hx, fun he => by cases he⟩
        · have hra := recordRemoteAttempt_rs { s2 with rq := s2.rq.consume } p head.action
          split
          · refine ⟨hra.1.trans hrec2, fun h => (by cases h), fun r h => ?_⟩
            cases h
            exact ⟨fun x hx => by simp only; rw [hra.2]; simp only; rw [hst2]; exact hx,
              fun he => by
                simp only
                have := loadLocal_ok _ p c he
                rw [hra.2] at this ⊢
                exact this⟩
          · refine ⟨hra.1.trans hrec2, fun h => (by cases h), fun r h => ?_⟩
            cases h
            exact ⟨fun x hx => by
                simp only
                apply holds_cons
                rw [hra.2]; simp only; rw [hst2]; exact hx,
              fun _ => by simp only; exact holds_self _ _ _⟩

theorem recOfLT_snoc (loaded : LT) (n : LNode) :
    recOfLT (loaded ++ [n]) = (recOfLT loaded).record n.path n.cid true := by
  unfold recOfLT
  rw [List.foldl_append]
  rfl

theorem prologue_fields (s : State) :
    (prologue s).record = recP s.record s.mra ∧ (prologue s).mra = none ∧ (prologue s).store = s.store ∧
    (prologue s).pending = s.pending ∧ (prologue s).isOpen = s.isOpen := by
  unfold prologue recP
  cases h : s.mra with
  | none => simp [h]
  | some a => simp

theorem holds_cons_inv (st : List (Cid × Blk)) (c : Cid) (b : Blk) (x : Cid) (h : holds ((c, b) :: st) x = true) :
    holds st x = true ∨ x = c := by
  by_cases hx : x = c
  · exact Or.inr hx
  · left
    unfold holds storeGet at h ⊢
    simp only [List.find?_cons] at h
    have : (c == x) = false := by simp; exact fun h' => hx h'.symm
    simpa [this] using h

/-- a (re-)run of the load of `c` adds at most the block of `c` to the store, and only when it answers with data -/
theorem run_store_origin (s : State) (p : Path) (c : Cid) :
    ∀ x, holds (run s p c).1.store x = true →
      holds s.store x = true ∨ (x = c ∧ ∃ r, (run s p c).2 = .done r ∧ r.err = none) := by
  have hw := waitRemote_rs (s.rq.q.length + 1) s
  unfold run
  dsimp only
  generalize waitRemote (s.rq.q.length + 1) s = w at hw
  obtain ⟨s1, wt⟩ := w
  simp only at hw
  cases wt with
  | blocked => intro x hx; left; rw [← hw.2]; exact hx
  | err e => dsimp only; intro x hx; left; rw [← hw.2]; exact hx
  | offline => dsimp only; intro x hx; left; rw [← hw.2]; exact hx
  | remote =>
    dsimp only
    have hsu := stillOnUnfollowed_rs s1 p
    generalize stillOnUnfollowed s1 p = su at hsu
    obtain ⟨s2, still⟩ := su
    simp only at hsu
    dsimp only
    have hst2 : s2.store = s.store := hsu.2.trans hw.2
    split
    · intro x hx; left; rw [← hst2]; exact hx
    · split
      · intro x hx; left; rw [← hst2]; exact hx
      · rename_i head _ _
        split
        · intro x hx; left; rw [← hst2]; exact hx
        · have hra := recordRemoteAttempt_rs { s2 with rq := s2.rq.consume } p head.action
          split
          · intro x hx; left
            simp only at hx
            rw [hra.2] at hx
            rw [← hst2]; exact hx
          · intro x hx
            simp only at hx
            rcases holds_cons_inv _ _ _ _ hx with h | h
            · left; rw [hra.2] at h; rw [← hst2]; exact h
            · exact Or.inr ⟨h, _, rfl, rfl⟩

theorem load_store_origin (s : State) (p : Path) (c : Cid) :
    ∀ x, holds (load s p c).1.store x = true →
      holds s.store x = true ∨ (x = c ∧ ∃ r, (load s p c).2 = .done r ∧ r.err = none) := by
  intro x hx
  rw [load_eq] at hx ⊢
  have := run_store_origin (prologue s) p c x hx
  rw [(prologue_fields s).2.2.1] at this
  exact this

/-- what `BlockReadOpener` does to the record (with the parked attempt written out) and the store -/
theorem load_reach (s : State) (p : Path) (c : Cid) :
    ((load s p c).2 = .blocked →
       (load s p c).1.record = recP s.record s.mra ∧ (load s p c).1.mra = none ∧
       (load s p c).1.store = s.store ∧ (load s p c).1.pending = some (p, c)) ∧
    (∀ r, (load s p c).2 = .done r →
       recP (load s p c).1.record (load s p c).1.mra = (recP s.record s.mra).record p c r.err.isNone ∧
       (load s p c).1.pending = none ∧
       (∀ x, holds s.store x = true → holds (load s p c).1.store x = true) ∧
       (r.err = none → holds (load s p c).1.store c = true)) := by
  have hp := prologue_fields s
  have hr := run_reach (prologue s) p c
  have hpd := run_pending (prologue s) p c
  rw [load_eq]
  refine ⟨fun hb => ?_, fun r hd => ?_⟩
  · have := hr.2.1 hb
    exact ⟨hr.1.trans hp.1, this.2.trans hp.2.1, this.1.trans hp.2.2.1, hpd.1 hb⟩
  · obtain ⟨hpn, u, hm⟩ := hpd.2 r hd
    obtain ⟨hmono, hok⟩ := hr.2.2 r hd
    refine ⟨?_, hpn, fun x hx => hmono x (by rw [hp.2.2.1]; exact hx), hok⟩
    rw [hm, hr.1, hp.1]
    rfl

/-- the same for the wake-up of a parked load (nothing is parked in `mostRecentLoadAttempt` then) -/
theorem run_reach_parked (s : State) (p : Path) (c : Cid) (hm : s.mra = none) :
    ((run s p c).2 = .blocked →
       (run s p c).1.record = s.record ∧ (run s p c).1.mra = none ∧
       (run s p c).1.store = s.store ∧ (run s p c).1.pending = some (p, c)) ∧
    (∀ r, (run s p c).2 = .done r →
       recP (run s p c).1.record (run s p c).1.mra = s.record.record p c r.err.isNone ∧
       (run s p c).1.pending = none ∧
       (∀ x, holds s.store x = true → holds (run s p c).1.store x = true) ∧
       (r.err = none → holds (run s p c).1.store c = true)) := by
  have hr := run_reach s p c
  have hpd := run_pending s p c
  refine ⟨fun hb => ?_, fun r hd => ?_⟩
  · have := hr.2.1 hb
    exact ⟨hr.1, this.2.trans hm, this.1, hpd.1 hb⟩
  · obtain ⟨hpn, u, hm'⟩ := hpd.2 r hd
    obtain ⟨hmono, hok⟩ := hr.2.2 r hd
    refine ⟨?_, hpn, hmono, hok⟩
    rw [hm', hr.1]
    rfl

/-- (i) + (ii): the record is the record of `loaded`, whose blocks are in the store -/
structure RL (loaded : LT) (l : State) : Prop where
  recd : recP l.record l.mra = recOfLT loaded
  held : ∀ m ∈ loaded, holds l.store m.cid = true

end GS.Loader

namespace GS.Loader

theorem setOnline_record (s : State) (b : Bool) : (setOnline s b).record = s.record := by
  unfold setOnline; dsimp only; split <;> rfl

theorem ingest_record (s : State) (md : List (Cid × Action)) (bl : List (Cid × Blk)) :
    (ingest s md bl).record = s.record := by
  unfold ingest; split <;> (try split) <;> rfl

/-- `RetryLastLoad` with a parked attempt `a`: the attempt is forgotten (NOT written to the record)
    and loaded again -/
theorem retry_some (s : State) (a : Attempt) (h : s.mra = some a) :
    ∃ s2 : State, retry s = load s2 a.path a.link ∧ s2.store = s.store ∧ s2.record = s.record ∧ s2.mra = none := by
  unfold retry
  rw [h]
  dsimp only
  split
  · exact ⟨_, rfl, rfl, rfl, rfl⟩
  · exact ⟨_, rfl, rfl, rfl, rfl⟩

theorem load_record_done (s : State) (p : Path) (c : Cid) : (load s p c).1.record = recP s.record s.mra := by
  rw [load_eq, (run_reach (prologue s) p c).1, (prologue_fields s).1]

end GS.Loader

namespace GS.C06
open GS.Loader GS.Requestor GS.PauseResume

/-! ### the plain executor -/

/-- the reachability invariant: `loaded` are the link-tree nodes the cursor has passed; while the
    request is running and every one of them was answered with data (block count = their number), the
    traversal record is their record and their blocks are in the store; a parked load is the load of
    the node under the cursor -/
structure Q (lt : LT) (st0 : List (Cid × Blk)) (r : Requestor.State) (loaded : LT) : Prop where
  mono  : ∀ c, holds st0 c = true → holds r.L.store c = true
  orig  : ∀ c, holds r.L.store c = true → holds st0 c = true ∨ ∃ m ∈ lt, m.cid = c
  origL : r.phase = .running → ∀ c, holds r.L.store c = true → holds st0 c = true ∨ ∃ m ∈ loaded, m.cid = c
  split : lt = loaded ++ r.todo
  count : r.nBlocks ≤ loaded.length
  pend  : ∀ p c, r.L.pending = some (p, c) →
            r.L.mra = none ∧ ∃ n rest, r.todo = n :: rest ∧ p = n.path ∧ c = n.cid
  rl    : r.phase = .running → r.nBlocks = loaded.length → RL loaded r.L

theorem Q.frame {lt : LT} {st0 : List (Cid × Blk)} {r r' : Requestor.State} {loaded : LT} (h : Q lt st0 r loaded)
    (htodo : r'.todo = r.todo) (hnb : r'.nBlocks = r.nBlocks) (hph : r'.phase = .running → r.phase = .running)
    (hpd : r'.L.pending = r.L.pending) (hmra : r'.L.mra = r.L.mra) (hrec : r'.L.record = r.L.record)
    (hst : r'.L.store = r.L.store) : Q lt st0 r' loaded := by
  refine ⟨fun c hc => by rw [hst]; exact h.mono c hc, fun c hc => h.orig c (by rw [← hst]; exact hc),
    fun hr c hc => h.origL (hph hr) c (by rw [← hst]; exact hc),
    by rw [htodo]; exact h.split, by rw [hnb]; exact h.count, ?_, ?_⟩
  · intro p c hp
    rw [hpd] at hp
    rw [hmra, htodo]
    exact h.pend p c hp
  · intro hr hn
    have := h.rl (hph hr) (by rw [← hnb]; exact hn)
    exact ⟨by rw [hrec, hmra]; exact this.recd, by rw [hst]; exact this.held⟩

theorem handle_cases (s : Requestor.State) (n : LNode) (rest : LT) (res : Result) :
    (res.err = none ∧ (handle s n rest res).2.2 = true ∧
        (handle s n rest res).1 = { s with todo := rest, nBlocks := s.nBlocks + 1 }) ∨
    ((∃ c p, res.err = some (.missing c p)) ∧ (handle s n rest res).2.2 = true ∧
        (handle s n rest res).1 = { s with todo := skipSub n rest }) ∨
    ((handle s n rest res).2.2 = false ∧ (handle s n rest res).1.phase = .finished ∧
        (handle s n rest res).1.todo = s.todo ∧ (handle s n rest res).1.nBlocks = s.nBlocks ∧
        (handle s n rest res).1.L.pending = s.L.pending ∧ (handle s n rest res).1.L.store = s.L.store) := by
  have hfin : ∀ s' : Requestor.State, (finish s').1.phase = .finished ∧ (finish s').1.todo = s'.todo ∧
      (finish s').1.nBlocks = s'.nBlocks ∧ (finish s').1.L.pending = s'.L.pending ∧
      (finish s').1.L.store = s'.L.store := by
    intro s'; unfold finish; exact ⟨rfl, rfl, rfl, rfl, rfl⟩
  have hfw : ∀ e, (failWith s e).1.phase = .finished ∧ (failWith s e).1.todo = s.todo ∧
      (failWith s e).1.nBlocks = s.nBlocks ∧ (failWith s e).1.L.pending = s.L.pending ∧
      (failWith s e).1.L.store = s.L.store := by
    intro e
    unfold failWith
    have := hfin { s with L := Loader.setOnline s.L false }
    exact ⟨this.1, this.2.1, this.2.2.1, this.2.2.2.1.trans (setOnline_frame s.L false).1,
      this.2.2.2.2.trans (setOnline_frame s.L false).2.2⟩
  unfold handle
  cases herr : res.err with
  | none => left; exact ⟨rfl, rfl, rfl⟩
  | some e =>
    right
    simp only
    split
    · right; have := hfin s; exact ⟨rfl, this.1, this.2.1, this.2.2.1, this.2.2.2.1, this.2.2.2.2⟩
    · cases e with
      | missing c p =>
        simp only
        split
        · right; have := hfw .other; exact ⟨rfl, this.1, this.2.1, this.2.2.1, this.2.2.2.1, this.2.2.2.2⟩
        · left; exact ⟨⟨c, p, rfl⟩, rfl, rfl⟩
      | incorrect a b q => right; have := hfw (.load (.incorrect a b q)); exact ⟨rfl, this.1, this.2.1, this.2.2.1, this.2.2.2.1, this.2.2.2.2⟩
      | extraData => right; have := hfw (.load .extraData); exact ⟨rfl, this.1, this.2.1, this.2.2.1, this.2.2.2.1, this.2.2.2.2⟩
      | nothingLeft => right; have := hfw (.load .nothingLeft); exact ⟨rfl, this.1, this.2.1, this.2.2.1, this.2.2.2.1, this.2.2.2.2⟩
      | retryNone => right; have := hfw (.load .retryNone); exact ⟨rfl, this.1, this.2.1, this.2.2.1, this.2.2.2.1, this.2.2.2.2⟩

/-- the invariant after the result `res` of the load of the node under the cursor has been handled;
    `base` is the requestor state handed to `handle` (its loader `l1` is the loader after the load) -/
theorem Q_after (lt : LT) (st0 : List (Cid × Blk)) (r : Requestor.State) (loaded : LT) (n : LNode) (rest : LT) (hq : Q lt st0 r loaded)
    (htodo : r.todo = n :: rest) (base : Requestor.State) (res : Result)
    (hbt : base.todo = r.todo) (hbn : base.nBlocks = r.nBlocks) (hbp : base.phase = r.phase)
    (hrec : r.phase = .running → r.nBlocks = loaded.length →
      recP base.L.record base.L.mra = (recOfLT loaded).record n.path n.cid res.err.isNone)
    (hpn : base.L.pending = none)
    (hmono : ∀ x, holds r.L.store x = true → holds base.L.store x = true)
    (hok : res.err = none → holds base.L.store n.cid = true)
    (horig : ∀ x, holds base.L.store x = true → holds r.L.store x = true ∨ x = n.cid) :
    ∃ loaded', Q lt st0 (handle base n rest res).1 loaded' := by
  have hnlt : n ∈ lt := by rw [hq.split, htodo]; simp
  have hm' : ∀ c, holds st0 c = true → holds base.L.store c = true := fun c hc => hmono c (hq.mono c hc)
  have ho' : ∀ c, holds base.L.store c = true → holds st0 c = true ∨ ∃ m ∈ lt, m.cid = c := fun c hc =>
    (horig c hc).elim (hq.orig c) (fun h => Or.inr ⟨n, hnlt, h.symm⟩)
  have hoL : ∀ ld2 : LT, (∀ m ∈ loaded, m ∈ ld2) → n ∈ ld2 → r.phase = .running →
      ∀ c, holds base.L.store c = true → holds st0 c = true ∨ ∃ m ∈ ld2, m.cid = c := fun ld2 h1 h2 hr c hc =>
    (horig c hc).elim (fun h => (hq.origL hr c h).elim Or.inl (fun ⟨m, hm, e⟩ => Or.inr ⟨m, h1 m hm, e⟩))
      (fun h => Or.inr ⟨n, h2, h.symm⟩)
  rcases handle_cases base n rest res with ⟨he, _, hs⟩ | ⟨he, _, hs⟩ | ⟨_, hph, htd, hnb, hpd, hsto⟩
  · rw [hs]
    refine ⟨loaded ++ [n], hm', ho',
      fun hr => hoL _ (fun m hm => List.mem_append_left _ hm) (by simp) (by rw [← hbp]; exact hr), ?_, ?_, ?_, ?_⟩
    · simp only; rw [hq.split, htodo]; simp
    · simp only [List.length_append, List.length_singleton]; have := hq.count; omega
    · intro p c hp; simp only at hp; rw [hpn] at hp; cases hp
    · intro hr hn
      simp only [List.length_append, List.length_singleton] at hn
      simp only at hr
      have hr' : r.phase = .running := by rw [← hbp]; exact hr
      have hn' : r.nBlocks = loaded.length := by omega
      have hrl := hq.rl hr' hn'
      refine ⟨?_, ?_⟩
      · simp only
        rw [hrec hr' hn', he, recOfLT_snoc]
        rfl
      · intro m hm
        simp only [List.mem_append, List.mem_singleton] at hm
        simp only
        rcases hm with hm | rfl
        · exact hmono _ (hrl.held m hm)
        · exact hok he
  · rw [hs]
    refine ⟨loaded ++ n :: subOf n rest, hm', ho',
      fun hr => hoL _ (fun m hm => List.mem_append_left _ hm) (by simp) (by rw [← hbp]; exact hr), ?_, ?_, ?_, ?_⟩
    · simp only; rw [hq.split, htodo, List.append_assoc, List.cons_append, sub_skip]
    · simp only [List.length_append, List.length_cons]; have := hq.count; omega
    · intro p c hp; simp only at hp; rw [hpn] at hp; cases hp
    · intro _ hn
      simp only [List.length_append, List.length_cons] at hn
      have := hq.count
      omega
  · refine ⟨loaded, by rw [hsto]; exact hm', by rw [hsto]; exact ho',
      fun hr => (by rw [hph] at hr; cases hr), ?_, ?_, ?_, ?_⟩
    · rw [htd, hbt]; exact hq.split
    · rw [hnb, hbn]; exact hq.count
    · intro p c hp; rw [hpd, hpn] at hp; cases hp
    · intro hr; rw [hph] at hr; cases hr

theorem Q_loadNode (lt : LT) (st0 : List (Cid × Blk)) (r : Requestor.State) (loaded : LT) (n : LNode) (rest : LT) (hq : Q lt st0 r loaded)
    (htodo : r.todo = n :: rest) :
    ((loadNode r n).2.2 = none → Q lt st0 (loadNode r n).1 loaded) ∧
    (∀ res, (loadNode r n).2.2 = some res → ∃ loaded', Q lt st0 (handle (loadNode r n).1 n rest res).1 loaded') := by
  have hlr := load_reach r.L n.path n.cid
  have hlrec := load_record_done r.L n.path n.cid
  have hlp := load_pending r.L n.path n.cid
  have hso := load_store_origin r.L n.path n.cid
  have hnlt : n ∈ lt := by rw [hq.split, htodo]; simp
  unfold loadNode
  generalize Loader.load r.L n.path n.cid = ld at hlr hlrec hlp hso
  obtain ⟨l1, out⟩ := ld
  simp only at hlr hlrec hlp hso
  have hsoW : ∀ x, holds l1.store x = true → holds r.L.store x = true ∨ x = n.cid := fun x hx =>
    (hso x hx).elim Or.inl (fun h => Or.inr h.1)
  cases out with
  | blocked =>
    dsimp only
    obtain ⟨h1, h2, h3, h4⟩ := hlr.1 rfl
    refine ⟨fun _ => ?_, fun res h => by cases h⟩
    refine ⟨fun c hc => by simp only; rw [h3]; exact hq.mono c hc,
      fun c hc => hq.orig c (by simp only at hc; rw [h3] at hc; exact hc),
      fun hr c hc => hq.origL hr c (by simp only at hc; rw [h3] at hc; exact hc), hq.split, hq.count, ?_, ?_⟩
    · intro p c hp
      simp only at hp
      rw [h4] at hp
      simp only [Option.some.injEq, Prod.mk.injEq] at hp
      exact ⟨h2, n, rest, htodo, hp.1.symm, hp.2.symm⟩
    · intro hr hn
      have := hq.rl hr hn
      exact ⟨by simp only; rw [h1, h2]; exact this.recd, by simp only; rw [h3]; exact this.held⟩
  | done res =>
    dsimp only
    obtain ⟨g1, g2, g3, g4⟩ := hlr.2 res rfl
    split
    · -- first local miss: online, request, RetryLastLoad
      rename_i hmissc
      have hmissE : res.err ≠ none := by
        intro he
        have : isMiss res = false := by unfold isMiss; rw [he]
        rw [this] at hmissc
        cases hmissc
      have hl1s : ∀ x, holds l1.store x = true → holds r.L.store x = true := fun x hx =>
        (hso x hx).elim id (fun h => by
          obtain ⟨_, r0, hr0, he0⟩ := h
          simp only [Out.done.injEq] at hr0
          subst hr0
          exact absurd he0 hmissE)
      obtain ⟨_, u, hm⟩ := hlp.2 res rfl
      have hm' : (Loader.setOnline l1 true).mra = some ⟨n.cid, n.path, res.err.isNone, u⟩ := by
        rw [(setOnline_frame l1 true).2.1]; exact hm
      obtain ⟨s2, hrt, hs2s, hs2r, hs2m⟩ := retry_some _ _ hm'
      have hlr2 := load_reach s2 n.path n.cid
      have hlrec2 := load_record_done s2 n.path n.cid
      have hso2 := load_store_origin s2 n.path n.cid
      rw [hrt]
      simp only at hlr2 hlrec2 hso2 ⊢
      generalize Loader.load s2 n.path n.cid = ld2 at hlr2 hlrec2 hso2
      obtain ⟨l3, out3⟩ := ld2
      simp only at hlr2 hlrec2 hso2
      have hs2rec : recP s2.record s2.mra = recP r.L.record r.L.mra := by
        rw [hs2m, hs2r, setOnline_record, hlrec]; rfl
      have hs2st : s2.store = l1.store := by rw [hs2s, (setOnline_frame l1 true).2.2]
      cases out3 with
      | blocked =>
        dsimp only
        obtain ⟨h1, h2, h3, h4⟩ := hlr2.1 rfl
        refine ⟨fun _ => ?_, fun res h => by cases h⟩
        have ho3 : ∀ x, holds l3.store x = true → holds r.L.store x = true := fun x hx =>
          hl1s x (by rw [← hs2st, ← h3]; exact hx)
        refine ⟨fun c hc => by simp only; rw [h3, hs2st]; exact g3 c (hq.mono c hc),
          fun c hc => hq.orig c (ho3 c hc), fun hr c hc => hq.origL hr c (ho3 c hc), hq.split, hq.count, ?_, ?_⟩
        · intro p c hp
          simp only at hp
          rw [h4] at hp
          simp only [Option.some.injEq, Prod.mk.injEq] at hp
          exact ⟨h2, n, rest, htodo, hp.1.symm, hp.2.symm⟩
        · intro hr hn
          have := hq.rl hr hn
          refine ⟨?_, ?_⟩
          · simp only; rw [h1, h2, hs2rec]; exact this.recd
          · intro m hmm; simp only; rw [h3, hs2st]; exact g3 _ (this.held m hmm)
      | done r2 =>
        dsimp only
        obtain ⟨k1, k2, k3, k4⟩ := hlr2.2 r2 rfl
        refine ⟨fun h => (by cases h), fun res' h => ?_⟩
        simp only [Option.some.injEq] at h
        subst h
        exact Q_after lt st0 r loaded n rest hq htodo _ r2 rfl rfl rfl
          (fun hr hn => by simp only; rw [k1, hs2rec, (hq.rl hr hn).recd])
          k2 (fun x hx => k3 x (by rw [hs2st]; exact g3 x hx)) k4
          (fun x hx => (hso2 x hx).elim (fun h => hsoW x (by rw [← hs2st]; exact h)) (fun h => Or.inr h.1))
    · refine ⟨fun h => (by cases h), fun res' h => ?_⟩
      simp only [Option.some.injEq] at h
      subst h
      exact Q_after lt st0 r loaded n rest hq htodo _ res rfl rfl rfl
        (fun hr hn => by simp only; rw [g1, (hq.rl hr hn).recd]) g2 g3 g4 hsoW

end GS.C06

namespace GS.C06
open GS.Loader GS.Requestor GS.PauseResume

def QE (lt : LT) (st0 : List (Cid × Blk)) (r : Requestor.State) : Prop := ∃ loaded, Q lt st0 r loaded

theorem drive_Q (lt : LT) (st0 : List (Cid × Blk)) : ∀ (fuel : Nat) (r : Requestor.State), QE lt st0 r → QE lt st0 (drive fuel r).1 := by
  intro fuel
  induction fuel with
  | zero => intro r h; exact h
  | succ k ih =>
    intro r hqe
    obtain ⟨loaded, hq⟩ := hqe
    rw [drive_succ]
    split
    · exact ⟨loaded, hq⟩
    · cases htodo : r.todo with
      | nil =>
        simp only
        refine ⟨loaded, hq.frame rfl rfl (fun h => ?_) rfl rfl rfl rfl⟩
        have : (finish r).1.phase = .finished := rfl
        rw [this] at h; cases h
      | cons n rest =>
        simp only
        have hs := Q_loadNode lt st0 r loaded n rest hq htodo
        generalize loadNode r n = ln at hs
        obtain ⟨r1, ev1, ores⟩ := ln
        cases ores with
        | none => exact ⟨loaded, hs.1 rfl⟩
        | some res =>
          simp only
          obtain ⟨loaded', hq'⟩ := hs.2 res rfl
          simp only at hq'
          generalize handle r1 n rest res = hd at hq'
          obtain ⟨r2, evs, go⟩ := hd
          cases go with
          | true => simp only; exact ih r2 ⟨loaded', hq'⟩
          | false => exact ⟨loaded', hq'⟩

theorem Q_wake (lt : LT) (st0 : List (Cid × Blk)) (r : Requestor.State) (loaded : LT) (hq : Q lt st0 r loaded) :
    (∀ l1, Loader.wake r.L = (l1, none) → Q lt st0 { r with L := l1 } loaded) ∧
    (∀ l1 res n rest, Loader.wake r.L = (l1, some res) → r.todo = n :: rest →
      ∃ loaded', Q lt st0 (handle { r with L := l1 } n rest res).1 loaded') := by
  cases hpd : r.L.pending with
  | none =>
    rw [wake_none r.L hpd]
    refine ⟨fun l1 h => ?_, fun l1 res n rest h => by cases h⟩
    simp only [Prod.mk.injEq, and_true] at h
    subst h
    exact hq.frame rfl rfl (fun h => h) rfl rfl rfl rfl
  | some pc =>
    obtain ⟨p, c⟩ := pc
    obtain ⟨hm, n', rest', htd, hp, hc⟩ := hq.pend p c hpd
    have hws := wake_some r.L p c hpd
    have hrr := run_reach_parked r.L p c hm
    have hso := run_store_origin r.L p c
    cases hrun : Loader.run r.L p c with
    | mk l out =>
      rw [hrun] at hrr hso
      simp only at hrr hso
      cases out with
      | blocked =>
        rw [hws.2 l hrun]
        obtain ⟨h1, h2, h3, h4⟩ := hrr.1 rfl
        refine ⟨fun l1 h => ?_, fun l1 res n rest h => by cases h⟩
        simp only [Prod.mk.injEq, and_true] at h
        subst h
        refine ⟨fun c0 hc => by simp only; rw [h3]; exact hq.mono c0 hc,
          fun c0 hc => hq.orig c0 (by simp only at hc; rw [h3] at hc; exact hc),
          fun hr c0 hc => hq.origL hr c0 (by simp only at hc; rw [h3] at hc; exact hc), hq.split, hq.count, ?_, ?_⟩
        · intro p' c' hp'
          simp only at hp'
          rw [h4] at hp'
          simp only [Option.some.injEq, Prod.mk.injEq] at hp'
          exact ⟨h2, n', rest', htd, by rw [← hp'.1]; exact hp, by rw [← hp'.2]; exact hc⟩
        · intro hr hn
          have := hq.rl hr hn
          exact ⟨by simp only; rw [h1, h2, ← hm]; exact this.recd, by simp only; rw [h3]; exact this.held⟩
      | done res0 =>
        rw [hws.1 res0 l hrun]
        obtain ⟨k1, k2, k3, k4⟩ := hrr.2 res0 rfl
        refine ⟨fun l1 h => (by cases h), fun l1 res n rest h htodo => ?_⟩
        simp only [Prod.mk.injEq, Option.some.injEq] at h
        obtain ⟨rfl, rfl⟩ := h
        rw [htd] at htodo
        simp only [List.cons.injEq] at htodo
        obtain ⟨rfl, rfl⟩ := htodo
        subst hp; subst hc
        exact Q_after lt st0 r loaded n' rest' hq htd _ res0 rfl rfl rfl
          (fun hr hn => by
            have := (hq.rl hr hn).recd
            rw [hm] at this
            simp only; rw [k1]
            show (r.L.record).record _ _ _ = _
            have h0 : recP r.L.record none = r.L.record := rfl
            rw [← h0, this])
          k2 k3 k4 (fun x hx => (hso x hx).elim Or.inl (fun h => Or.inr h.1))

theorem resume_Q (lt : LT) (st0 : List (Cid × Blk)) (r : Requestor.State) (h : QE lt st0 r) : QE lt st0 (Requestor.resume r).1 := by
  obtain ⟨loaded, hq⟩ := h
  have hw := Q_wake lt st0 r loaded hq
  obtain ⟨L, todo, ph, rs, nb, us, cc, te⟩ := r
  unfold Requestor.resume
  simp only at hw ⊢
  cases hwk : Loader.wake L with
  | mk l1 ores =>
    rw [hwk] at hw
    cases ores with
    | none => exact ⟨loaded, hw.1 l1 rfl⟩
    | some res =>
      simp only
      cases todo with
      | nil =>
        -- impossible (a parked load stands on a node of the cursor); the statement holds anyway
        exfalso
        cases hpd : L.pending with
        | none => rw [wake_none L hpd] at hwk; cases hwk
        | some pc =>
          obtain ⟨_, n', rest', htd, _, _⟩ := hq.pend pc.1 pc.2 hpd
          cases htd
      | cons n rest =>
        simp only
        obtain ⟨loaded', hq'⟩ := hw.2 l1 res n rest rfl rfl
        generalize handle _ n rest res = hd at hq' ⊢
        obtain ⟨r2, evs, go⟩ := hd
        cases go with
        | true => simp only; exact drive_Q lt st0 _ r2 ⟨loaded', hq'⟩
        | false => exact ⟨loaded', hq'⟩

theorem applyStatus_frameQ (s : Requestor.State) (st : Nat) :
    (applyStatus s st).todo = s.todo ∧ (applyStatus s st).nBlocks = s.nBlocks ∧
    (applyStatus s st).phase = s.phase ∧ (applyStatus s st).L.pending = s.L.pending ∧
    (applyStatus s st).L.mra = s.L.mra ∧ (applyStatus s st).L.record = s.L.record ∧
    (applyStatus s st).L.store = s.L.store ∧ (applyStatus s st).requestSent = s.requestSent ∧
    (applyStatus s st).userSkip = s.userSkip := by
  have f := setOnline_frame s.L false
  have g := setOnline_record s.L false
  unfold applyStatus
  split
  · split
    · exact ⟨rfl, rfl, rfl, f.1, f.2.1, g, f.2.2, rfl, rfl⟩
    · exact ⟨rfl, rfl, rfl, f.1, f.2.1, g, f.2.2, rfl, rfl⟩
  · exact ⟨rfl, rfl, rfl, rfl, rfl, rfl, rfl, rfl, rfl⟩

theorem ingestStatus_Q (lt : LT) (st0 : List (Cid × Blk)) (r : Requestor.State) (loaded : LT) (hq : Q lt st0 r loaded) (st : Nat)
    (md : List (Cid × Action)) (bl : List (Cid × Blk)) :
    Q lt st0 (applyStatus { r with L := Loader.ingest r.L md bl } st) loaded := by
  have f := applyStatus_frameQ { r with L := Loader.ingest r.L md bl } st
  have g := ingest_frame r.L md bl
  have g' := ingest_record r.L md bl
  exact hq.frame f.1 f.2.1 (fun h => by rw [f.2.2.1] at h; exact h) (f.2.2.2.1.trans g.1)
    (f.2.2.2.2.1.trans g.2.1) (f.2.2.2.2.2.1.trans g') (f.2.2.2.2.2.2.1.trans g.2.2)

theorem message_Q (lt : LT) (st0 : List (Cid × Blk)) (r : Requestor.State) (h : QE lt st0 r) (f k : Bool) (st : Nat)
    (md : List (Cid × Action)) (bl : List (Cid × Blk)) : QE lt st0 (message r f k st md bl).1 := by
  unfold message
  split
  · exact h
  · obtain ⟨loaded, hq⟩ := h
    exact resume_Q lt st0 _ ⟨loaded, ingestStatus_Q lt st0 r loaded hq st md bl⟩

theorem feed_Q (lt : LT) (st0 : List (Cid × Blk)) : ∀ (msgs : List Requestor.Msg) (r : Requestor.State), QE lt st0 r → QE lt st0 (feed r msgs).1 := by
  intro msgs
  induction msgs with
  | nil => intro r h; exact h
  | cons m rest ih =>
    intro r h
    simp only [feed]
    exact ih _ (message_Q lt st0 r h _ _ _ _ _)

theorem Q_start (st : List (Cid × Blk)) (lt : LT) (u : Nat) :
    Q lt st ({ ({ L := { store := st } } : Requestor.State) with todo := lt, phase := .running, userSkip := u }) [] := by
  refine ⟨fun c h => h, fun c h => Or.inl h, fun _ c h => Or.inl h, rfl, Nat.le_refl _, fun p c h => (by cases h), fun _ _ => ⟨rfl, fun m hm => (by cases hm)⟩⟩

theorem request_Q (st : List (Cid × Blk)) (lt : LT) (u : Nat) :
    QE lt st (Requestor.request { L := { store := st } } lt u).1 := by
  unfold Requestor.request
  exact drive_Q lt st _ _ ⟨[], Q_start st lt u⟩

end GS.C06

namespace GS.C06
open GS.Loader GS.Requestor GS.PauseResume

/-! ### the hooked executor up to the pause: `Split` for predicates that look at the cursor

`PauseLate.lean`'s `driveP_split` / `resumeP_split` / `deliver_split` take a predicate preserved by
`loadNode` + `handle` for ANY node; the reachability invariant is preserved only for the node under
the cursor.  The three lemmas are repeated here for such predicates (same proofs). -/

def PresAt (P : Requestor.State → Prop) : Prop :=
  ∀ (r : Requestor.State) (n : LNode) (rest : LT) (r1 : Requestor.State) (ev1 : List Ev) (res : Result)
    (r2 : Requestor.State) (evs : List Ev),
    P r → r.todo = n :: rest → loadNode r n = (r1, ev1, some res) → handle r1 n rest res = (r2, evs, true) → P r2

theorem driveP_splitAt (k : Nat) (P : Requestor.State → Prop) (hPres : PresAt P) :
    ∀ (fuel : Nat) (r : Requestor.State), r.nBlocks < k → r.todo.length + 1 ≤ fuel → P r →
      Split k P (driveP fuel (hooked [k] r)) (drive fuel r) := by
  intro fuel
  induction fuel with
  | zero => intro r _ hf _; omega
  | succ fuel ih =>
    intro r hlt hf hp
    rw [driveP, drive_succ]
    by_cases hg : (r.phase != Phase.running) = true
    · have : ((hooked [k] r).R.phase != Phase.running || (hooked [k] r).paused) = true := by simp [hooked, hg]
      rw [if_pos this, if_pos hg]
      left; rfl
    · have : ((hooked [k] r).R.phase != Phase.running || (hooked [k] r).paused) = false := by
        simp only [hooked, Bool.or_false]; simpa using hg
      rw [if_neg (by simp [this]), if_neg hg]
      show Split k P (match r.todo with
        | [] => (hooked [k] (finish r).1, (finish r).2)
        | n :: rest =>
          match loadNode r n with
          | (r1, ev1, none) => (hooked [k] r1, ev1)
          | (r1, ev1, some res) => afterResult (hooked [k] r1) n rest res ev1 (driveP fuel)) _
      cases htodo : r.todo with
      | nil => left; rfl
      | cons n rest =>
        simp only
        have hl := loadNode_nBlocks r n
        cases hln : loadNode r n with
        | mk r1 rest1 =>
          obtain ⟨ev1, ores⟩ := rest1
          rw [hln] at hl
          simp only at hl
          cases ores with
          | none => left; rfl
          | some res =>
            simp only
            have hlen : rest.length + 1 ≤ fuel := by
              rw [htodo] at hf; simp only [List.length_cons] at hf; omega
            have hs := afterResult_split k P r1 n rest res ev1 (fun _ => fuel) (by rw [hl]; exact hlt)
              (fun r2 evs hh => by have := handle_todo r1 n rest res r2 evs hh; omega)
              (fun r2 evs hh => hPres r n rest r1 ev1 res r2 evs hp htodo hln hh)
              (fun r2 evs hh hlt2 => ih r2 hlt2
                (by have := handle_todo r1 n rest res r2 evs hh; omega)
                (hPres r n rest r1 ev1 res r2 evs hp htodo hln hh))
            unfold plainAfter at hs
            cases hh : handle r1 n rest res with
            | mk r2 rest2 =>
              obtain ⟨evs, go⟩ := rest2
              rw [hh] at hs
              cases go with
              | true => exact hs
              | false => exact hs

def PresWakeAt (P : Requestor.State → Prop) : Prop :=
  ∀ (r : Requestor.State) (l1 : Loader.State) (res : Result) (n : LNode) (rest : LT)
    (r2 : Requestor.State) (evs : List Ev),
    P r → r.todo = n :: rest → Loader.wake r.L = (l1, some res) →
    handle { r with L := l1 } n rest res = (r2, evs, true) → P r2

theorem resumeP_splitAt (k : Nat) (P : Requestor.State → Prop) (hPres : PresAt P) (hW : PresWakeAt P)
    (r : Requestor.State) (hlt : r.nBlocks < k) (hp : P r) :
    Split k P (resumeP (hooked [k] r)) (Requestor.resume r) := by
  have hW' := hW r
  obtain ⟨L, todo, phase, rs, nb, us, cc, te⟩ := r
  unfold resumeP Requestor.resume
  simp only [hooked]
  simp only at hW'
  cases hw : Loader.wake L with
  | mk l1 ores =>
    cases ores with
    | none => left; rfl
    | some res =>
      simp only
      cases todo with
      | nil => left; rfl
      | cons n rest =>
        simp only
        have hs := afterResult_split k P ⟨l1, n :: rest, phase, rs, nb, us, cc, te⟩ n rest res [] fuelFor hlt
          (fun r2 evs hh => by unfold fuelFor; omega)
          (fun r2 evs hh => hW' l1 res n rest r2 evs hp rfl hw hh)
          (fun r2 evs hh hlt2 => driveP_splitAt k P hPres (fuelFor r2) r2 hlt2 (by unfold fuelFor; omega)
            (hW' l1 res n rest r2 evs hp rfl hw hh))
        unfold plainAfter at hs
        have hfun : (fun s' : PState => driveP (fuelFor s'.R) s') = (fun s => driveP (fuelFor s.R) s) := rfl
        show Split k P (afterResult (hooked [k] ⟨l1, n :: rest, phase, rs, nb, us, cc, te⟩) n rest res []
          (fun s' => driveP (fuelFor s'.R) s')) _
        generalize handle ⟨l1, n :: rest, phase, rs, nb, us, cc, te⟩ n rest res = hdl at hs
        obtain ⟨r2, evs, go⟩ := hdl
        cases go with
        | true =>
          simp only [List.nil_append] at hs ⊢
          exact hs
        | false =>
          simp only [List.nil_append] at hs ⊢
          exact hs

theorem deliver_splitAt (k : Nat) (P : Requestor.State → Prop) (hPres : PresAt P) (hW : PresWakeAt P)
    (r : Requestor.State) (f kn : Bool) (st : Nat) (md : List (Cid × Action)) (bl : List (Cid × Blk))
    (hlt : r.nBlocks < k) (hp : P (applyStatus { r with L := Loader.ingest r.L md bl } st)) :
    Split k P (PauseResume.deliver (hooked [k] r) f kn st md bl) (message r f kn st md bl) := by
  unfold PauseResume.deliver message
  by_cases hg : (r.phase != Phase.running || !f || !kn) = true
  · have : ((hooked [k] r).R.phase != Phase.running || !f || !kn) = true := hg
    rw [if_pos this, if_pos hg]
    left; rfl
  · have : ¬ ((hooked [k] r).R.phase != Phase.running || !f || !kn) = true := hg
    rw [if_neg this, if_neg hg]
    exact resumeP_splitAt k P hPres hW _ (by rw [applyStatus_nBlocks]; exact hlt) hp

/-- the predicate carried to the pause point: the reachability invariant, a live request context, a
    running request -/
def PQ (lt : LT) (st0 : List (Cid × Blk)) (r : Requestor.State) : Prop := QE lt st0 r ∧ r.ctxCancelled = false ∧ r.phase = .running

theorem loadNode_ctx (r : Requestor.State) (n : LNode) :
    (loadNode r n).1.ctxCancelled = r.ctxCancelled ∧ (loadNode r n).1.phase = r.phase ∧
    (loadNode r n).1.userSkip = r.userSkip := by
  unfold loadNode
  split
  · exact ⟨rfl, rfl, rfl⟩
  · split
    · split <;> exact ⟨rfl, rfl, rfl⟩
    · exact ⟨rfl, rfl, rfl⟩

theorem PQ_pres (lt : LT) (st0 : List (Cid × Blk)) : PresAt (PQ lt st0) := by
  intro r n rest r1 ev1 res r2 evs hp htodo hln hh
  obtain ⟨⟨loaded, hq⟩, hc, hph⟩ := hp
  have hs := (Q_loadNode lt st0 r loaded n rest hq htodo).2 res (by rw [hln])
  have hc1 := loadNode_ctx r n
  rw [hln] at hs hc1
  simp only at hs hc1
  rw [hh] at hs
  obtain ⟨f1, f2, f3, f4⟩ := handle_true_frame r1 n rest res r2 evs hh
  exact ⟨hs, by rw [f3, hc1.1]; exact hc, by rw [f4, hc1.2.1]; exact hph⟩

theorem PQ_wake (lt : LT) (st0 : List (Cid × Blk)) : PresWakeAt (PQ lt st0) := by
  intro r l1 res n rest r2 evs hp htodo hw hh
  obtain ⟨⟨loaded, hq⟩, hc, hph⟩ := hp
  have hs := (Q_wake lt st0 r loaded hq).2 l1 res n rest hw htodo
  rw [hh] at hs
  obtain ⟨f1, f2, f3, f4⟩ := handle_true_frame _ n rest res r2 evs hh
  exact ⟨hs, by rw [f3]; exact hc, by rw [f4]; exact hph⟩

end GS.C06

namespace GS.C06
open GS.Loader GS.Requestor GS.PauseResume

/-! ### the resumed executor up to the moment it goes online again -/

theorem sentNews_writeEvs (r : Result) : sentNews (writeEvs r) = [] := by
  unfold writeEvs; split <;> rfl

theorem sentNews_finish (s : Requestor.State) : sentNews (finish s).2 = [] := by
  unfold finish; dsimp only; split <;> rfl

theorem sentNews_failWith (s : Requestor.State) (e : RErr) : sentNews (failWith s e).2 = [] := by
  unfold failWith
  dsimp only
  rw [sentNews_append, sentNews_finish]
  rfl

theorem sentNews_handle (s : Requestor.State) (n : LNode) (rest : LT) (res : Result) :
    sentNews (handle s n rest res).2.1 = [] := by
  unfold handle
  cases res.err with
  | none => simp [sentNews_append, sentNews_writeEvs, sentNews]
  | some e =>
    simp only
    split
    · simp [sentNews_append, sentNews_writeEvs, sentNews_finish]
    · cases e with
      | missing c p =>
        simp only
        split
        · simp [sentNews_append, sentNews_writeEvs, sentNews_failWith, sentNews]
        · simp [sentNews_append, sentNews_writeEvs, sentNews]
      | _ => simp [sentNews_append, sentNews_writeEvs, sentNews_failWith, sentNews]

theorem handle_data (s : Requestor.State) (n : LNode) (rest : LT) (res : Result) (he : res.err = none) :
    handle s n rest res = ({ s with todo := rest, nBlocks := s.nBlocks + 1 },
      writeEvs res ++ [Ev.block n.cid n.path res.loc (s.nBlocks + 1), Ev.prog n.vData], true) := by
  unfold handle
  rw [he]

/-- the state in which the resumed executor stands right after going online again: the retried load
    of `n` is parked, the record is the record of `loaded`, the verifier is fresh, the queue empty -/
structure Parked (rP : Requestor.State) (loaded : LT) (n : LNode) (rest : LT) : Prop where
  todo : rP.todo = n :: rest
  nb : rP.nBlocks = loaded.length
  run : rP.phase = .running
  sent : rP.requestSent = true
  ctx : rP.ctxCancelled = false
  pend : rP.L.pending = some (n.path, n.cid)
  mra : rP.L.mra = none
  recd : rP.L.record = recOfLT loaded
  ver : rP.L.ver = some (newVerifier rP.L.record)
  isOpen : rP.L.isOpen = true
  rq : rP.L.rq = {}
  held : ∀ m ∈ loaded, holds rP.L.store m.cid = true

/-- the resumed executor before it has gone online again: every load so far was delivered -/
structure SR (lt : LT) (st0 : List (Cid × Blk)) (r : Requestor.State) (loaded : LT) : Prop where
  q : Q lt st0 r loaded
  nb : r.nBlocks = loaded.length
  run : r.phase = .running
  unsent : r.requestSent = false
  closed : r.L.isOpen = false
  ctx : r.ctxCancelled = false

theorem Q.unique {lt : LT} {st0 : List (Cid × Blk)} {r : Requestor.State} {a b : LT} (h : Q lt st0 r a) (hb : lt = b ++ r.todo) : a = b := by
  have := h.split
  rw [hb] at this
  exact (List.append_cancel_right this).symm

theorem setOnline_true_closed (l : Loader.State) (h : l.isOpen = false) :
    Loader.setOnline l true = { l with isOpen := true, rq := {}, ver := some (newVerifier l.record) } := by
  unfold Loader.setOnline; simp [h, RQ.clear]

/-- **the resumed executor up to its re-opening.**  From a state in which every load so far was
    delivered, the request is marked unsent and the loader is offline (the state after `Unpause`),
    the executor either never sends a request again, or it delivers further blocks `extra` (from
    left-over queue items or from the local store), misses the next node `n` locally, goes online,
    sends the request with do-not-send-first-blocks = max(user value, blocks loaded) as its LAST
    report, and parks in the retried load of `n` — in a state satisfying (i), (ii), (iii). -/
theorem drive_reopen (lt : LT) (st0 : List (Cid × Blk)) : ∀ (fuel : Nat) (r : Requestor.State) (loaded : LT), SR lt st0 r loaded →
    sentNews (drive fuel r).2 = [] ∨
    ∃ extra n rest evs, (drive fuel r).2 = evs ++ [Ev.sentNew (max r.userSkip (loaded ++ extra).length)] ∧
      sentNews evs = [] ∧ resultsOf evs = (extra.map (fun m => (m, true))).map keyOf ∧
      lt = (loaded ++ extra) ++ n :: rest ∧ Parked (drive fuel r).1 (loaded ++ extra) n rest := by
  intro fuel
  induction fuel with
  | zero => intro r loaded _; left; rfl
  | succ k ih =>
    intro r loaded hs
    rw [drive_succ, if_neg (by simp [hs.run])]
    cases htodo : r.todo with
    | nil => left; simp only; exact sentNews_finish r
    | cons n rest =>
      simp only
      have hlr := load_reach r.L n.path n.cid
      have hlrec := load_record_done r.L n.path n.cid
      have hlp := load_pending r.L n.path n.cid
      have hlo := load_isOpen r.L n.path n.cid
      have hso := load_store_origin r.L n.path n.cid
      unfold loadNode
      generalize Loader.load r.L n.path n.cid = ld at hlr hlrec hlp hlo hso
      obtain ⟨l1, out⟩ := ld
      simp only at hlr hlrec hlp hlo hso
      cases out with
      | blocked => left; rfl
      | done res =>
        dsimp only
        obtain ⟨g1, g2, g3, g4⟩ := hlr.2 res rfl
        have hrl := hs.q.rl hs.run hs.nb
        by_cases hmiss : isMiss res = true
        · -- the first local miss after `Unpause`
          rw [if_pos (by simp [hmiss, hs.unsent])]
          obtain ⟨_, u, hm⟩ := hlp.2 res rfl
          have hcl : l1.isOpen = false := by rw [hlo]; exact hs.closed
          rw [retry_after_open l1 _ hm hcl]
          simp only
          right
          refine ⟨[], n, rest, [], ?_, rfl, rfl, ?_, ?_⟩
          · simp only [List.append_nil, List.nil_append]; rw [hs.nb]
          · rw [List.append_nil, hs.q.split, htodo]
          · rw [List.append_nil, setOnline_true_closed l1 hcl]
            refine ⟨htodo, hs.nb, hs.run, rfl, hs.ctx, rfl, rfl, ?_, rfl, rfl, rfl, ?_⟩
            · simp only; rw [hlrec]; exact hrl.recd
            · intro m hm'; simp only; exact g3 _ (hrl.held m hm')
        · rw [if_neg (by simp [hmiss])]
          simp only
          rcases handle_cases { r with L := l1 } n rest res with ⟨he, _, _⟩ | ⟨⟨c, p, he⟩, _, _⟩ | ⟨hgo, _⟩
          · -- delivered: the executor goes on
            rw [handle_data _ n rest res he]
            simp only
            have hq2 : ∃ loaded', Q lt st0 (handle { r with L := l1 } n rest res).1 loaded' :=
              Q_after lt st0 r loaded n rest hs.q htodo _ res rfl rfl rfl
                (fun hr hn => by simp only; rw [g1, (hs.q.rl hr hn).recd]) g2 g3 g4
                (fun x hx => (hso x hx).elim Or.inl (fun h => Or.inr h.1))
            rw [handle_data _ n rest res he] at hq2
            simp only at hq2
            obtain ⟨loaded', hq'⟩ := hq2
            have hl' : loaded' = loaded ++ [n] :=
              hq'.unique (by simp only; rw [hs.q.split, htodo]; simp)
            subst hl'
            have hs2 : SR lt st0 { r with L := l1, todo := rest, nBlocks := r.nBlocks + 1 } (loaded ++ [n]) :=
              ⟨hq', by simp [hs.nb], hs.run, hs.unsent, by simp only; rw [hlo]; exact hs.closed, hs.ctx⟩
            rcases ih _ _ hs2 with hno | ⟨extra, n', rest', evs, h1, h2, h3, h4, h5⟩
            · left
              simp only [List.nil_append, sentNews_append, sentNews_writeEvs, hno]
              rfl
            · right
              refine ⟨n :: extra, n', rest',
                writeEvs res ++ [Ev.block n.cid n.path res.loc (r.nBlocks + 1), Ev.prog n.vData] ++ evs, ?_, ?_, ?_, ?_, ?_⟩
              · rw [h1]; simp
              · simp only [sentNews_append, sentNews_writeEvs, h2]; rfl
              · simp only [resultsOf_append, resultsOf_writeEvs, h3]
                simp [resultsOf, keyOf]
              · rw [h4]; simp
              · have : loaded ++ n :: extra = (loaded ++ [n]) ++ extra := by simp
                rw [this]; exact h5
          · exfalso
            unfold isMiss at hmiss
            rw [he] at hmiss
            exact hmiss rfl
          · left
            have hsn := sentNews_handle { r with L := l1 } n rest res
            generalize handle { r with L := l1 } n rest res = hd at hgo hsn
            obtain ⟨r2, evs, go⟩ := hd
            simp only at hgo hsn
            subst hgo
            simp only [List.nil_append]
            exact hsn

end GS.C06

namespace GS.C06
open GS.Loader GS.Requestor GS.PauseResume

/-! ### the user's do-not-send-first-blocks value never changes -/

theorem handle_us (s : Requestor.State) (n : LNode) (rest : LT) (res : Result) :
    (handle s n rest res).1.userSkip = s.userSkip := by
  have hfin : ∀ s' : Requestor.State, (finish s').1.userSkip = s'.userSkip := fun s' => rfl
  have hfw : ∀ e, (failWith s e).1.userSkip = s.userSkip := fun e => rfl
  unfold handle
  cases res.err with
  | none => rfl
  | some e =>
    simp only
    split
    · exact hfin s
    · cases e with
      | missing c p =>
        simp only
        split
        · exact hfw .other
        · rfl
      | incorrect a b q => exact hfw (.load (.incorrect a b q))
      | extraData => exact hfw (.load .extraData)
      | nothingLeft => exact hfw (.load .nothingLeft)
      | retryNone => exact hfw (.load .retryNone)

theorem drive_us : ∀ (fuel : Nat) (r : Requestor.State), (drive fuel r).1.userSkip = r.userSkip := by
  intro fuel
  induction fuel with
  | zero => intro r; rfl
  | succ k ih =>
    intro r
    rw [drive_succ]
    split
    · rfl
    · cases r.todo with
      | nil => rfl
      | cons n rest =>
        simp only
        have h1 := (loadNode_ctx r n).2.2
        generalize loadNode r n = ln at h1
        obtain ⟨r1, ev1, ores⟩ := ln
        simp only at h1
        cases ores with
        | none => exact h1
        | some res =>
          simp only
          have h2 := handle_us r1 n rest res
          generalize handle r1 n rest res = hd at h2
          obtain ⟨r2, evs, go⟩ := hd
          simp only at h2
          cases go with
          | true => simp only; rw [ih r2, h2, h1]
          | false => simp only; rw [h2, h1]

theorem resume_us (r : Requestor.State) : (Requestor.resume r).1.userSkip = r.userSkip := by
  obtain ⟨L, todo, ph, rs, nb, us, cc, te⟩ := r
  unfold Requestor.resume
  simp only
  cases Loader.wake L with
  | mk l1 ores =>
    cases ores with
    | none => rfl
    | some res =>
      simp only
      cases todo with
      | nil => rfl
      | cons n rest =>
        simp only
        have h2 := handle_us ⟨l1, n :: rest, ph, rs, nb, us, cc, te⟩ n rest res
        generalize handle ⟨l1, n :: rest, ph, rs, nb, us, cc, te⟩ n rest res = hd at h2
        obtain ⟨r2, evs, go⟩ := hd
        simp only at h2
        cases go with
        | true => simp only; rw [drive_us, h2]
        | false => exact h2

theorem message_us (r : Requestor.State) (f k : Bool) (st : Nat) (md : List (Cid × Action)) (bl : List (Cid × Blk)) :
    (message r f k st md bl).1.userSkip = r.userSkip := by
  unfold message
  split
  · rfl
  · rw [resume_us, (applyStatus_frameQ _ st).2.2.2.2.2.2.2.2]

theorem feed_us : ∀ (msgs : List Requestor.Msg) (r : Requestor.State), (feed r msgs).1.userSkip = r.userSkip := by
  intro msgs
  induction msgs with
  | nil => intro r; rfl
  | cons m rest ih => intro r; simp only [feed]; rw [ih, message_us]

theorem request_us (st : List (Cid × Blk)) (lt : LT) (u : Nat) :
    (Requestor.request { L := { store := st } } lt u).1.userSkip = u := by
  unfold Requestor.request
  rw [drive_us]

/-! ### reading the delivered prefix off a walk without missing-block errors -/

theorem steps_results {a b : LT} {evs : List Ev} (h : Steps a evs b) (hnm : missingOf evs = []) :
    ∃ ld, a = ld ++ b ∧ resultsOf evs = (ld.map (fun m => (m, true))).map keyOf := by
  induction h with
  | done t => exact ⟨[], rfl, rfl⟩
  | ctl ev hc _ ih =>
    cases ev with
    | sentNew w => exact ih hnm
    | sentCancel => exact ih hnm
    | err e =>
      cases e with
      | load le =>
        cases le with
        | missing c p => simp [missingOf] at hnm
        | _ => exact ih (by simpa [missingOf] using hnm)
      | status c => exact ih (by simpa [missingOf] using hnm)
      | other => exact ih (by simpa [missingOf] using hnm)
    | prog k => cases hc
    | write c bb => cases hc
    | block c p l i => cases hc
  | @data rest' t' evs' n wrote loc i _ ih =>
    have hnm' : missingOf evs' = [] := by
      cases wrote <;> simpa [missingOf] using hnm
    obtain ⟨ld, h1, h2⟩ := ih hnm'
    refine ⟨n :: ld, by rw [h1]; rfl, ?_⟩
    cases wrote <;> simp [resultsOf, h2, keyOf]
  | skip n _ _ => simp [missingOf] at hnm

/-! ### prefixes of a depth-first path list -/

theorem mem_dropWhile_append {α : Type} (f : α → Bool) : ∀ (A B : List α) (y : α),
    y ∈ A.dropWhile f → y ∈ (A ++ B).dropWhile f
  | [], _, _, h => by simp at h
  | a :: A, B, y, h => by
    simp only [List.cons_append, List.dropWhile_cons] at h ⊢
    split
    · rename_i hfa; rw [if_pos hfa] at h; exact mem_dropWhile_append f A B y h
    · rename_i hfa; rw [if_neg hfa] at h
      simp only [List.mem_cons] at h ⊢
      rcases h with h | h
      · exact Or.inl h
      · exact Or.inr (List.mem_append_left _ h)

theorem PathsDFS.prefix : ∀ (A : List Path) {B : List Path}, PathsDFS (A ++ B) → PathsDFS A
  | [], _, _ => trivial
  | p :: A, B, h => by
    refine ⟨fun y hy => h.1 y (List.mem_append_left _ hy), fun x hx y hy => ?_, PathsDFS.prefix A h.2.2⟩
    exact h.2.1 x hx y (mem_dropWhile_append _ A B y hy)

/-! ### the pause point and the `Unpause` -/

theorem applyStatus_ctx (s : Requestor.State) (st : Nat) (hf : isFailure st = false) :
    (applyStatus s st).ctxCancelled = s.ctxCancelled := by
  unfold applyStatus
  split
  · split
    · rename_i h; rw [hf] at h; cases h
    · rfl
  · rfl

/-- `Unpause` after a pause at block `k`: the executor goes on from the same traverser and loader
    (offline since the pause), with `requestSent` reset -/
theorem unpause_at (k : Nat) (r' : Requestor.State) (hrun : r'.phase = .running) (hk : r'.nBlocks = k) :
    PauseResume.unpause (stopForPause (hooked [k] r')).1 =
      (hooked [k] (drive (fuelFor r') (unsent { r' with L := Loader.setOnline r'.L false })).1,
        (drive (fuelFor r') (unsent { r' with L := Loader.setOnline r'.L false })).2) := by
  have hd : DeadAt [k] (unsent { r' with L := Loader.setOnline r'.L false }) := by
    intro j hj
    simp only [List.mem_singleton] at hj
    show j ≤ r'.nBlocks
    omega
  rw [← driveP_dead [k] (fuelFor r') _ hd]
  obtain ⟨L, todo, phase, rs, nb, us, cc, te⟩ := r'
  simp only at hrun
  subst hrun
  unfold PauseResume.unpause stopForPause
  simp only [hooked, bne_self_eq_false, Bool.not_true, Bool.or_self, Bool.false_eq_true, if_false]
  rfl

end GS.C06

namespace GS.C06
open GS.Loader GS.Requestor GS.PauseResume

/-! ### the block count is the number of block-hook reports -/

/-- number of loads answered with data that the events report -/
def cnt (evs : List Ev) : Nat := (PauseResume.blocksOf evs).length

theorem cnt_append (a b : List Ev) : cnt (a ++ b) = cnt a + cnt b := by
  unfold cnt; rw [blocksOf_append, List.length_append]

theorem cnt_writeEvs (r : Result) : cnt (writeEvs r) = 0 := by
  unfold writeEvs; split <;> rfl

theorem cnt_finish (s : Requestor.State) : cnt (finish s).2 = 0 := by
  unfold finish; dsimp only; split <;> rfl

theorem cnt_failWith (s : Requestor.State) (e : RErr) : cnt (failWith s e).2 = 0 := by
  unfold failWith
  dsimp only
  rw [cnt_append, cnt_finish]
  cases e <;> rfl

theorem handle_count (s : Requestor.State) (n : LNode) (rest : LT) (res : Result) :
    cnt (handle s n rest res).2.1 + s.nBlocks = (handle s n rest res).1.nBlocks := by
  unfold handle
  cases res.err with
  | none =>
    simp only [cnt_append, cnt_writeEvs]
    show 0 + 1 + s.nBlocks = s.nBlocks + 1
    omega
  | some e =>
    simp only
    split
    · simp only [cnt_append, cnt_writeEvs, cnt_finish, finish_nBlocks]
      omega
    · cases e with
      | missing c p =>
        simp only
        split
        · simp only [cnt_append, cnt_writeEvs, cnt_failWith, failWith_nBlocks]
          show 0 + 0 + 0 + s.nBlocks = s.nBlocks
          omega
        · simp only [cnt_append, cnt_writeEvs]
          show 0 + 0 + s.nBlocks = s.nBlocks
          omega
      | incorrect a b q =>
        simp only [cnt_append, cnt_writeEvs, cnt_failWith, failWith_nBlocks]
        show 0 + 0 + 0 + s.nBlocks = s.nBlocks
        omega
      | extraData =>
        simp only [cnt_append, cnt_writeEvs, cnt_failWith, failWith_nBlocks]
        show 0 + 0 + 0 + s.nBlocks = s.nBlocks
        omega
      | nothingLeft =>
        simp only [cnt_append, cnt_writeEvs, cnt_failWith, failWith_nBlocks]
        show 0 + 0 + 0 + s.nBlocks = s.nBlocks
        omega
      | retryNone =>
        simp only [cnt_append, cnt_writeEvs, cnt_failWith, failWith_nBlocks]
        show 0 + 0 + 0 + s.nBlocks = s.nBlocks
        omega

theorem loadNode_count (r : Requestor.State) (n : LNode) : cnt (loadNode r n).2.1 = 0 := by
  unfold loadNode
  split
  · rfl
  · split
    · split <;> rfl
    · rfl

theorem drive_count : ∀ (fuel : Nat) (r : Requestor.State), cnt (drive fuel r).2 + r.nBlocks = (drive fuel r).1.nBlocks := by
  intro fuel
  induction fuel with
  | zero => intro r; show 0 + r.nBlocks = r.nBlocks; omega
  | succ k ih =>
    intro r
    rw [drive_succ]
    split
    · show 0 + r.nBlocks = r.nBlocks; omega
    · cases r.todo with
      | nil => simp only; rw [cnt_finish, finish_nBlocks]; omega
      | cons n rest =>
        simp only
        have h1 := loadNode_nBlocks r n
        have h0 := loadNode_count r n
        generalize loadNode r n = ln at h1 h0
        obtain ⟨r1, ev1, ores⟩ := ln
        simp only at h1 h0
        cases ores with
        | none => simp only; rw [h0, h1]; omega
        | some res =>
          simp only
          have h2 := handle_count r1 n rest res
          generalize handle r1 n rest res = hd at h2
          obtain ⟨r2, evs, go⟩ := hd
          simp only at h2
          cases go with
          | true =>
            simp only
            have := ih r2
            rw [cnt_append, cnt_append, h0]
            omega
          | false => simp only; rw [cnt_append, h0]; omega

theorem resume_count (r : Requestor.State) : cnt (Requestor.resume r).2 + r.nBlocks = (Requestor.resume r).1.nBlocks := by
  obtain ⟨L, todo, ph, rs, nb, us, cc, te⟩ := r
  unfold Requestor.resume
  simp only
  cases Loader.wake L with
  | mk l1 ores =>
    cases ores with
    | none => show 0 + nb = nb; omega
    | some res =>
      simp only
      cases todo with
      | nil => show 0 + nb = nb; omega
      | cons n rest =>
        simp only
        have h2 := handle_count ⟨l1, n :: rest, ph, rs, nb, us, cc, te⟩ n rest res
        generalize handle ⟨l1, n :: rest, ph, rs, nb, us, cc, te⟩ n rest res = hd at h2
        obtain ⟨r2, evs, go⟩ := hd
        simp only at h2
        cases go with
        | true =>
          simp only
          have := drive_count (fuelFor r2) r2
          rw [cnt_append]
          omega
        | false => exact h2

theorem message_count (r : Requestor.State) (f k : Bool) (st : Nat) (md : List (Cid × Action)) (bl : List (Cid × Blk)) :
    cnt (message r f k st md bl).2 + r.nBlocks = (message r f k st md bl).1.nBlocks := by
  unfold message
  split
  · show 0 + r.nBlocks = r.nBlocks; omega
  · have := resume_count (applyStatus { r with L := Loader.ingest r.L md bl } st)
    rw [applyStatus_nBlocks] at this
    exact this

theorem feed_count : ∀ (msgs : List Requestor.Msg) (r : Requestor.State),
    cnt (feed r msgs).2 + r.nBlocks = (feed r msgs).1.nBlocks := by
  intro msgs
  induction msgs with
  | nil => intro r; show 0 + r.nBlocks = r.nBlocks; omega
  | cons m rest ih =>
    intro r
    simp only [feed]
    have h1 := message_count r m.fromPeer0 m.known m.status m.md m.blocks
    have h2 := ih (message r m.fromPeer0 m.known m.status m.md m.blocks).1
    rw [cnt_append]
    omega

theorem request_count (st : List (Cid × Blk)) (lt : LT) (u : Nat) :
    cnt (Requestor.request { L := { store := st } } lt u).2 = (Requestor.request { L := { store := st } } lt u).1.nBlocks := by
  unfold Requestor.request
  have := drive_count (fuelFor { ({ L := { store := st } } : Requestor.State) with todo := lt, phase := .running, userSkip := u })
    { ({ L := { store := st } } : Requestor.State) with todo := lt, phase := .running, userSkip := u }
  simpa using this

/-- `PQ` + the user's skip value -/
def PQU (lt : LT) (st0 : List (Cid × Blk)) (u : Nat) (r : Requestor.State) : Prop := PQ lt st0 r ∧ r.userSkip = u

theorem PQU_pres (lt : LT) (st0 : List (Cid × Blk)) (u : Nat) : PresAt (PQU lt st0 u) := by
  intro r n rest r1 ev1 res r2 evs hp htodo hln hh
  refine ⟨PQ_pres lt st0 r n rest r1 ev1 res r2 evs hp.1 htodo hln hh, ?_⟩
  have h1 := (loadNode_ctx r n).2.2
  have h2 := handle_us r1 n rest res
  rw [hln] at h1
  rw [hh] at h2
  simp only at h1 h2
  rw [h2, h1]; exact hp.2

theorem PQU_wake (lt : LT) (st0 : List (Cid × Blk)) (u : Nat) : PresWakeAt (PQU lt st0 u) := by
  intro r l1 res n rest r2 evs hp htodo hw hh
  refine ⟨PQ_wake lt st0 r l1 res n rest r2 evs hp.1 htodo hw hh, ?_⟩
  have h2 := handle_us { r with L := l1 } n rest res
  rw [hh] at h2
  simp only at h2
  rw [h2]; exact hp.2

/-- **the pause point.**  Any messages `m1` during which block `k` is not loaded, then a message `M`
    (no failure status) during which the block hook pauses the request at block `k`: the paused
    exchange stands in `stopForPause` of a plain requestor state `r'` with `k` blocks loaded that
    satisfies the reachability invariant; its last report is the cancel. -/
theorem pause_point (st : List (Cid × Blk)) (lt : LT) (u k : Nat) (m1 : List Requestor.Msg) (M : Requestor.Msg)
    (F : Requestor.State → Prop) (hF1 : PresAt F) (hF2 : PresWakeAt F)
    (hF : F (applyStatus { (Requestor.exchange st lt u m1).1 with
      L := Loader.ingest (Requestor.exchange st lt u m1).1.L M.md M.blocks } M.status))
    (hpre : (Requestor.exchange st lt u m1).1.nBlocks < k)
    (hctx : (Requestor.exchange st lt u m1).1.ctxCancelled = false)
    (hfail : isFailure M.status = false)
    (hpaused : (PauseResume.exchange st lt u [k] (m1.map toOp ++ [toOp M])).1.paused = true) :
    ∃ r' e0, PauseResume.exchange st lt u [k] (m1.map toOp ++ [toOp M]) =
        ((stopForPause (hooked [k] r')).1, e0 ++ [Ev.sentCancel]) ∧
      r'.nBlocks = k ∧ PQU lt st u r' ∧ cnt e0 = k ∧ F r' := by
  have hex : ∀ ms, Requestor.exchange st lt u ms =
      ((feed (Requestor.request { L := { store := st } } lt u).1 ms).1,
        (Requestor.request { L := { store := st } } lt u).2 ++ (feed (Requestor.request { L := { store := st } } lt u).1 ms).2) := by
    intro ms; rfl
  rw [hex] at hpre hctx hF
  simp only at hpre hctx hF
  have hQ0 := request_Q st lt u
  have hU0 := request_us st lt u
  have hC0 := request_count st lt u
  generalize hq : Requestor.request { L := { store := st } } lt u = q at hpre hctx hQ0 hU0 hC0 hF
  obtain ⟨s0, ev0⟩ := q
  simp only at hpre hctx hQ0 hU0 hC0 hF
  have h0 : s0.nBlocks < k := Nat.lt_of_le_of_lt (feed_nBlocks m1 s0) hpre
  have hreq := request_notyet k st lt u (by rw [hq]; exact h0)
  rw [hq] at hreq
  simp only at hreq
  have hrun := run_notyet k m1 s0 hpre
  have hQ1 := feed_Q lt st m1 s0 hQ0
  have hU1 : (feed s0 m1).1.userSkip = u := by rw [feed_us]; exact hU0
  unfold PauseResume.exchange at hpaused ⊢
  rw [hreq] at hpaused ⊢
  simp only at hpaused ⊢
  rw [prun_append, hrun] at hpaused ⊢
  simp only [PauseResume.run, PauseResume.step, toOp, List.append_nil] at hpaused ⊢
  by_cases hg : ((feed s0 m1).1.phase != Phase.running || !M.fromPeer0 || !M.known) = true
  · exfalso
    have h1 : PauseResume.deliver (hooked [k] (feed s0 m1).1) M.fromPeer0 M.known M.status M.md M.blocks =
        (hooked [k] (feed s0 m1).1, []) := by
      unfold PauseResume.deliver
      have : ((hooked [k] (feed s0 m1).1).R.phase != Phase.running || !M.fromPeer0 || !M.known) = true := hg
      rw [if_pos this]
    rw [h1] at hpaused
    simp [hooked] at hpaused
  · have hrun1 : (feed s0 m1).1.phase = .running := by
      have : ((feed s0 m1).1.phase != Phase.running) = false := by
        cases h : ((feed s0 m1).1.phase != Phase.running) with
        | false => rfl
        | true => simp [h] at hg
      simpa using this
    obtain ⟨loaded1, hq1⟩ := hQ1
    have hfr := applyStatus_frameQ { (feed s0 m1).1 with L := Loader.ingest (feed s0 m1).1.L M.md M.blocks } M.status
    have hp : PQU lt st u (applyStatus { (feed s0 m1).1 with L := Loader.ingest (feed s0 m1).1.L M.md M.blocks } M.status) := by
      refine ⟨⟨⟨loaded1, ingestStatus_Q lt st _ loaded1 hq1 _ _ _⟩, ?_, ?_⟩, ?_⟩
      · rw [applyStatus_ctx _ _ hfail]; exact hctx
      · rw [hfr.2.2.1]; exact hrun1
      · rw [hfr.2.2.2.2.2.2.2.2]; exact hU1
    have hsplit := deliver_splitAt k (fun r => PQU lt st u r ∧ F r)
      (fun r n rest r1 ev1 res r2 evs hp0 htd hln hh =>
        ⟨PQU_pres lt st u r n rest r1 ev1 res r2 evs hp0.1 htd hln hh, hF1 r n rest r1 ev1 res r2 evs hp0.2 htd hln hh⟩)
      (fun r l1 res n rest r2 evs hp0 htd hw hh =>
        ⟨PQU_wake lt st u r l1 res n rest r2 evs hp0.1 htd hw hh, hF2 r l1 res n rest r2 evs hp0.2 htd hw hh⟩)
      (feed s0 m1).1 M.fromPeer0 M.known M.status M.md M.blocks hpre ⟨hp, hF⟩
    rcases hsplit with h | ⟨r', e1, f', hk, _, hP', hX, hY⟩
    · exfalso
      rw [h] at hpaused
      simp [hooked] at hpaused
    · refine ⟨r', ev0 ++ (feed s0 m1).2 ++ e1, ?_, hk, hP'.1, ?_, hP'.2⟩
      · rw [hX]
        simp
      · have c1 := feed_count m1 s0
        have c2 := message_count (feed s0 m1).1 M.fromPeer0 M.known M.status M.md M.blocks
        rw [hY] at c2
        simp only at c2
        have c3 := drive_count f' r'
        rw [cnt_append] at c2
        rw [cnt_append, cnt_append]
        omega

/-- **`Unpause` up to the re-opening.**  From the pause point `r'` (every load so far delivered:
    `loaded` has `k` nodes), `Unpause` either sends no request at all, or ends — after delivering
    `extra` further blocks from left-over queue items / the local store — in the parked state right
    after going online again, its last report being the new request with
    do-not-send-first-blocks = max(user value, blocks loaded). -/
theorem unpause_reopen (lt : LT) (st0 : List (Cid × Blk)) (u k : Nat) (r' : Requestor.State) (loaded : LT) (hP : PQU lt st0 u r')
    (hq : Q lt st0 r' loaded) (hk : r'.nBlocks = k) (hlen : loaded.length = k) :
    sentNews (PauseResume.unpause (stopForPause (hooked [k] r')).1).2 = [] ∨
    ∃ extra n rest evs rP,
      PauseResume.unpause (stopForPause (hooked [k] r')).1 =
        (hooked [k] rP, evs ++ [Ev.sentNew (max u (loaded ++ extra).length)]) ∧
      sentNews evs = [] ∧ resultsOf evs = (extra.map (fun m => (m, true))).map keyOf ∧
      lt = (loaded ++ extra) ++ n :: rest ∧ Parked rP (loaded ++ extra) n rest ∧ QE lt st0 rP := by
  obtain ⟨⟨_, hctx, hrun⟩, hus⟩ := hP
  rw [unpause_at k r' hrun hk]
  have f := setOnline_frame r'.L false
  have hs : SR lt st0 (unsent { r' with L := Loader.setOnline r'.L false }) loaded := by
    refine ⟨hq.frame rfl rfl (fun h => h) f.1 f.2.1 (setOnline_record _ _) f.2.2, ?_, hrun, rfl, ?_, hctx⟩
    · show r'.nBlocks = loaded.length
      omega
    · show (Loader.setOnline r'.L false).isOpen = false
      unfold Loader.setOnline; simp
  rcases drive_reopen lt st0 (fuelFor r') _ loaded hs with h | ⟨extra, n, rest, evs, h1, h2, h3, h4, h5⟩
  · left; exact h
  · right
    refine ⟨extra, n, rest, evs, _, ?_, h2, h3, h4, h5, drive_Q lt st0 _ _ ⟨loaded, hs.q⟩⟩
    rw [h1]
    have : (unsent { r' with L := Loader.setOnline r'.L false }).userSkip = u := hus
    rw [this]

end GS.C06

namespace GS.Loader
open GS.Requestor (LNode LT)

/-! ### no entry of any response so far was "not followed": the path tracker holds no value -/

/-- the path tracker is empty and every queued (or re-queueable) entry is one the responder followed -/
structure Fol (l : State) : Prop where
  unf : l.unfollowed = []
  q : ∀ it ∈ l.rq.q, it.action.didFollow = true
  last : ∀ it, l.rq.last = some it → it.action.didFollow = true

theorem recordRemoteAttempt_fol (s : State) (p : Path) (a : Action) (h : a.didFollow = true) :
    recordRemoteAttempt s p a = s := by
  unfold recordRemoteAttempt; simp [h]

theorem Fol.consume {s : State} (h : Fol s) (ver : Option Ver) : Fol { s with rq := s.rq.consume, ver := ver } := by
  unfold RQ.consume
  cases hq : s.rq.q with
  | nil => exact ⟨h.unf, by simp [hq], by simpa [hq] using h.last⟩
  | cons x rest =>
    refine ⟨h.unf, ?_, ?_⟩
    · intro it hit; simp only at hit; exact h.q it (by rw [hq]; exact List.mem_cons_of_mem _ hit)
    · intro it hit
      simp only [Option.some.injEq] at hit
      subst hit
      exact h.q x (by rw [hq]; exact List.mem_cons_self ..)

theorem waitRemote_Fol (fuel : Nat) (s : State) (h : Fol s) : Fol (waitRemote fuel s).1 := by
  induction fuel generalizing s with
  | zero => exact h
  | succ n ih =>
    unfold waitRemote
    dsimp only
    split
    · rename_i head tl hq
      split
      · exact ⟨h.unf, h.q, h.last⟩
      · split
        · have := h.consume s.ver
          exact ⟨this.unf, this.q, this.last⟩
        · rename_i v' _
          have hf : head.action.didFollow = true := h.q head (by rw [hq]; exact List.mem_cons_self ..)
          rw [recordRemoteAttempt_fol _ _ _ hf]
          exact ih _ (h.consume (some v'))
    · split <;> exact h

theorem stillOnUnfollowed_fol (s : State) (p : Path) (h : s.unfollowed = []) : stillOnUnfollowed s p = (s, false) := by
  unfold stillOnUnfollowed; simp [h]

theorem run_Fol (s : State) (p : Path) (c : Cid) (h : Fol s) : Fol (run s p c).1 := by
  have hw := waitRemote_Fol (s.rq.q.length + 1) s h
  unfold run
  dsimp only
  generalize waitRemote (s.rq.q.length + 1) s = w at hw
  obtain ⟨s1, wt⟩ := w
  simp only at hw
  cases wt with
  | blocked => exact ⟨hw.unf, hw.q, hw.last⟩
  | err e => exact ⟨hw.unf, hw.q, hw.last⟩
  | offline => exact ⟨hw.unf, hw.q, hw.last⟩
  | remote =>
    dsimp only
    rw [stillOnUnfollowed_fol s1 p hw.unf]
    dsimp only
    simp only [Bool.false_eq_true, if_false]
    split
    · exact ⟨hw.unf, hw.q, hw.last⟩
    · rename_i head tl hq
      have hc := hw.consume s1.ver
      have hf : head.action.didFollow = true := hw.q head (by rw [hq]; exact List.mem_cons_self ..)
      split
      · exact ⟨hc.unf, hc.q, hc.last⟩
      · rw [recordRemoteAttempt_fol _ _ _ hf]
        split
        · exact ⟨hc.unf, hc.q, hc.last⟩
        · exact ⟨hc.unf, hc.q, hc.last⟩

theorem load_Fol (s : State) (p : Path) (c : Cid) (h : Fol s) : Fol (load s p c).1 := by
  rw [load_eq]
  apply run_Fol
  unfold prologue
  split
  · exact ⟨h.unf, h.q, h.last⟩
  · exact h

theorem retry_Fol (s : State) (h : Fol s) : Fol (retry s).1 := by
  unfold retry
  split
  · exact h
  · rename_i a _
    dsimp only
    apply load_Fol
    split
    · -- retryLast
      unfold RQ.retryLast
      cases hl : s.rq.last with
      | none => exact ⟨h.unf, by simpa [hl] using h.q, by simp [hl]⟩
      | some x =>
        have hx := h.last x hl
        simp only
        split
        · refine ⟨h.unf, ?_, by simp⟩
          intro it hit
          simp only [List.mem_cons] at hit
          rcases hit with rfl | hit
          · exact hx
          · exact h.q it hit
        · split
          · exact ⟨h.unf, by intro it hit; simp only [List.mem_singleton] at hit; subst hit; exact hx, by simp⟩
          · exact ⟨h.unf, by intro it hit; simp only [List.mem_singleton] at hit; subst hit; exact hx, by simp⟩
    · exact ⟨h.unf, h.q, h.last⟩

theorem setOnline_Fol (s : State) (b : Bool) (h : Fol s) : Fol (setOnline s b) := by
  unfold setOnline
  dsimp only
  split
  · exact ⟨h.unf, by simp [RQ.clear], by simp [RQ.clear]⟩
  · exact ⟨h.unf, h.q, h.last⟩

theorem cleanup_Fol (s : State) (h : Fol s) : Fol (cleanup s) :=
  ⟨h.unf, by simp [cleanup, RQ.clear], by simp [cleanup, RQ.clear]⟩

theorem buildItems_go_action (bl : List (Cid × Blk)) : ∀ (md : List (Cid × Action)) (dups : List Cid),
    ∀ it ∈ buildItems.go bl md dups, ∃ e ∈ md, it.action = e.2
  | [], _ => by intro it hit; simp [buildItems.go] at hit
  | (l, a) :: rest, dups => by
    intro it hit
    unfold buildItems.go at hit
    split at hit
    · simp only [List.mem_cons] at hit
      rcases hit with rfl | hit
      · exact ⟨(l, a), by simp, rfl⟩
      · obtain ⟨e, he, h⟩ := buildItems_go_action bl rest _ it hit
        exact ⟨e, by simp [he], h⟩
    · simp only [List.mem_cons] at hit
      rcases hit with rfl | hit
      · exact ⟨(l, a), by simp, rfl⟩
      · obtain ⟨e, he, h⟩ := buildItems_go_action bl rest _ it hit
        exact ⟨e, by simp [he], h⟩

theorem push_Fol_q (rq : RQ) (it : Item) (hq : ∀ x ∈ rq.q, x.action.didFollow = true) (hit : it.action.didFollow = true) :
    (∀ x ∈ (rq.push it).q, x.action.didFollow = true) ∧ (rq.push it).last = rq.last := by
  unfold RQ.push
  split
  · exact ⟨by intro x hx; simp only [List.mem_singleton] at hx; subst hx; exact hit, rfl⟩
  · split
    · refine ⟨?_, rfl⟩
      intro x hx
      simp only [List.mem_append, List.mem_singleton] at hx
      rcases hx with hx | rfl
      · exact hq x hx
      · exact hit
    · exact ⟨hq, rfl⟩

theorem queue_Fol_q : ∀ (items : List Item) (rq : RQ), (∀ x ∈ rq.q, x.action.didFollow = true) →
    (∀ it ∈ items, it.action.didFollow = true) →
    (∀ x ∈ (rq.queue items).q, x.action.didFollow = true) ∧ (rq.queue items).last = rq.last
  | [], rq, hq, _ => ⟨hq, rfl⟩
  | it :: rest, rq, hq, hi => by
    have h1 := push_Fol_q rq it hq (hi it (by simp))
    have h2 := queue_Fol_q rest (rq.push it) h1.1 (fun x hx => hi x (by simp [hx]))
    unfold RQ.queue
    simp only [List.foldl_cons]
    exact ⟨h2.1, h2.2.trans h1.2⟩

theorem ingest_Fol (s : State) (md : List (Cid × Action)) (bl : List (Cid × Blk)) (h : Fol s)
    (hmd : ∀ e ∈ md, e.2.didFollow = true) : Fol (ingest s md bl) := by
  unfold ingest
  split
  · exact h
  · split
    · exact h
    · have hitems : ∀ it ∈ buildItems md bl, it.action.didFollow = true := by
        intro it hit
        obtain ⟨e, he, ha⟩ := buildItems_go_action bl md [] it hit
        rw [ha]; exact hmd e he
      have := queue_Fol_q (buildItems md bl) s.rq h.q hitems
      exact ⟨h.unf, this.1, by intro it hl; simp only at hl; rw [this.2] at hl; exact h.last it hl⟩

end GS.Loader

namespace GS.C06
open GS.Loader GS.Requestor GS.PauseResume

theorem loadNode_Fol (r : Requestor.State) (n : LNode) (h : Fol r.L) : Fol (loadNode r n).1.L := by
  have h1 := load_Fol r.L n.path n.cid h
  unfold loadNode
  generalize Loader.load r.L n.path n.cid = ld at h1
  obtain ⟨l1, out⟩ := ld
  simp only at h1
  cases out with
  | blocked => exact h1
  | done res =>
    dsimp only
    split
    · have h3 := retry_Fol _ (setOnline_Fol l1 true h1)
      generalize Loader.retry (Loader.setOnline l1 true) = rt at h3
      obtain ⟨l3, o3⟩ := rt
      cases o3 <;> exact h3
    · exact h1

theorem handle_Fol (s : Requestor.State) (n : LNode) (rest : LT) (res : Result) (h : Fol s.L) :
    Fol (handle s n rest res).1.L := by
  have hfin : Fol (finish s).1.L := by rw [(finish_spec s).2.2.1]; exact cleanup_Fol _ h
  have hfw : ∀ e, Fol (failWith s e).1.L := fun e => by
    rw [(failWith_spec s e).2.2.1]; exact cleanup_Fol _ (setOnline_Fol _ _ h)
  unfold handle
  cases res.err with
  | none => exact h
  | some e =>
    simp only
    split
    · exact hfin
    · cases e with
      | missing c p =>
        simp only
        split
        · exact hfw .other
        · exact h
      | incorrect a b q => exact hfw (.load (.incorrect a b q))
      | extraData => exact hfw (.load .extraData)
      | nothingLeft => exact hfw (.load .nothingLeft)
      | retryNone => exact hfw (.load .retryNone)

theorem drive_Fol : ∀ (fuel : Nat) (r : Requestor.State), Fol r.L → Fol (drive fuel r).1.L := by
  intro fuel
  induction fuel with
  | zero => intro r h; exact h
  | succ k ih =>
    intro r h
    rw [drive_succ]
    split
    · exact h
    · cases r.todo with
      | nil => simp only; rw [(finish_spec r).2.2.1]; exact cleanup_Fol _ h
      | cons n rest =>
        simp only
        have h1 := loadNode_Fol r n h
        generalize loadNode r n = ln at h1
        obtain ⟨r1, ev1, ores⟩ := ln
        simp only at h1
        cases ores with
        | none => exact h1
        | some res =>
          simp only
          have h2 := handle_Fol r1 n rest res h1
          generalize handle r1 n rest res = hd at h2
          obtain ⟨r2, evs, go⟩ := hd
          simp only at h2
          cases go with
          | true => simp only; exact ih r2 h2
          | false => exact h2

theorem wake_Fol (l : Loader.State) (h : Fol l) : Fol (Loader.wake l).1 := by
  unfold Loader.wake
  split
  · exact h
  · rename_i p c _
    have := run_Fol l p c h
    split
    · rename_i s' r heq; rw [heq] at this; exact this
    · rename_i s' heq; rw [heq] at this; exact this

theorem resume_Fol (r : Requestor.State) (h : Fol r.L) : Fol (Requestor.resume r).1.L := by
  obtain ⟨L, todo, ph, rs, nb, us, cc, te⟩ := r
  have hw := wake_Fol L h
  unfold Requestor.resume
  simp only
  generalize Loader.wake L = wk at hw
  obtain ⟨l1, ores⟩ := wk
  simp only at hw
  cases ores with
  | none => exact hw
  | some res =>
    simp only
    cases todo with
    | nil => exact hw
    | cons n rest =>
      simp only
      have h2 := handle_Fol ⟨l1, n :: rest, ph, rs, nb, us, cc, te⟩ n rest res hw
      generalize handle ⟨l1, n :: rest, ph, rs, nb, us, cc, te⟩ n rest res = hd at h2
      obtain ⟨r2, evs, go⟩ := hd
      simp only at h2
      cases go with
      | true => simp only; exact drive_Fol _ r2 h2
      | false => exact h2

theorem ingestStatus_Fol (r : Requestor.State) (h : Fol r.L) (st : Nat) (md : List (Cid × Action)) (bl : List (Cid × Blk))
    (hmd : ∀ e ∈ md, e.2.didFollow = true) :
    Fol (applyStatus { r with L := Loader.ingest r.L md bl } st).L := by
  have hi := ingest_Fol r.L md bl h hmd
  rcases (applyStatus_spec { r with L := Loader.ingest r.L md bl } st).2 with hL | hL
  · rw [hL]; exact hi
  · rw [hL]; exact setOnline_Fol _ _ hi

theorem message_Fol (r : Requestor.State) (h : Fol r.L) (f k : Bool) (st : Nat) (md : List (Cid × Action))
    (bl : List (Cid × Blk)) (hmd : ∀ e ∈ md, e.2.didFollow = true) : Fol (message r f k st md bl).1.L := by
  unfold message
  split
  · exact h
  · exact resume_Fol _ (ingestStatus_Fol r h st md bl hmd)

theorem feed_Fol : ∀ (msgs : List Requestor.Msg) (r : Requestor.State), Fol r.L →
    (∀ m ∈ msgs, ∀ e ∈ m.md, e.2.didFollow = true) → Fol (feed r msgs).1.L := by
  intro msgs
  induction msgs with
  | nil => intro r h _; exact h
  | cons m rest ih =>
    intro r h hm
    simp only [feed]
    exact ih _ (message_Fol r h _ _ _ _ _ (hm m (by simp))) (fun m' hm' => hm m' (by simp [hm']))

theorem exchange_Fol (st : List (Cid × Blk)) (lt : LT) (u : Nat) (msgs : List Requestor.Msg)
    (hm : ∀ m ∈ msgs, ∀ e ∈ m.md, e.2.didFollow = true) : Fol (Requestor.exchange st lt u msgs).1.L := by
  have h0 : Fol (Requestor.request { L := { store := st } } lt u).1.L := by
    unfold Requestor.request
    exact drive_Fol _ _ ⟨rfl, fun it hit => (by cases hit), fun it hl => (by cases hl)⟩
  exact feed_Fol msgs _ h0 hm

theorem Fol_pres (G : Prop) : PresAt (fun r => G → Fol r.L) := by
  intro r n rest r1 ev1 res r2 evs hp _ hln hh hg
  have h1 := loadNode_Fol r n (hp hg)
  rw [hln] at h1
  have h2 := handle_Fol r1 n rest res h1
  rw [hh] at h2
  exact h2

theorem Fol_wake (G : Prop) : PresWakeAt (fun r => G → Fol r.L) := by
  intro r l1 res n rest r2 evs hp _ hw hh hg
  have h1 := wake_Fol r.L (hp hg)
  rw [hw] at h1
  have h2 := handle_Fol { r with L := l1 } n rest res h1
  rw [hh] at h2
  exact h2

/-- the loader after `Unpause` (up to wherever the resumed executor gets) still has an empty path tracker -/
theorem unpause_Fol (k : Nat) (r' : Requestor.State) (hrun : r'.phase = .running) (hk : r'.nBlocks = k) (h : Fol r'.L) :
    Fol (PauseResume.unpause (stopForPause (hooked [k] r')).1).1.R.L := by
  rw [unpause_at k r' hrun hk]
  have h0 : Fol (unsent { r' with L := Loader.setOnline r'.L false }).L := by
    show Fol (Loader.setOnline r'.L false)
    exact setOnline_Fol _ _ h
  exact drive_Fol _ _ h0

end GS.C06
