import GS.Model.Panics
import GS.Generated.PanicCleanup
/-!
# Panics and the resources a request shares with other requests (property C22, second layer)

`GS.Panics` (first layer) only says "no crash and independent outcomes": its requests share nothing
but the `crashed` flag.  What can make OTHER requests suffer from a *recovered* panic is what the
failed request keeps holding.  This file models one node (the one the fault is injected on: the
requestor with its request queue, or the responder with its response queue) with the resources a
request holds there while it is executed:

* the **task-queue slot**: from the moment a worker pops the task until `TaskDone` the task occupies
  one of the `workers` workers and counts towards its peer's work in progress (`cap`,
  `MaxOutstandingWorkPerPeer`, 0 = unlimited).  `TaskDone` is the first statement of
  `requestmanager.releaseRequestTask` / `responsemanager.finishTask` (checked by the translator), which
  is where `ReleaseRequestTask` / `FinishTask` end up;
* the **table entry** (`inProgressRequestStatuses` / `inProgressResponses`), removed by
  `terminateRequest` (requestor: in `releaseRequestTask` unless the request was paused; responder:
  `finishTask` puts the response into `CompletingSend`, the entry goes when the terminal message is sent);
* the **tracker entry**: the per-request records other requests of the peer consult - the
  responder's link tracker (finished by the closing transaction `FinishRequest` / `FinishWithError`
  or by `ClearRequest`), the requestor's reconciled loader (cleaned up by `terminateRequest`);
* the traverser's **state mutex**: held whenever user code runs on the traverser goroutine; the
  worker blocks on it in `IsComplete`/`CurrentRequest`.  It is released by `writeDone`.  (No lock is
  held across the user calls made on the worker goroutine: `loadRemote` unlocks `rl.lock` before it
  calls the storage functions, `loadLocal` and `queryexecutor.loadBlock` hold none.)

The clean-up a failing request runs is **not written by hand**: it is the statement list that
follows the call of the recovered traversal function in the two `ExecuteTask`s,
`GS.Generated.PanicCleanup.requestor/responder` (translator `translate/paniccleanup`), interpreted by
`cleanupActs` for the class of the error; and the traverser's recover frame is
`GS.Generated.PanicCleanup.travFrame`.  A recovered panic arrives there as error class `panicked`,
an error returned by a user function as `ordinary`.

Core Lean only.
-/
namespace GS.Panics.Res
open GS.Generated.PanicSites GS.Generated.PanicCleanup GS.Panics

/-- what kind of error the traversal function handed back to `ExecuteTask` -/
inductive ErrClass
  | none | ordinary | panicked | paused | cancelled | network
  deriving DecidableEq, Repr

def guardHolds : Guard → ErrClass → Bool
  | .errNonNil, c => decide (c ≠ .none)
  | .notCancel, c => decide (c ≠ .cancelled)
  | .notPaused, c => decide (c ≠ .paused)
  | .isPaused, c => decide (c = .paused)
  | .netOrCancel, c => decide (c = .network) || decide (c = .cancelled)

/-- the statements of one function that run for an error of class `c`, up to its first `return` -/
def runLevel (c : ErrClass) : List Item → List Act
  | [] => []
  | it :: rest =>
    if it.guards.all (fun g => guardHolds g c) then
      (if it.act = .ret then [] else it.act :: runLevel c rest)
    else runLevel c rest

/-- everything that runs after the traversal returned, innermost function first -/
def cleanupActs (levels : List (List Item)) (c : ErrClass) : List Act :=
  levels.flatMap (runLevel c)

def isSlotRelease (a : Act) : Bool := decide (a = .releaseTask) || decide (a = .finishTask)

/-- clean-up statements that drop the request's tracker records -/
def dropsTrackerAct (a : Act) : Bool :=
  decide (a = .releaseTask) || decide (a = .clearRequest) || decide (a = .closeResponse)

/-- the error classes a traversal of this model can end with -/
def relClasses : List ErrClass := [.none, .ordinary, .panicked]

/-- decidable check of a clean-up path and traverser frame: the frame hands a panic to writeDone, and
for each of these classes the path calls TaskDone exactly once and drops the tracker records -/
def releasesAll (levels : List (List Item)) (trav : List TravAct) : Bool :=
  trav.contains .writeDoneOnPanic &&
  relClasses.all (fun c =>
    decide ((cleanupActs levels c).countP isSlotRelease = 1) && (cleanupActs levels c).any dropsTrackerAct)

/-- `terminateRequest` is skipped for a paused request -/
def dropsTable (c : ErrClass) : Bool := decide (c ≠ .paused)

/-- user code of these kinds runs on the traverser goroutine, with the state mutex held -/
def onTraverser : Kind → Bool
  | .codec | .reifier | .chooser | .selector => true
  | _ => false

inductive Phase
  | queued                         -- in the task queue, table entry exists
  | running                        -- popped: holds a worker and counts for its peer
  | cleaning (todo : List Act)     -- the traversal returned; these statements are still to run
  | done
  deriving DecidableEq, Repr

structure RReq where
  peer      : Nat
  script    : List Call            -- user-function calls made on this node, still to come
  phase     : Phase
  out       : Outcome
  cls       : ErrClass
  delivered : Bool                 -- error / terminal status handed to the client / the wire
  lock      : Bool                 -- state mutex held with nobody left to release it
  released  : Nat                  -- how often TaskDone has been called for this task
  deriving DecidableEq, Repr

structure Cfg where
  workers : Nat
  cap     : Nat                    -- per-peer work in progress, 0 = unlimited
  levels  : List (List Item)       -- generated clean-up path of this node's ExecuteTask
  trav    : List TravAct           -- generated recover frame of the traverser
  fr      : Frames

structure RSys where
  reqs    : List RReq
  busy    : Nat                    -- workers executing a task (popped, TaskDone not yet called)
  active  : List Nat               -- one entry (the peer) per task in progress
  table   : List Nat               -- requests having a table entry
  tracker : List Nat               -- requests having tracker records
  crashed : Bool
  cbLog   : List CbEntry
  deriving Repr

def init (reqs : List RReq) : RSys :=
  { reqs := reqs, busy := 0, active := [], table := List.range reqs.length, tracker := [],
    crashed := false, cbLog := [] }

/-- the traversal is over with error class `c`: the clean-up of `ExecuteTask` is what remains -/
def failWith (cfg : Cfg) (r : RReq) (c : ErrClass) (o : Outcome) (lock : Bool) : RReq :=
  { r with script := [], phase := .cleaning (cleanupActs cfg.levels c), out := o, cls := c, lock := lock }

/-- one user-function call of a running request -/
def stepRunning (cfg : Cfg) (r : RReq) : RReq × Eff :=
  match r.script with
  | [] => (failWith cfg r .none .completed false, .none)
  | c :: rest =>
    match c.res with
    | .ok => ({ r with script := rest }, .none)
    | .err => (failWith cfg r .ordinary .failed false, .none)   -- the code calls writeDone(err) itself
    | .panic =>
      if cfg.fr c.side c.kind then
        -- on the traverser goroutine the mutex is held; only the frame's writeDone releases it
        (failWith cfg r .panicked (handled c.side c.kind).1
            (onTraverser c.kind && !(cfg.trav.contains .writeDoneOnPanic)),
         (handled c.side c.kind).2)
      else (r, .crash)

/-- one clean-up statement -/
def applyAct (s : RSys) (i : Nat) (r : RReq) : Act → RSys × RReq
  | .sendCancel => (s, r)
  | .setOffline => (s, r)
  | .ret => (s, r)
  | .deliverErr => (s, { r with delivered := true })
  | .releaseTask =>
    ({ s with busy := s.busy - 1, active := s.active.erase r.peer,
              table := if dropsTable r.cls then s.table.erase i else s.table,
              tracker := s.tracker.erase i }, { r with released := r.released + 1 })
  | .clearRequest => ({ s with tracker := s.tracker.erase i }, r)
  | .closeResponse => ({ s with tracker := s.tracker.erase i }, { r with delivered := true })
  | .finishTask =>
    ({ s with busy := s.busy - 1, active := s.active.erase r.peer,
              table := if dropsTable r.cls then s.table.erase i else s.table },
     { r with released := r.released + 1 })

def canPop (cfg : Cfg) (s : RSys) (r : RReq) : Bool :=
  decide (s.busy < cfg.workers) && (decide (cfg.cap = 0) || decide (s.active.count r.peer < cfg.cap))

/-- the scheduler lets request `i` make one step -/
def step (cfg : Cfg) (s : RSys) (i : Nat) : RSys :=
  if s.crashed then s else
  match s.reqs[i]? with
  | none => s
  | some r =>
    match r.phase with
    | .queued =>
      if canPop cfg s r then
        { s with reqs := s.reqs.set i { r with phase := .running }, busy := s.busy + 1,
                 active := r.peer :: s.active, tracker := i :: s.tracker }
      else s
    | .running =>
      match stepRunning cfg r with
      | (_, .crash) => { s with crashed := true }
      | (r', .none) => { s with reqs := s.reqs.set i r' }
      | (r', .cb sd k) => { s with reqs := s.reqs.set i r', cbLog := s.cbLog ++ [(i, sd, k)] }
    | .cleaning [] => { s with reqs := s.reqs.set i { r with phase := .done } }
    | .cleaning (a :: todo) =>
      if r.lock then s          -- the worker sits in IsComplete(), waiting for the state mutex
      else
        let p := applyAct s i r a
        { p.1 with reqs := p.1.reqs.set i { p.2 with phase := .cleaning todo } }
    | .done => s

def run (cfg : Cfg) (s : RSys) (sched : List Nat) : RSys := sched.foldl (step cfg) s

/-! ## "the same run with every panic replaced by an ordinary error" -/

def calmCall (c : Call) : Call := if c.res = .panic then { c with res := .err } else c

def calmOut : Outcome → Outcome
  | .panicErr _ _ => .failed
  | o => o

def calmCls : ErrClass → ErrClass
  | .panicked => .ordinary
  | c => c

def calmReq (r : RReq) : RReq :=
  { r with script := r.script.map calmCall, out := calmOut r.out, cls := calmCls r.cls }

def calm (s : RSys) : RSys := { s with reqs := s.reqs.map calmReq, cbLog := [] }

/-- the resources of the node -/
structure Resources where
  busy : Nat
  active : List Nat
  table : List Nat
  tracker : List Nat
  phases : List Phase
  locks : List Bool
  deriving DecidableEq, Repr

def resources (s : RSys) : Resources :=
  { busy := s.busy, active := s.active, table := s.table, tracker := s.tracker,
    phases := s.reqs.map (·.phase), locks := s.reqs.map (·.lock) }

/-- does the request occupy a task slot? -/
def holds (r : RReq) : Bool :=
  match r.phase with
  | .running => true
  | .cleaning todo => decide (0 < todo.countP isSlotRelease)   -- TaskDone still to come
  | _ => false

/-! ## the generated configuration -/

def levelsOf : Side → List (List Item)
  | .requestor => GS.Generated.PanicCleanup.requestor
  | .responder => GS.Generated.PanicCleanup.responder

/-- the node of side `sd` as the source has it now -/
def cfgOf (sd : Side) (workers cap : Nat) : Cfg :=
  { workers := workers, cap := cap, levels := levelsOf sd, trav := travFrame, fr := framesOf table }

/-! ## driver: late request and leak prediction -/

/-- calls of the script that are made on node `sd` -/
def onNode (sd : Side) (cs : List Call) : List Call := cs.filter (fun c => sideEq c.side sd)

structure ResPrediction where
  late    : Bool      -- the request submitted last completes
  leak    : Bool      -- something is still held when nothing can move any more
  tasks   : Nat       -- task-queue entries left (busy workers + tasks never started)
  table   : Nat       -- request / response table entries left
  tracker : Nat       -- tracker records left (not observable on the real nodes)

/-- target, concurrent sibling and late request, all of the same peer, on the node the fault is
injected on, run to quiescence under a round-robin schedule with the given clean-up path.
`tight`: one worker (responder: also at most one task per peer); otherwise six workers, no cap. -/
def predictResWith (levels : List (List Item)) (trav : List TravAct)
    (sd : Side) (kd : Kind) (k n pre : Nat) (tight : Bool) : ResPrediction :=
  let mk (cs : List Call) : RReq :=
    { peer := 0, script := onNode sd cs, phase := .queued, out := .running, cls := .none,
      delivered := false, lock := false, released := 0 }
  let target := mk (scriptWith table n pre (some (sd, kd, k)))
  let sib := mk (scriptWith table n 0 none)
  let cfg : Cfg :=
    { workers := if tight then 1 else 6,
      cap := if tight && sideEq sd .responder then 1 else 0,
      levels := levels, trav := trav, fr := framesOf table }
  let rounds := 3 * (target.script.length + sib.script.length + 12)
  let s := run cfg (init [target, sib, sib]) (roundRobin 3 rounds)
  let late := match s.reqs[2]? with
    | some r => decide (r.phase = .done) && decide (r.out = .completed)
    | none => false
  let pending := (s.reqs.filter (fun r => decide (r.phase = .queued))).length
  { late := !s.crashed && late,
    leak := s.crashed || decide (s.busy ≠ 0) || !s.active.isEmpty || !s.table.isEmpty || !s.tracker.isEmpty
            || decide (pending ≠ 0),
    tasks := s.busy + pending, table := s.table.length, tracker := s.tracker.length }

/-- the prediction for the clean-up path and traverser frame generated from the current source -/
def predictRes (sd : Side) (kd : Kind) (k n pre : Nat) (tight : Bool) : ResPrediction :=
  predictResWith (levelsOf sd) travFrame sd kd k n pre tight

end GS.Panics.Res
