import GSProofs.C23
/-!
# C23, requestor side — "once all requests have ended the statistics report no active or pending requests"

Audit item: `GS.C23.req_final_closed` assumes `¬ staleTask s`; with both channels closed `reg = gone`
(`ended_of_closed`), so `¬ staleTask s` unfolds to `¬ taskPending s` — its own second conjunct.

`req_final_closed_eventually` replaces it WITHOUT any hypothesis about the task queue. Its only
hypotheses are `Reachable s` and `bothClosed s` (what the caller observes, C04). The conclusion says
what is true of the code: at that moment a (stale) task may still be pending — at most one, never
active at quiescence (`req_agree_stale_counterexample` shows it happens) — but it is popped by the
three enabled steps `PopTasks`, `GetRequestTask`, manager's answer; and once nothing is pending,
nothing is pending, reported, or (at quiescent points) active ever again, along every continuation.
`req_final_closed_popped` is the history-level reading of the old theorem: the hypothesis is that
the drain sequence HAS BEEN RUN (not that nothing is pending).
-/
namespace GS.C23
open GS.ReqLife

theorem reqlife_run_append (s : GS.ReqLife.State) (a b : List GS.ReqLife.Action) :
    run s (a ++ b) = (run s a).bind fun t => run t b := by
  induction a generalizing s with
  | nil => simp [run]
  | cons x xs ih =>
    simp only [List.cons_append, run]
    cases step s x with
    | none => simp
    | some s1 => simp [ih]

/-- every continuation of a state with both channels closed: still reachable, deleted, unreported,
no more pending tasks than before; at its quiescent points nothing is active and the worker is idle -/
theorem closed_after {s t : GS.ReqLife.State} {acts : List GS.ReqLife.Action}
    (h : GS.ReqLife.Reachable s) (he : bothClosed s = true) (hr : run s acts = some t) :
    GS.ReqLife.Reachable t ∧ t.reg = .gone ∧ reportedState t = none ∧ t.tqPending ≤ s.tqPending ∧
      (Quiescent t → ¬ taskActive t ∧ t.w = .idle) := by
  have ht := GS.C04.reachable_run h hr
  have hg := ended_of_closed h he
  obtain ⟨g, p⟩ := gone_run h (fun hx => (req_reachable_inv hx).1) hg hr
  obtain ⟨r, _⟩ := req_final_stable h hg hr
  refine ⟨ht, g, r, p, fun hq => ?_⟩
  obtain ⟨_, hw, ha, _⟩ := req_final ht hq g
  exact ⟨ha, hw⟩

/-- **req_final_closed_eventually.**  For every reachable state `s` in which both returned channels
    are closed — no assumption on the task queue:
    (a) nothing is reported; at quiescence the worker is idle, at most one task is pending and none is
        active;
    (b) at quiescence, if a task is pending then the drain `[wPop, wGet, mgr]` (PopTasks,
        GetRequestTask, the manager's empty answer + TaskDone) is enabled and leads to a quiescent
        state, both channels still closed, with nothing reported, pending or active;
    (c) along EVERY continuation `acts` of `s` the request stays unreported and deleted, the number of
        pending tasks never grows, and at every later quiescent point nothing is active; in
        particular, from the moment nothing is pending (e.g. after the drain of (b)) nothing is
        pending at any later state and nothing is pending or active at any later quiescent state. -/
theorem req_final_closed_eventually {s : GS.ReqLife.State} (h : GS.ReqLife.Reachable s)
    (he : bothClosed s = true) :
    (reportedState s = none ∧
      (Quiescent s → s.w = .idle ∧ s.tqPending ≤ 1 ∧ ¬ taskActive s)) ∧
    (Quiescent s → taskPending s →
      ∃ s', run s [.wPop, .wGet, .mgr] = some s' ∧ Quiescent s' ∧ bothClosed s' = true ∧
        reportedState s' = none ∧ ¬ taskPending s' ∧ ¬ taskActive s') ∧
    (∀ acts t, run s acts = some t →
      reportedState t = none ∧ t.reg = .gone ∧ t.tqPending ≤ s.tqPending ∧
      (Quiescent t → ¬ taskActive t) ∧
      (¬ taskPending s → ¬ taskPending t) ∧
      ∀ acts' u, ¬ taskPending t → run t acts' = some u →
        ¬ taskPending u ∧ reportedState u = none ∧ (Quiescent u → ¬ taskActive u)) := by
  have hg := ended_of_closed h he
  refine ⟨⟨by simp [reportedState, hg], fun hq => ?_⟩, fun hq hp => ?_, fun acts t hr => ?_⟩
  · obtain ⟨_, hw, ha, hb, _⟩ := req_final h hq hg
    exact ⟨hw, hb, ha⟩
  · obtain ⟨_, _, _, _, _, hd⟩ := req_final h hq hg
    obtain ⟨s', r1, r2, r3, r4, r5, r6, r7⟩ := hd ⟨hg, hp⟩
    refine ⟨s', r1, r2, ?_, r3, r6, r7⟩
    simp only [bothClosed] at he ⊢
    rw [r4, r5]; exact he
  · obtain ⟨ht, g, r, p, qa⟩ := closed_after h he hr
    refine ⟨r, g, p, fun hq => (qa hq).1, fun hn hpt => hn (by simp only [taskPending] at hpt ⊢; omega), ?_⟩
    intro acts' u hn hr'
    have hru : run s (acts ++ acts') = some u := by
      rw [reqlife_run_append, hr]; exact hr'
    obtain ⟨_, _, ru, _, qu⟩ := closed_after h he hru
    obtain ⟨_, pu⟩ := gone_run ht (fun hx => (req_reachable_inv hx).1) g hr'
    refine ⟨fun hpu => hn (by simp only [taskPending] at hpu ⊢; omega), ru, fun hq => (qu hq).1⟩

/-- **req_final_closed_popped** — the non-circular form of `req_final_closed`: the hypothesis is about
    the HISTORY (the state was reached from a closed quiescent state by the drain sequence, or that
    state had no pending task to begin with and `acts = []`), not about `taskPending` of the state in
    which the conclusion is drawn. For every later state `u`: nothing reported, nothing pending; and
    nothing active whenever `u` is quiescent. -/
theorem req_final_closed_popped {s s' u : GS.ReqLife.State} {acts : List GS.ReqLife.Action}
    (h : GS.ReqLife.Reachable s) (hq : Quiescent s) (he : bothClosed s = true)
    (hd : run s [.wPop, .wGet, .mgr] = some s') (hr : run s' acts = some u) :
    reportedState u = none ∧ ¬ taskPending u ∧ (Quiescent u → ¬ taskActive u) := by
  obtain ⟨_, b, c⟩ := req_final_closed_eventually h he
  -- the drain is enabled only if a task is pending (`wPop` needs one)
  have hp : taskPending s := by
    apply Classical.byContradiction
    intro hn
    have hz : s.tqPending = 0 := by simp only [taskPending] at hn; omega
    have hw := ((req_final_closed_eventually h he).1.2 hq).1
    simp [run, step, hw, hz] at hd
  obtain ⟨s'', r1, _, _, _, r5, _⟩ := b hq hp
  rw [hd] at r1
  cases r1
  obtain ⟨_, _, _, _, _, k⟩ := c _ _ hd
  obtain ⟨k1, k2, k3⟩ := k acts u r5 hr
  exact ⟨k2, k1, k3⟩

/-! non-vacuity (tests of the hypotheses on concrete schedules) -/

/-- the hypotheses of `req_final_closed_eventually` (b) are met: `staleTrace` ends in a reachable
    quiescent state, both channels closed, with the stale task pending -/
example : ∃ s, GS.ReqLife.Reachable s ∧ bothClosed s = true ∧ Quiescent s ∧ taskPending s :=
  ⟨_, GS.C04.reachable_of_trace (p := 0) (e := 10) (t := 10) (acts := staleTrace) (by decide),
    by decide, by decide, by decide⟩

/-- ... and the drain from there ends with nothing pending or active -/
example : ((run (init 0 10 10) (staleTrace ++ [.wPop, .wGet, .mgr])).map fun s =>
    (decide (Quiescent s), reportedState s, s.tqPending, s.tqActive, bothClosed s)) =
    some (true, none, 0, 0, true) := by decide

/-- the case without a stale task: a normal completion has both channels closed and nothing pending -/
example : ∃ s, GS.ReqLife.Reachable s ∧ bothClosed s = true ∧ Quiescent s ∧ ¬ taskPending s :=
  ⟨_, GS.C04.reachable_of_trace (p := 0) (e := 10) (t := 10) (acts := GS.C04.successTrace) (by decide),
    by decide, by decide, by decide⟩

/-! ## full-strength stability: after the drain the worker never leaves `idle`, so nothing is active
at ANY later state (quiescent or not) -/
end GS.C23
namespace GS.ReqLife
/-- once the request is deleted, the worker idle and nothing pending, the worker stays idle: the only way
    out of `idle` is `PopTasks`, which needs a pending task -/
theorem idle_step {s s' : State} {a : Action} (h : Inv s) (hg : s.reg = .gone) (hw : s.w = .idle)
    (hp : s.tqPending = 0) (hs : step s a = some s') : s'.w = .idle := by
  have hl1 : (s.reg == .live) = false := by simp [hg]
  have hl2 : (s.reg != .live) = true := by simp [hg]
  have hl3 : (s.reg != .none) = true := by simp [hg]
  have b := h.b
  have j := h.j
  have k3 := h.k3
  have k4 := h.k4
  have l := h.l
  cases a
  case mgr =>
    simp only [step] at hs
    split at hs
    next m rest hm hb =>
      cases hs
      cases m <;> simp only [handle, hl1, hl2, hl3, Bool.false_and, if_true]
      all_goals (repeat' split) <;> simp_all
    next => cases hs
  case ceRecv =>
    simp only [step] at hs
    split at hs
    next buf e s1 hce hsnd =>
      cases hs
      simp only [errSender] at hsnd
      (repeat' split at hsnd) <;> (cases hsnd) <;> grind [execActive, sendRelease, pushMsg, finishTerminate]
    next => cases hs
  case cpDrainE =>
    simp only [step] at hs
    split at hs
    next sent pO e s1 hcp hsnd =>
      cases hs
      simp only [errSender] at hsnd
      (repeat' split at hsnd) <;> (cases hsnd) <;> grind [execActive, sendRelease, pushMsg, finishTerminate]
    next => cases hs
  all_goals
    simp only [step, env, pushMsg, sendRelease, pauseCheck, dataLoaded, loadFailed, afterVisit,
      Option.map_eq_some_iff] at hs
    (repeat' split at hs) <;> (first | (cases hs; done) | (obtain ⟨_, hs1, hs2⟩ := hs; simp at hs1; subst hs2; grind) | (cases hs; grind))

theorem idle_run {s s' : State} {acts : List Action} (h : Reachable s) (hi : ∀ {x}, Reachable x → Inv x)
    (hg : s.reg = .gone) (hw : s.w = .idle) (hp : s.tqPending = 0) (hr : run s acts = some s') :
    s'.reg = .gone ∧ s'.w = .idle ∧ s'.tqPending = 0 := by
  induction acts generalizing s with
  | nil => simp [run] at hr; subst hr; exact ⟨hg, hw, hp⟩
  | cons a as ih =>
    simp only [run] at hr
    cases hs : step s a with
    | none => simp [hs] at hr
    | some s1 =>
      simp [hs] at hr
      obtain ⟨g1, p1⟩ := gone_step (hi h) hg hs
      have w1 := idle_step (hi h) hg hw hp hs
      exact ih (Reachable.step h hs) g1 w1 (by omega) hr
end GS.ReqLife
namespace GS.C23
open GS.ReqLife

/-- **req_final_drained_forever** — (c) at full strength: from a reachable quiescent state whose request
    has been deleted and whose task queue holds no pending task, EVERY later state (quiescent or not,
    all action sequences) has nothing reported, nothing pending, nothing active, the worker idle. -/
theorem req_final_drained_forever {t u : GS.ReqLife.State} {acts : List GS.ReqLife.Action}
    (h : GS.ReqLife.Reachable t) (hq : Quiescent t) (hg : t.reg = .gone) (hn : ¬ taskPending t)
    (hr : run t acts = some u) :
    reportedState u = none ∧ ¬ taskPending u ∧ ¬ taskActive u ∧ u.w = .idle := by
  obtain ⟨_, hw, _⟩ := req_final h hq hg
  have hz : t.tqPending = 0 := by simp only [taskPending] at hn; omega
  obtain ⟨g, w, p⟩ := idle_run h (fun hx => (req_reachable_inv hx).1) hg hw hz hr
  have qa := (req_reachable_inv (GS.C04.reachable_run h hr)).2.qa
  refine ⟨by simp [reportedState, g], by simp [taskPending, p], ?_, w⟩
  rw [w] at qa
  simp [inHandoff, execActive, relHeld] at qa
  simp [taskActive, qa]

/-- **req_final_closed_forever** — the history-level statement at full strength: both channels closed
    and quiescent, the drain `[wPop, wGet, mgr]` has been run; then at EVERY later state nothing is
    reported, pending or active (no hypothesis mentions `taskPending`). -/
theorem req_final_closed_forever {s s' u : GS.ReqLife.State} {acts : List GS.ReqLife.Action}
    (h : GS.ReqLife.Reachable s) (hq : Quiescent s) (he : bothClosed s = true)
    (hd : run s [.wPop, .wGet, .mgr] = some s') (hr : run s' acts = some u) :
    reportedState u = none ∧ ¬ taskPending u ∧ ¬ taskActive u := by
  have hw := ((req_final_closed_eventually h he).1.2 hq).1
  have hp : taskPending s := by
    apply Classical.byContradiction
    intro hn
    have hz : s.tqPending = 0 := by simp only [taskPending] at hn; omega
    simp [run, step, hw, hz] at hd
  obtain ⟨s'', r1, r2, _, _, r5, _⟩ := (req_final_closed_eventually h he).2.1 hq hp
  rw [hd] at r1
  cases r1
  obtain ⟨hs', g, _⟩ := closed_after h he hd
  obtain ⟨a, b, c, _⟩ := req_final_drained_forever hs' r2 g r5 hr
  exact ⟨a, b, c⟩

/-- the same when no stale task was left (nothing to drain): stated on the history "the request was never
    cancelled/failed while Queued" is not available in the model, so this form keeps the state
    hypothesis and is only the stability half. -/
theorem req_final_closed_forever_nodrain {s u : GS.ReqLife.State} {acts : List GS.ReqLife.Action}
    (h : GS.ReqLife.Reachable s) (hq : Quiescent s) (he : bothClosed s = true) (hn : ¬ taskPending s)
    (hr : run s acts = some u) :
    reportedState u = none ∧ ¬ taskPending u ∧ ¬ taskActive u := by
  obtain ⟨a, b, c, _⟩ := req_final_drained_forever h hq (ended_of_closed h he) hn hr
  exact ⟨a, b, c⟩

/-- non-vacuity of `req_final_closed_forever`: drain after `staleTrace`, then a late cancel from the caller
    and its handling — still nothing pending/active -/
example : ((run (init 0 10 10) (staleTrace ++ [.wPop, .wGet, .mgr] ++ [.envCancelApi, .mgr])).map fun s =>
    (reportedState s, s.tqPending, s.tqActive)) = some (none, 0, 0) := by decide

end GS.C23
