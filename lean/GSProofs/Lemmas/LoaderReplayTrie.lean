import GS.Model.Loader
/-!
The traversal record (`TRec`, the path trie of `traversalrecord.TraversalRecord` in creation order)
as a pre-order listing, and the navigation of `traversalrecord.Verifier` over it.

* `TOrd R` / `PClosed R`: the node list `R` is the pre-order listing of a prefix-closed set of
  distinct paths in which every node without a link is followed by one of its children.
* `tipOf_spec`, `nextLink_true`, `nextLink_false`: on such a record the verifier's tip is the first
  linked node of the remaining list; exploring moves to the next node, not exploring skips the
  nodes whose path extends the tip's path.
* `build`: the record produced by `RecordNextStep` for a list of loads whose paths are in depth-first
  order (`PathsDFS`) is such a listing, and its linked nodes are exactly those loads, in order.
-/
namespace GS.Loader

/-! ### paths -/

theorem pre_eq_of_len {q x : Path} (h : q <+: x) (hl : x.length ≤ q.length) : q = x :=
  h.eq_of_length_le hl

theorem pre_antisymm {q x : Path} (h1 : q <+: x) (h2 : x <+: q) : q = x :=
  pre_eq_of_len h1 h2.length_le

theorem pre_snoc {q y : Path} {s : Seg} (h : y <+: q ++ [s]) : y <+: q ∨ y = q ++ [s] := by
  by_cases hl : y.length ≤ q.length
  · exact Or.inl (List.prefix_of_prefix_length_le h (List.prefix_append q [s]) hl)
  · right
    apply pre_eq_of_len h
    simp; omega

theorem snoc_of_pre {q x : Path} (h : q <+: x) (hl : x.length = q.length + 1) :
    ∃ s, x = q ++ [s] ∧ x.getLast? = some s := by
  obtain ⟨t, rfl⟩ := h
  match t, hl with
  | [s], _ => exact ⟨s, rfl, by simp⟩
  | [], hl => simp at hl
  | _ :: _ :: _, hl => simp at hl

theorem isPre_false {a b : Path} (h : ¬ a <+: b) : a.isPrefixOf b = false := by
  rw [Bool.eq_false_iff]; simpa using h

theorem dropLast_snoc_eq {x : Path} (hx : x ≠ []) : ∃ s, x = x.dropLast ++ [s] :=
  ⟨x.getLast hx, (List.dropLast_concat_getLast hx).symm⟩

/-! ### lists: dropWhile against a split -/

theorem all_before_of_dropWhile {α : Type} (f : α → Bool) (M : List α) (x : α) (B : List α)
    (hx : f x = true) (h : ∀ m ∈ (M ++ x :: B).dropWhile f, f m = false) : ∀ m ∈ M, f m = true := by
  induction M with
  | nil => intro m hm; simp at hm
  | cons a M ih =>
    intro m hm
    by_cases ha : f a = true
    · simp only [List.cons_append, List.dropWhile_cons, ha, if_true] at h
      simp only [List.mem_cons] at hm
      rcases hm with rfl | hm
      · exact ha
      · exact ih h m hm
    · simp only [List.cons_append, List.dropWhile_cons, ha] at h
      have := h x (by simp)
      rw [hx] at this; cases this

theorem dropWhile_eq_self_of_head {α : Type} (f : α → Bool) (c : α) (C : List α) (h : f c = false) :
    (c :: C).dropWhile f = c :: C := by
  simp [h]

theorem mem_takeWhile_pos {α : Type} (p : α → Bool) : ∀ (l : List α) (x : α), x ∈ l.takeWhile p → p x = true
  | [], x, h => by simp at h
  | a :: l, x, h => by
    by_cases ha : p a = true
    · simp only [List.takeWhile_cons, ha, if_true, List.mem_cons] at h
      rcases h with rfl | h
      · exact ha
      · exact mem_takeWhile_pos p l x h
    · simp [ha] at h

theorem dropWhile_nil_of_all {α : Type} (p : α → Bool) : ∀ (l : List α), (∀ x ∈ l, p x = true) → l.dropWhile p = []
  | [], _ => rfl
  | a :: l, h => by
    simp only [List.dropWhile_cons, h a (by simp), if_true]
    exact dropWhile_nil_of_all p l (fun x hx => h x (by simp [hx]))

theorem dropWhile_head_neg {α : Type} (p : α → Bool) : ∀ (l : List α) (c : α) (C : List α),
    l.dropWhile p = c :: C → p c = false
  | [], c, C, h => by simp at h
  | a :: l, c, C, h => by
    by_cases ha : p a = true
    · simp only [List.dropWhile_cons, ha, if_true] at h
      exact dropWhile_head_neg p l c C h
    · simp only [List.dropWhile_cons, ha] at h
      simp only [Bool.false_eq_true, if_false, List.cons.injEq] at h
      rw [← h.1]; simpa using ha

/-! ### ordered records -/

/-- pre-order listing: no later node's path is a prefix of an earlier one's (so paths are distinct
    and ancestors come first), the nodes extending a node's path follow it contiguously, and a node
    without a link is followed (if by anything) by a node below it -/
def TOrd : TRec → Prop
  | [] => True
  | n :: rest =>
    (∀ m ∈ rest, ¬ m.path <+: n.path) ∧
    (∀ m ∈ rest.dropWhile (fun m => n.path.isPrefixOf m.path), ¬ n.path <+: m.path) ∧
    (n.link = none → ∀ m rest', rest = m :: rest' → n.path <+: m.path) ∧
    TOrd rest

/-- every node's parent path is a node -/
def PClosed (R : TRec) : Prop := ∀ n ∈ R, n.path ≠ [] → ∃ m ∈ R, m.path = n.path.dropLast

theorem TOrd.suffix : ∀ (A : TRec) {B : TRec}, TOrd (A ++ B) → TOrd B
  | [], _, h => h
  | _ :: A, _, h => TOrd.suffix A h.2.2.2

theorem TOrd.later {A : TRec} {n : TNode} {B : TRec} (h : TOrd (A ++ n :: B)) :
    ∀ m ∈ B, ¬ m.path <+: n.path := (TOrd.suffix A h).1

theorem TOrd.contig {A : TRec} {n : TNode} {B : TRec} (h : TOrd (A ++ n :: B)) :
    ∀ m ∈ B.dropWhile (fun m => n.path.isPrefixOf m.path), ¬ n.path <+: m.path := (TOrd.suffix A h).2.1

theorem TOrd.unlinked {A : TRec} {n m : TNode} {B : TRec} (h : TOrd (A ++ n :: m :: B)) (hl : n.link = none) :
    n.path <+: m.path := (TOrd.suffix A h).2.2.1 hl m B rfl

/-- an earlier node does not extend a later one -/
theorem TOrd.earlier : ∀ {A : TRec} {n : TNode} {B : TRec}, TOrd (A ++ n :: B) → ∀ a ∈ A, ¬ n.path <+: a.path
  | [], _, _, _ => by intro a ha; simp at ha
  | a0 :: A, n, B, h => by
    intro a ha
    simp only [List.mem_cons] at ha
    rcases ha with rfl | ha
    · exact h.1 n (by simp)
    · exact TOrd.earlier (A := A) h.2.2.2 a ha

/-- contiguity: if a later node extends `m`, so does everything in between -/
theorem TOrd.between {A : TRec} {m : TNode} {B1 : TRec} {c : TNode} {B2 : TRec}
    (h : TOrd (A ++ m :: B1 ++ c :: B2)) (hc : m.path <+: c.path) : ∀ b ∈ B1, m.path <+: b.path := by
  have h' : TOrd (A ++ m :: (B1 ++ c :: B2)) := by simpa using h
  have := all_before_of_dropWhile (fun x => m.path.isPrefixOf x.path) B1 c B2 (by simpa using hc)
    (by intro x hx; have := h'.contig x hx; simpa [← List.isPrefixOf_iff_prefix] using this)
  intro b hb
  simpa using this b hb

theorem TOrd.path_inj {R : TRec} (h : TOrd R) : ∀ {A n B A' n' B'}, R = A ++ n :: B → R = A' ++ n' :: B' →
    n.path = n'.path → A = A' ∧ n = n' ∧ B = B' := by
  intro A
  induction A generalizing R with
  | nil =>
    intro n B A' n' B' h1 h2 hp
    cases A' with
    | nil =>
      rw [h1] at h2
      simp only [List.nil_append, List.cons.injEq] at h2
      exact ⟨rfl, h2.1, h2.2⟩
    | cons a A' =>
      rw [h1] at h2
      simp only [List.nil_append, List.cons_append, List.cons.injEq] at h2
      obtain ⟨rfl, rfl⟩ := h2
      rw [h1] at h
      exact absurd (hp ▸ List.prefix_refl _) (h.1 n' (by simp))
  | cons a A ih =>
    intro n B A' n' B' h1 h2 hp
    cases A' with
    | nil =>
      rw [h1] at h2
      simp only [List.nil_append, List.cons_append, List.cons.injEq] at h2
      obtain ⟨rfl, rfl⟩ := h2
      rw [h1] at h
      exact absurd (hp ▸ List.prefix_refl _) (h.1 n (by simp))
    | cons a' A' =>
      rw [h1] at h2
      simp only [List.cons_append, List.cons.injEq] at h2
      obtain ⟨rfl, h2⟩ := h2
      rw [h1] at h
      have := ih (R := A ++ n :: B) h.2.2.2 rfl h2 hp
      exact ⟨by rw [this.1], this.2.1, this.2.2⟩

/-! ### children -/

/-- the segment under which `n` is a child of the node at `q` -/
def kidSeg (q : Path) (n : TNode) : Option Seg :=
  if n.path.length == q.length + 1 && q.isPrefixOf n.path then n.path.getLast? else none

theorem kids_eq (R : TRec) (q : Path) : TRec.kids R q = R.filterMap (kidSeg q) := rfl

theorem kids_append (A B : TRec) (q : Path) : TRec.kids (A ++ B) q = TRec.kids A q ++ TRec.kids B q := by
  simp [kids_eq]

theorem kids_cons (a : TNode) (B : TRec) (q : Path) :
    TRec.kids (a :: B) q = (match kidSeg q a with | some s => [s] | none => []) ++ TRec.kids B q := by
  simp only [kids_eq, List.filterMap_cons]
  cases kidSeg q a <;> rfl

theorem kidSeg_snoc {q : Path} {n : TNode} {s : Seg} (h : n.path = q ++ [s]) : kidSeg q n = some s := by
  simp [kidSeg, h]

theorem kidSeg_some {q : Path} {n : TNode} {s : Seg} (h : kidSeg q n = some s) : n.path = q ++ [s] := by
  unfold kidSeg at h
  split at h
  · rename_i hc
    simp only [Bool.and_eq_true, beq_iff_eq, List.isPrefixOf_iff_prefix] at hc
    obtain ⟨s', hs', hg⟩ := snoc_of_pre hc.2 hc.1
    rw [hg] at h
    cases h
    exact hs'
  · cases h

theorem kidSeg_none_of_not_ext {q : Path} {n : TNode} (h : ¬ q <+: n.path) : kidSeg q n = none := by
  cases hk : kidSeg q n with
  | none => rfl
  | some s => exact absurd (kidSeg_some hk ▸ List.prefix_append q [s]) h

theorem kids_nil (L : TRec) (q : Path) (h : ∀ n ∈ L, ¬ q <+: n.path) : TRec.kids L q = [] := by
  rw [kids_eq]
  apply List.filterMap_eq_nil_iff.mpr
  intro n hn
  exact kidSeg_none_of_not_ext (h n hn)

theorem kidSeg_self (n : TNode) : kidSeg n.path n = none := by
  simp [kidSeg]

theorem nextAfter_split (s : Seg) (K1 K2 : List Seg) (h : s ∉ K1) :
    nextAfter s (K1 ++ s :: K2) = K2.head? := by
  induction K1 with
  | nil => simp [nextAfter]
  | cons k K1 ih =>
    simp only [List.mem_cons, not_or] at h
    have hk : (k == s) = false := by simp; exact fun e => h.1 e.symm
    simp only [List.cons_append, nextAfter, hk, Bool.false_eq_true, if_false]
    exact ih h.2

/-! ### links -/

theorem linkAt_at {R A : TRec} {n : TNode} {B : TRec} (h : TOrd R) (hR : R = A ++ n :: B) :
    linkAt R n.path = n.link := by
  subst hR
  have hA : A.find? (fun m => m.path == n.path) = none := by
    apply List.find?_eq_none.mpr
    intro a ha hc
    simp only [beq_iff_eq] at hc
    exact h.earlier a ha (hc ▸ List.prefix_refl _)
  simp [linkAt, TRec.get, List.find?_append, hA]

/-! ### the parent of a node -/

theorem parent_eq {R : TRec} (hO : TOrd R) (hC : PClosed R) {A : TRec} {nq : TNode} {M : TRec} {c : TNode}
    {C' : TRec} (hR : R = A ++ nq :: M ++ c :: C') (hq : nq.path <+: c.path)
    (hM : ∀ m ∈ M, ¬ m.path <+: c.path) : ∃ s, c.path = nq.path ++ [s] := by
  subst hR
  have hO' : TOrd (A ++ nq :: (M ++ c :: C')) := by simpa using hO
  have hne : c.path ≠ nq.path := by
    intro e
    exact hO'.later c (by simp) (e ▸ List.prefix_refl _)
  have hlen : nq.path.length < c.path.length := by
    have := hq.length_le
    rcases Nat.lt_or_ge nq.path.length c.path.length with h | h
    · exact h
    · exact absurd (pre_eq_of_len hq h).symm hne
  have hcne : c.path ≠ [] := by
    intro e; rw [e] at hlen; simp at hlen
  obtain ⟨y, hy, hyp⟩ := hC c (by simp) hcne
  have hyc : y.path <+: c.path := hyp ▸ List.dropLast_prefix _
  have hqy : nq.path <+: y.path := by
    apply List.prefix_of_prefix_length_le hq hyc
    rw [hyp]; simp; omega
  have hyq : y.path = nq.path := by
    have hmem : y ∈ A ∨ y = nq ∨ y ∈ M ∨ y = c ∨ y ∈ C' := by
      simp only [List.append_assoc, List.cons_append, List.mem_append, List.mem_cons] at hy
      rcases hy with h | h | h | h | h
      · exact Or.inl h
      · exact Or.inr (Or.inl h)
      · exact Or.inr (Or.inr (Or.inl h))
      · exact Or.inr (Or.inr (Or.inr (Or.inl h)))
      · exact Or.inr (Or.inr (Or.inr (Or.inr h)))
    rcases hmem with h | h | h | h | h
    · exact absurd hqy (hO'.earlier y h)
    · rw [h]
    · exact absurd hyc (hM y h)
    · rw [h] at hyp
      have : c.path.dropLast.length = c.path.length := by rw [← hyp]
      simp at this
      omega
    · exact absurd hyc ((TOrd.later (A := A ++ nq :: M) (by simpa using hO)) y h)
  obtain ⟨s, hs⟩ := dropLast_snoc_eq hcne
  exact ⟨s, by rw [← hyq, hyp]; exact hs⟩

/-! ### the verifier's tip -/

/-- the (path, link) pairs of the nodes that carry a link, in order -/
def linkedOf (B : TRec) : List (Path × (Cid × Bool)) :=
  B.filterMap (fun n => n.link.map (fun l => (n.path, l)))

/-- the verifier positioned at the first linked node of the remaining list `B` -/
def tipOf (R : TRec) : TRec → Ver
  | [] => none
  | b :: _ => some (appendUntilLink R R.length b.path)

theorem kids_first {R : TRec} (hO : TOrd R) (hC : PClosed R) {A : TRec} {nx b : TNode} {B' : TRec}
    (hR : R = A ++ nx :: b :: B') (hb : nx.path <+: b.path) :
    ∃ s, b.path = nx.path ++ [s] ∧ TRec.kids R nx.path = s :: TRec.kids B' nx.path := by
  obtain ⟨s, hs⟩ := parent_eq hO hC (A := A) (nq := nx) (M := []) (c := b) (C' := B') (by simpa using hR) hb
    (by intro m hm; simp at hm)
  refine ⟨s, hs, ?_⟩
  subst hR
  rw [kids_append, kids_nil A nx.path (fun a ha => hO.earlier a ha), kids_cons, kidSeg_self, kids_cons,
    kidSeg_snoc hs]
  rfl

theorem kids_none {R : TRec} (hO : TOrd R) {A : TRec} {nx : TNode} {B : TRec} (hR : R = A ++ nx :: B)
    (hB : ∀ b B', B = b :: B' → ¬ nx.path <+: b.path) : TRec.kids R nx.path = [] := by
  subst hR
  rw [kids_append, kids_nil A nx.path (fun a ha => hO.earlier a ha), kids_cons, kidSeg_self]
  apply kids_nil
  cases B with
  | nil => intro n hn; simp at hn
  | cons b B' =>
    have hb := hB b B' rfl
    have := hO.contig
    rw [dropWhile_eq_self_of_head _ b B' (isPre_false hb)] at this
    exact this

theorem appendUntilLink_linked {R : TRec} (p : Path) (l : Cid × Bool) (h : linkAt R p = some l) (fuel : Nat) :
    appendUntilLink R fuel p = p := by
  cases fuel with
  | zero => rfl
  | succ f => simp [appendUntilLink, h]

theorem appendUntilLink_spec {R : TRec} (hO : TOrd R) (hC : PClosed R) :
    ∀ (B A : TRec) (b : TNode) (B' : TRec) (fuel : Nat), B = b :: B' → R = A ++ B → B.length ≤ fuel + 1 →
    ∀ p l rest, linkedOf B = (p, l) :: rest → appendUntilLink R fuel b.path = p := by
  intro B
  induction B with
  | nil => intro A b B' fuel hB; cases hB
  | cons b0 B0 ih =>
    intro A b B' fuel hB hR hlen p l rest hlk
    simp only [List.cons.injEq] at hB
    obtain ⟨rfl, rfl⟩ := hB
    cases hl : b0.link with
    | some l0 =>
      simp only [linkedOf, List.filterMap_cons, hl, Option.map_some, List.cons.injEq, Prod.mk.injEq] at hlk
      have := linkAt_at hO hR
      rw [hl] at this
      rw [appendUntilLink_linked _ _ this, hlk.1.1]
    | none =>
      have hlk0 : linkedOf B0 = (p, l) :: rest := by
        simpa [linkedOf, List.filterMap_cons, hl] using hlk
      obtain ⟨m, B'', hB''⟩ : ∃ m B'', B0 = m :: B'' := by
        cases B0 with
        | nil => simp [linkedOf] at hlk0
        | cons m B'' => exact ⟨m, B'', rfl⟩
      subst hB''
      have hm := TOrd.unlinked (A := A) (by rw [← hR]; exact hO) hl
      obtain ⟨s, hs, hk⟩ := kids_first hO hC hR hm
      have hla := linkAt_at hO hR
      rw [hl] at hla
      simp only [List.length_cons] at hlen
      obtain ⟨f, rfl⟩ : ∃ f, fuel = f + 1 := ⟨fuel - 1, by omega⟩
      simp only [appendUntilLink, hla, hk]
      rw [← hs]
      exact ih (A ++ [b0]) m B'' f rfl (by simpa using hR) (by simp; omega) p l rest hlk0

theorem tipOf_spec {R : TRec} (hO : TOrd R) (hC : PClosed R) {A B : TRec} (hR : R = A ++ B)
    {p : Path} {l : Cid × Bool} {rest : List (Path × (Cid × Bool))} (hlk : linkedOf B = (p, l) :: rest) :
    tipOf R B = some p := by
  cases B with
  | nil => simp [linkedOf] at hlk
  | cons b B' =>
    simp only [tipOf]
    rw [appendUntilLink_spec hO hC (b :: B') A b B' R.length rfl hR (by rw [hR]; simp; omega) p l rest hlk]

/-- exploring the children of the tip moves to the next node of the listing -/
theorem nextLink_true {R : TRec} (hO : TOrd R) (hC : PClosed R) {A : TRec} {nx : TNode} {B : TRec}
    (hR : R = A ++ nx :: B)
    (hpop : popNext R nx.path.reverse = tipOf R (B.dropWhile (fun m => nx.path.isPrefixOf m.path))) :
    nextLink R nx.path true = tipOf R B := by
  cases B with
  | nil =>
    have hk := kids_none hO hR (by intro b B' h; cases h)
    simp only [nextLink, hk]
    simpa using hpop
  | cons b B' =>
    by_cases hb : nx.path <+: b.path
    · obtain ⟨s, hs, hk⟩ := kids_first hO hC hR hb
      simp only [nextLink, hk, tipOf, hs]
    · have hk := kids_none hO hR (by intro b' B'' h; cases h; exact hb)
      simp only [nextLink, hk]
      rw [dropWhile_eq_self_of_head _ b B' (isPre_false hb)] at hpop
      exact hpop

/-- not exploring (or leaving a leaf): the verifier moves to the first node after the nodes that
    extend the tip's path -/
theorem popNext_spec {R : TRec} (hO : TOrd R) (hC : PClosed R) :
    ∀ (rx : List Seg) (A : TRec) (nx : TNode) (B : TRec), R = A ++ nx :: B → nx.path = rx.reverse →
    popNext R rx = tipOf R (B.dropWhile (fun m => nx.path.isPrefixOf m.path)) := by
  intro rx
  induction rx with
  | nil =>
    intro A nx B hR hp
    simp only [List.reverse_nil] at hp
    rw [dropWhile_nil_of_all _ B (by intro m _; simp [hp])]
    rfl
  | cons s rq ih =>
    intro A nx B hR hp
    simp only [List.reverse_cons] at hp
    have hne : nx.path ≠ [] := by rw [hp]; simp
    obtain ⟨nq, hnq, hnqp⟩ := hC nx (by rw [hR]; simp) hne
    have hqp : nq.path = rq.reverse := by rw [hnqp, hp]; simp
    have hqx : nq.path <+: nx.path := by rw [hqp, hp]; exact List.prefix_append _ _
    have hA : nq ∈ A := by
      rw [hR] at hnq
      simp only [List.mem_append, List.mem_cons] at hnq
      rcases hnq with h | h | h
      · exact h
      · exfalso; rw [h] at hqp; rw [hqp] at hp; simp at hp
      · exact absurd hqx ((TOrd.later (A := A) (by rw [← hR]; exact hO)) nq h)
    obtain ⟨A1, M, rfl⟩ := List.append_of_mem hA
    have hO1 : TOrd (A1 ++ nq :: M ++ nx :: B) := by rw [← hR]; exact hO
    have hMq : ∀ m ∈ M, nq.path <+: m.path := TOrd.between hO1 hqx
    generalize hT : B.takeWhile (fun m => nx.path.isPrefixOf m.path) = T
    generalize hCd : B.dropWhile (fun m => nx.path.isPrefixOf m.path) = C
    have hB : B = T ++ C := by rw [← hT, ← hCd]; exact List.takeWhile_append_dropWhile.symm
    have hTx : ∀ t ∈ T, nx.path <+: t.path := by
      intro t ht; rw [← hT] at ht
      simpa using mem_takeWhile_pos _ _ _ ht
    have hTq : ∀ t ∈ T, nq.path <+: t.path := fun t ht => List.IsPrefix.trans hqx (hTx t ht)
    -- the children of the parent
    have hkA : TRec.kids A1 nq.path = [] :=
      kids_nil A1 nq.path (fun a ha => TOrd.earlier (A := A1) (by simpa using hO1) a ha)
    have hxs : nx.path = nq.path ++ [s] := by rw [hp, hqp]
    have hsM : s ∉ TRec.kids M nq.path := by
      intro hs
      rw [kids_eq, List.mem_filterMap] at hs
      obtain ⟨m, hm, hk⟩ := hs
      have hmp := kidSeg_some hk
      obtain ⟨M1, M2, rfl⟩ := List.append_of_mem hm
      have : TOrd ((A1 ++ nq :: M1) ++ m :: (M2 ++ nx :: B)) := by simpa using hO1
      exact this.later nx (by simp) (by rw [hmp, hxs]; exact List.prefix_refl _)
    have hkT : TRec.kids T nq.path = [] := by
      rw [kids_eq]
      apply List.filterMap_eq_nil_iff.mpr
      intro t ht
      cases hk : kidSeg nq.path t with
      | none => rfl
      | some s' =>
        exfalso
        have htp := kidSeg_some hk
        have hxt := hTx t ht
        have : t.path <+: nx.path := by
          have hl : t.path.length ≤ nx.path.length := by rw [htp, hxs]; simp
          rw [pre_eq_of_len hxt hl]; exact List.prefix_refl _
        have hO2 : TOrd ((A1 ++ nq :: M) ++ nx :: B) := hO1
        exact hO2.later t (by rw [hB]; simp [ht]) this
    have hkids : TRec.kids R nq.path = TRec.kids M nq.path ++ s :: TRec.kids C nq.path := by
      rw [hR, hB]
      simp only [kids_append, kids_cons, hkA, kidSeg_self, kidSeg_snoc hxs, hkT, List.nil_append]
      simp
    have hna : nextAfter s (TRec.kids R nq.path) = (TRec.kids C nq.path).head? := by
      rw [hkids]; exact nextAfter_split s _ _ hsM
    have hall : ∀ m ∈ M ++ nx :: T, (fun m : TNode => nq.path.isPrefixOf m.path) m = true := by
      intro m hm
      simp only [List.mem_append, List.mem_cons] at hm
      simp only [List.isPrefixOf_iff_prefix]
      rcases hm with h | rfl | h
      · exact hMq m h
      · exact hqx
      · exact hTq m h
    have hihB : popNext R rq = tipOf R (C.dropWhile (fun m => nq.path.isPrefixOf m.path)) := by
      rw [ih A1 nq (M ++ nx :: B) (by rw [hR]; simp) hqp, hB]
      have : M ++ nx :: (T ++ C) = (M ++ nx :: T) ++ C := by simp
      rw [this, List.dropWhile_append_of_pos hall]
    simp only [popNext, hqp.symm ▸ hna]
    rw [← hqp]
    cases C with
    | nil =>
      simp only [kids_eq, List.filterMap_nil, List.head?_nil]
      rw [hihB]; rfl
    | cons c C' =>
      have hxc : ¬ nx.path <+: c.path := by
        have := dropWhile_head_neg _ _ _ _ hCd
        intro hh
        rw [List.isPrefixOf_iff_prefix.mpr hh] at this
        cases this
      by_cases hqc : nq.path <+: c.path
      · have hRc : R = A1 ++ nq :: (M ++ nx :: T) ++ c :: C' := by rw [hR, hB]; simp
        obtain ⟨s', hs'⟩ := parent_eq hO hC hRc hqc (by
          intro m hm hmc
          simp only [List.mem_append, List.mem_cons] at hm
          rcases hm with h | rfl | h
          · obtain ⟨M1, M2, rfl⟩ := List.append_of_mem h
            have hO3 : TOrd ((A1 ++ nq :: M1) ++ m :: (M2 ++ nx :: T) ++ c :: C') := by
              rw [hRc] at hO; simpa using hO
            have hmx : m.path <+: nx.path := TOrd.between hO3 hmc nx (by simp)
            rw [hxs] at hmx
            rcases pre_snoc hmx with h1 | h1
            · have := pre_antisymm h1 (hMq m (by simp))
              have hO4 : TOrd (A1 ++ nq :: (M1 ++ m :: M2 ++ nx :: B)) := by simpa using hO1
              exact hO4.later m (by simp) (this ▸ List.prefix_refl _)
            · have hO4 : TOrd ((A1 ++ nq :: M1) ++ m :: (M2 ++ nx :: B)) := by simpa using hO1
              exact hO4.later nx (by simp) (by rw [h1, hxs]; exact List.prefix_refl _)
          · exact hxc hmc
          · exact hxc (List.IsPrefix.trans (hTx m h) hmc))
        rw [kids_cons, kidSeg_snoc hs']
        simp only [List.cons_append, List.nil_append, List.head?_cons, tipOf, hs']
      · have hCq : ∀ m ∈ c :: C', ¬ nq.path <+: m.path := by
          have hO5 : TOrd (A1 ++ nq :: ((M ++ nx :: T) ++ c :: C')) := by
            rw [hR, hB] at hO; simpa using hO
          have := hO5.contig
          rw [List.dropWhile_append_of_pos hall, dropWhile_eq_self_of_head _ c C' (isPre_false hqc)] at this
          exact this
        rw [kids_nil _ _ hCq]
        simp only [List.head?_nil]
        rw [hihB, dropWhile_eq_self_of_head _ c C' (isPre_false hqc)]

theorem nextLink_false {R : TRec} (hO : TOrd R) (hC : PClosed R) {A : TRec} {nx : TNode} {B : TRec}
    (hR : R = A ++ nx :: B) :
    nextLink R nx.path false = tipOf R (B.dropWhile (fun m => nx.path.isPrefixOf m.path)) := by
  simp only [nextLink]
  exact popNext_spec hO hC nx.path.reverse A nx B hR (by simp)

theorem nextLink_true' {R : TRec} (hO : TOrd R) (hC : PClosed R) {A : TRec} {nx : TNode} {B : TRec}
    (hR : R = A ++ nx :: B) : nextLink R nx.path true = tipOf R B :=
  nextLink_true hO hC hR (popNext_spec hO hC nx.path.reverse A nx B hR (by simp))

/-! ### building the record: `RecordNextStep` appends in pre-order -/

theorem mem_dropWhile_snoc {α : Type} (f : α → Bool) : ∀ (l : List α) (y m : α), m ∈ (l ++ [y]).dropWhile f →
    m ∈ l.dropWhile f ∨ m = y
  | [], y, m, h => by
    right
    have := List.Sublist.mem h (List.dropWhile_sublist f)
    simpa using this
  | a :: l, y, m, h => by
    by_cases ha : f a = true
    · simp only [List.cons_append, List.dropWhile_cons, ha, if_true] at h ⊢
      exact mem_dropWhile_snoc f l y m h
    · simp only [List.cons_append, List.dropWhile_cons, ha] at h ⊢
      simp only [Bool.false_eq_true, if_false, List.mem_cons, List.mem_append] at h ⊢
      rcases h with h | h | h
      · exact Or.inl (Or.inl h)
      · exact Or.inl (Or.inr h)
      · exact Or.inr (by simpa using h)

theorem snoc_eq_append_cons {α : Type} {r : List α} {y : α} {A : List α} {n : α} {B : List α}
    (h : r ++ [y] = A ++ n :: B) : (B = [] ∧ r = A ∧ y = n) ∨ ∃ B0, B = B0 ++ [y] ∧ r = A ++ n :: B0 := by
  rcases List.eq_nil_or_concat B with rfl | ⟨B0, b, rfl⟩
  · left
    have := List.append_inj' h rfl
    simp only [List.cons.injEq, and_true] at this
    exact ⟨rfl, this.1, this.2⟩
  · right
    simp only [List.concat_eq_append] at h ⊢
    have h' : r ++ [y] = (A ++ n :: B0) ++ [b] := by simpa using h
    have := List.append_inj' h' rfl
    simp only [List.cons.injEq, and_true] at this
    exact ⟨B0, by rw [this.2], this.1⟩

theorem TOrd.snoc : ∀ {R : TRec} {y : TNode}, TOrd R →
    (∀ n ∈ R, ¬ y.path <+: n.path) →
    (∀ A n B, R = A ++ n :: B → n.path <+: y.path → ∀ b ∈ B, n.path <+: b.path) →
    (∀ A n, R = A ++ [n] → n.link = none → n.path <+: y.path) → TOrd (R ++ [y])
  | [], y, _, _, _, _ => by simp [TOrd]
  | n :: rest, y, h, h1, h2, h3 => by
    show TOrd (n :: (rest ++ [y]))
    refine ⟨?_, ?_, ?_, ?_⟩
    · intro m hm
      simp only [List.mem_append, List.mem_singleton] at hm
      rcases hm with hm | rfl
      · exact h.1 m hm
      · exact h1 n (by simp)
    · intro m hm
      by_cases hny : n.path <+: y.path
      · have hall : ∀ b ∈ rest, (fun m : TNode => n.path.isPrefixOf m.path) b = true := by
          intro b hb; simpa using h2 [] n rest rfl hny b hb
        rw [List.dropWhile_append_of_pos hall] at hm
        simp [hny] at hm
      · rcases mem_dropWhile_snoc _ _ _ _ hm with hm | rfl
        · exact h.2.1 m hm
        · exact hny
    · intro hl m rest' hr
      cases rest with
      | nil =>
        simp only [List.nil_append, List.cons.injEq] at hr
        rw [← hr.1]
        exact h3 [] n rfl hl
      | cons r0 r =>
        simp only [List.cons_append, List.cons.injEq] at hr
        rw [← hr.1]
        exact h.2.2.1 hl r0 r rfl
    · exact TOrd.snoc h.2.2.2 (fun m hm => h1 m (by simp [hm]))
        (fun A m B hR => h2 (n :: A) m B (by rw [hR]; rfl))
        (fun A m hR => h3 (n :: A) m (by rw [hR]; rfl))

theorem PClosed.snoc {R : TRec} {y : TNode} (h : PClosed R) (hy : y.path ≠ [] → ∃ m ∈ R, m.path = y.path.dropLast) :
    PClosed (R ++ [y]) := by
  intro n hn hne
  simp only [List.mem_append, List.mem_singleton] at hn
  rcases hn with hn | rfl
  · obtain ⟨m, hm, hp⟩ := h n hn hne
    exact ⟨m, by simp [hm], hp⟩
  · obtain ⟨m, hm, hp⟩ := hy hne
    exact ⟨m, by simp [hm], hp⟩

theorem PClosed.prefix {R : TRec} (h : PClosed R) : ∀ (k : Nat) (n : TNode) (q : Path), n ∈ R → q <+: n.path →
    n.path.length = q.length + k → ∃ m ∈ R, m.path = q := by
  intro k
  induction k with
  | zero => intro n q hn hq hl; exact ⟨n, hn, (pre_eq_of_len hq (by omega)).symm⟩
  | succ k ih =>
    intro n q hn hq hl
    have hne : n.path ≠ [] := by intro e; rw [e] at hl; simp at hl
    obtain ⟨m, hm, hp⟩ := h n hn hne
    apply ih m q hm
    · rw [hp]
      apply List.prefix_of_prefix_length_le hq (List.dropLast_prefix _)
      simp; omega
    · rw [hp]; simp; omega

theorem has_iff (r : TRec) (p : Path) : r.has p = true ↔ ∃ m ∈ r, m.path = p := by
  simp [TRec.has]

theorem ensure_inv : ∀ (rest : Path) (pre : Path) (r : TRec),
    TOrd r → PClosed r → (∃ m ∈ r, m.path = pre) →
    (∀ A n B, r = A ++ n :: B → n.path <+: pre ++ rest → ∀ b ∈ B, n.path <+: b.path) →
    (∀ A n, r = A ++ [n] → n.link = none → n.path <+: pre ++ rest) →
    (∀ n ∈ r, ¬ (pre ++ rest) <+: n.path) → rest ≠ [] →
    TOrd (TRec.ensure r pre rest) ∧ PClosed (TRec.ensure r pre rest) ∧
    ∃ new, TRec.ensure r pre rest = r ++ new ++ [⟨pre ++ rest, none⟩] ∧
      ∀ n ∈ new, n.link = none ∧ n.path <+: pre ++ rest := by
  intro rest
  induction rest with
  | nil => intro pre r _ _ _ _ _ _ h; exact absurd rfl h
  | cons s rest' ih =>
    intro pre r hO hC hpre hS hU hN _
    have hpq : pre ++ s :: rest' = pre ++ [s] ++ rest' := by simp
    have hqp : pre ++ [s] <+: pre ++ s :: rest' := by rw [hpq]; exact List.prefix_append _ _
    rw [hpq] at hS hU hN ⊢
    simp only [TRec.ensure]
    by_cases hh : TRec.has r (pre ++ [s]) = true
    · simp only [hh, if_true]
      have hne : rest' ≠ [] := by
        rintro rfl
        obtain ⟨m, hm, hp⟩ := (has_iff r _).mp hh
        exact hN m hm (by rw [hp]; simp)
      exact ih (pre ++ [s]) r hO hC ((has_iff r _).mp hh) hS hU hN hne
    · simp only [hh]
      simp only [Bool.false_eq_true, if_false]
      have hq1 : ∀ n ∈ r, ¬ (pre ++ [s]) <+: n.path := by
        intro n hn hq
        obtain ⟨k, hk⟩ : ∃ k, n.path.length = (pre ++ [s]).length + k := ⟨n.path.length - (pre ++ [s]).length, by have := hq.length_le; omega⟩
        exact hh ((has_iff r _).mpr (hC.prefix k n _ hn hq hk))
      have hcmp : ∀ n ∈ r, n.path <+: pre ++ [s] ++ rest' → n.path <+: pre ++ [s] := by
        intro n hn hnp
        rcases List.prefix_or_prefix_of_prefix hnp (List.prefix_append _ rest') with h | h
        · exact h
        · exact absurd h (hq1 n hn)
      have hO1 : TOrd (r ++ [⟨pre ++ [s], none⟩]) := by
        apply TOrd.snoc hO hq1
        · intro A n B hR hnq
          exact hS A n B hR (List.IsPrefix.trans hnq (List.prefix_append _ _))
        · intro A n hR hl
          exact hcmp n (by rw [hR]; simp) (hU A n hR hl)
      have hC1 : PClosed (r ++ [⟨pre ++ [s], none⟩]) := by
        apply hC.snoc
        intro _
        simpa using hpre
      by_cases hne : rest' = []
      · subst hne
        simp only [TRec.ensure]
        exact ⟨hO1, hC1, [], by simp, by intro n hn; simp at hn⟩
      · have := ih (pre ++ [s]) (r ++ [⟨pre ++ [s], none⟩]) hO1 hC1 ⟨⟨pre ++ [s], none⟩, by simp, rfl⟩
          (by
            intro A n B hR hnp b hb
            rcases snoc_eq_append_cons hR with ⟨rfl, _, _⟩ | ⟨B0, rfl, hr⟩
            · simp at hb
            · simp only [List.mem_append, List.mem_singleton] at hb
              rcases hb with hb | rfl
              · exact hS A n B0 hr hnp b hb
              · exact hcmp n (by rw [hr]; simp) hnp)
          (by
            intro A n hR _
            have := List.append_inj' hR rfl
            simp only [List.cons.injEq, and_true] at this
            rw [← this.2]; exact List.prefix_append _ _)
          (by
            intro n hn
            simp only [List.mem_append, List.mem_singleton] at hn
            rcases hn with hn | rfl
            · exact hN n hn
            · intro hp
              have := hp.length_le
              simp only [List.length_append] at this
              exact hne (List.length_eq_zero_iff.mp (by omega)))
          hne
        obtain ⟨h1, h2, new, h3, h4⟩ := this
        refine ⟨h1, h2, ⟨pre ++ [s], none⟩ :: new, by rw [h3]; simp, ?_⟩
        intro n hn
        simp only [List.mem_cons] at hn
        rcases hn with rfl | hn
        · exact ⟨rfl, List.prefix_append _ _⟩
        · exact h4 n hn

theorem map_id_on {α : Type} (f : α → α) : ∀ (l : List α), (∀ a ∈ l, f a = a) → l.map f = l
  | [], _ => rfl
  | a :: l, h => by
    simp only [List.map_cons, h a (by simp)]
    rw [map_id_on f l (fun b hb => h b (by simp [hb]))]

theorem TOrd.map (f : TNode → TNode) (hp : ∀ n, (f n).path = n.path) (hl : ∀ n, (f n).link = none → n.link = none) :
    ∀ {R : TRec}, TOrd R → TOrd (R.map f)
  | [], _ => by simp [TOrd]
  | n :: rest, h => by
    show TOrd (f n :: rest.map f)
    refine ⟨?_, ?_, ?_, TOrd.map f hp hl h.2.2.2⟩
    · intro m hm
      obtain ⟨m', hm', rfl⟩ := List.mem_map.mp hm
      rw [hp, hp]; exact h.1 m' hm'
    · intro m hm
      rw [List.dropWhile_map] at hm
      obtain ⟨m', hm', rfl⟩ := List.mem_map.mp hm
      have hfun : ((fun m : TNode => (f n).path.isPrefixOf m.path) ∘ f) = (fun m : TNode => n.path.isPrefixOf m.path) := by
        funext x; simp [hp]
      rw [hfun] at hm'
      rw [hp, hp]; exact h.2.1 m' hm'
    · intro hn m rest' hr
      cases rest with
      | nil => simp at hr
      | cons r0 r =>
        simp only [List.map_cons, List.cons.injEq] at hr
        rw [← hr.1, hp, hp]
        exact h.2.2.1 (hl n hn) r0 r rfl

theorem PClosed.map (f : TNode → TNode) (hp : ∀ n, (f n).path = n.path) {R : TRec} (h : PClosed R) :
    PClosed (R.map f) := by
  intro n hn hne
  obtain ⟨n', hn', rfl⟩ := List.mem_map.mp hn
  rw [hp] at hne ⊢
  obtain ⟨m, hm, hmp⟩ := h n' hn' hne
  exact ⟨f m, List.mem_map.mpr ⟨m, hm, rfl⟩, by rw [hp]; exact hmp⟩

/-- invariant of the record while a traversal's loads are recorded one after the other: `ls` are
    the loads recorded so far (path, (link, successful)), `pl` the path of the last one -/
structure RecInv (R : TRec) (pl : Path) (ls : List (Path × (Cid × Bool))) : Prop where
  ord : TOrd R
  closed : PClosed R
  last : ∃ A n, R = A ++ [n] ∧ n.path = pl ∧ n.link ≠ none
  linked : linkedOf R = ls
  nodes : ∀ n ∈ R, ∃ l ∈ ls, n.path <+: l.1

theorem linkedOf_append (A B : TRec) : linkedOf (A ++ B) = linkedOf A ++ linkedOf B := by
  simp [linkedOf]

theorem linkedOf_unlinked (L : TRec) (h : ∀ n ∈ L, n.link = none) : linkedOf L = [] := by
  unfold linkedOf
  apply List.filterMap_eq_nil_iff.mpr
  intro n hn; rw [h n hn]; rfl

/-- `RecordNextStep` for a new path in depth-first position -/
theorem record_step {R : TRec} {pl : Path} {ls : List (Path × (Cid × Bool))} (h : RecInv R pl ls)
    (p : Path) (c : Cid) (ok : Bool)
    (hN : ∀ l ∈ ls, ¬ p <+: l.1)
    (hS : ∀ l ∈ ls, ∀ x, x <+: l.1 → x <+: p → x <+: pl) :
    RecInv (R.record p c ok) p (ls ++ [(p, (c, ok))]) := by
  obtain ⟨hO, hC, ⟨Al, nl, hRl, hnl, hnll⟩, hlk, hnodes⟩ := h
  have hnlR : nl ∈ R := by rw [hRl]; simp
  have hroot : ∃ m ∈ R, m.path = [] := hC.prefix nl.path.length nl [] hnlR List.nil_prefix (by simp)
  have hN' : ∀ n ∈ R, ¬ p <+: n.path := by
    intro n hn hpn
    obtain ⟨l, hl, hnl'⟩ := hnodes n hn
    exact hN l hl (List.IsPrefix.trans hpn hnl')
  have hpne : p ≠ [] := by
    rintro rfl
    obtain ⟨m, hm, _⟩ := hroot
    exact hN' m hm List.nil_prefix
  have hS' : ∀ A n B, R = A ++ n :: B → n.path <+: [] ++ p → ∀ b ∈ B, n.path <+: b.path := by
    intro A n B hR hnp b hb
    simp only [List.nil_append] at hnp
    obtain ⟨l, hl, hnl'⟩ := hnodes n (by rw [hR]; simp)
    have hnpl : n.path <+: nl.path := by rw [hnl]; exact hS l hl n.path hnl' hnp
    rw [hRl] at hR
    rcases snoc_eq_append_cons hR with ⟨rfl, _, _⟩ | ⟨B0, rfl, hr⟩
    · simp at hb
    · simp only [List.mem_append, List.mem_singleton] at hb
      rcases hb with hb | rfl
      · have hO2 : TOrd (A ++ n :: B0 ++ nl :: []) := by
          have : R = A ++ n :: B0 ++ nl :: [] := by rw [hRl, hr]
          rw [← this]; exact hO
        exact TOrd.between hO2 hnpl b hb
      · exact hnpl
  have hU' : ∀ A n, R = A ++ [n] → n.link = none → n.path <+: [] ++ p := by
    intro A n hR hl
    rw [hRl] at hR
    have := List.append_inj' hR rfl
    simp only [List.cons.injEq, and_true] at this
    rw [this.2] at hnll
    exact absurd hl hnll
  obtain ⟨hO1, hC1, new, hnew, hnewp⟩ := ensure_inv p [] R hO hC hroot hS' hU'
    (by simpa using hN') hpne
  simp only [List.nil_append] at hnew hnewp
  have hfp : ∀ n : TNode, (if n.path == p then { n with link := some (c, ok) } else n).path = n.path := by
    intro n; split <;> rfl
  have hfl : ∀ n : TNode, (if n.path == p then { n with link := some (c, ok) } else n).link = none → n.link = none := by
    intro n; split
    · intro h; cases h
    · exact id
  have hnewne : ∀ n ∈ new, n.path ≠ p := by
    intro n hn e
    have hO3 : TOrd ((R ++ new) ++ ⟨p, none⟩ :: []) := by rw [← hnew]; exact hO1
    obtain ⟨N1, N2, rfl⟩ := List.append_of_mem hn
    have hO4 : TOrd ((R ++ N1) ++ n :: (N2 ++ [⟨p, none⟩])) := by simpa using hO3
    exact hO4.later ⟨p, none⟩ (by simp) (by rw [e]; exact List.prefix_refl _)
  have hrec : R.record p c ok = R ++ new ++ [⟨p, some (c, ok)⟩] := by
    unfold TRec.record
    rw [hnew, List.map_append, List.map_append]
    rw [map_id_on _ R (by
      intro n hn
      have : (n.path == p) = false := by
        simp only [beq_eq_false_iff_ne, ne_eq]
        intro e; exact hN' n hn (by rw [e]; exact List.prefix_refl _)
      simp [this])]
    rw [map_id_on _ new (by
      intro n hn
      have : (n.path == p) = false := by
        simp only [beq_eq_false_iff_ne, ne_eq]; exact hnewne n hn
      simp [this])]
    simp
  refine ⟨?_, ?_, ⟨R ++ new, ⟨p, some (c, ok)⟩, hrec, rfl, by simp⟩, ?_, ?_⟩
  · unfold TRec.record
    exact TOrd.map _ hfp hfl hO1
  · unfold TRec.record
    exact PClosed.map _ hfp hC1
  · rw [hrec, linkedOf_append, linkedOf_append, hlk, linkedOf_unlinked new (fun n hn => (hnewp n hn).1)]
    simp [linkedOf]
  · intro n hn
    rw [hrec] at hn
    simp only [List.mem_append, List.mem_singleton] at hn
    rcases hn with (hn | hn) | rfl
    · obtain ⟨l, hl, hp⟩ := hnodes n hn
      exact ⟨l, by simp [hl], hp⟩
    · exact ⟨(p, (c, ok)), by simp, (hnewp n hn).2⟩
    · exact ⟨(p, (c, ok)), by simp, List.prefix_refl _⟩

/-! ### paths in depth-first order -/

/-- all prefixes of a path -/
def prefixes (p : Path) : List Path := (List.range (p.length + 1)).map (fun k => p.take k)

theorem mem_prefixes {x p : Path} : x ∈ prefixes p ↔ x <+: p := by
  unfold prefixes
  simp only [List.mem_map, List.mem_range]
  constructor
  · rintro ⟨k, _, rfl⟩; exact List.take_prefix k p
  · intro h
    exact ⟨x.length, by have := h.length_le; omega, (List.prefix_iff_eq_take.mp h).symm⟩

/-- the paths of a traversal's loads are in depth-first order: no later path is a prefix of an
    earlier one (paths are distinct, a link is loaded before the links below it), and for every
    prefix `x` of a path, the following paths that extend `x` are contiguous (everything under a
    path prefix is visited before the traversal moves on). -/
def PathsDFS : List Path → Prop
  | [] => True
  | p :: rest =>
    (∀ y ∈ rest, ¬ y <+: p) ∧
    (∀ x ∈ prefixes p, ∀ y ∈ rest.dropWhile (fun y => x.isPrefixOf y), ¬ x <+: y) ∧
    PathsDFS rest

instance PathsDFS.dec : (l : List Path) → Decidable (PathsDFS l)
  | [] => isTrue trivial
  | p :: rest =>
    have := PathsDFS.dec rest
    by unfold PathsDFS; exact inferInstance

theorem PathsDFS.suffix : ∀ (A : List Path) {B : List Path}, PathsDFS (A ++ B) → PathsDFS B
  | [], _, h => h
  | _ :: A, _, h => PathsDFS.suffix A h.2.2

theorem PathsDFS.earlier : ∀ {A : List Path} {p : Path} {B : List Path}, PathsDFS (A ++ p :: B) →
    ∀ a ∈ A, ¬ p <+: a
  | [], _, _, _ => by intro a ha; simp at ha
  | a0 :: A, p, B, h => by
    intro a ha
    simp only [List.mem_cons] at ha
    rcases ha with rfl | ha
    · exact h.1 p (by simp)
    · exact PathsDFS.earlier (A := A) h.2.2 a ha

theorem PathsDFS.between {A : List Path} {l : Path} {B1 : List Path} {p : Path} {B2 : List Path}
    (h : PathsDFS (A ++ l :: B1 ++ p :: B2)) {x : Path} (hxl : x <+: l) (hxp : x <+: p) : ∀ b ∈ B1, x <+: b := by
  have h' : PathsDFS (l :: (B1 ++ p :: B2)) := PathsDFS.suffix A (by simpa using h)
  have := all_before_of_dropWhile (fun y => x.isPrefixOf y) B1 p B2 (by simpa using hxp)
    (by intro y hy; exact isPre_false (h'.2.1 x (mem_prefixes.mpr hxl) y hy))
  intro b hb
  simpa using this b hb

/-- the record after the loads `ls` (path, (link, successful)) -/
def recOf (ls : List (Path × (Cid × Bool))) : TRec :=
  ls.foldl (fun r l => r.record l.1 l.2.1 l.2.2) TRec.empty

theorem recInv_fold : ∀ (ls D : List (Path × (Cid × Bool))) (pl : Path) (cl : Cid × Bool) (R : TRec),
    RecInv R pl (D ++ [(pl, cl)]) → PathsDFS ((D ++ (pl, cl) :: ls).map (·.1)) →
    ∃ pl', RecInv (ls.foldl (fun r l => r.record l.1 l.2.1 l.2.2) R) pl' (D ++ (pl, cl) :: ls) := by
  intro ls
  induction ls with
  | nil => intro D pl cl R h _; exact ⟨pl, h⟩
  | cons l ls ih =>
    intro D pl cl R h hP
    have hP' : PathsDFS (D.map (·.1) ++ pl :: ([] ++ l.1 :: ls.map (·.1))) := by simpa using hP
    have hstep := record_step h l.1 l.2.1 l.2.2
      (by
        intro l' hl'
        simp only [List.mem_append, List.mem_singleton] at hl'
        rcases hl' with hl' | rfl
        · obtain ⟨D1, D2, rfl⟩ := List.append_of_mem hl'
          have : PathsDFS ((D1.map (·.1) ++ l'.1 :: (D2.map (·.1) ++ [pl])) ++ l.1 :: ls.map (·.1)) := by
            simpa using hP
          exact this.earlier l'.1 (by simp)
        · have : PathsDFS ((D.map (·.1) ++ [pl]) ++ l.1 :: ls.map (·.1)) := by simpa using hP
          exact this.earlier pl (by simp))
      (by
        intro l' hl' x hxl hxp
        simp only [List.mem_append, List.mem_singleton] at hl'
        rcases hl' with hl' | rfl
        · obtain ⟨D1, D2, rfl⟩ := List.append_of_mem hl'
          have : PathsDFS (D1.map (·.1) ++ l'.1 :: (D2.map (·.1) ++ [pl]) ++ l.1 :: ls.map (·.1)) := by
            simpa using hP
          exact this.between hxl hxp pl (by simp)
        · exact hxl)
    have := ih (D ++ [(pl, cl)]) l.1 l.2 (R.record l.1 l.2.1 l.2.2) (by simpa using hstep) (by simpa using hP)
    simpa using this

theorem recOf_inv (c0 : Cid × Bool) (rest : List (Path × (Cid × Bool)))
    (hP : PathsDFS ((([], c0) :: rest).map (·.1))) : ∃ pl, RecInv (recOf (([], c0) :: rest)) pl (([], c0) :: rest) := by
  have hbase : RecInv (TRec.empty.record [] c0.1 c0.2) [] ([] ++ [([], c0)]) := by
    have hr : TRec.empty.record [] c0.1 c0.2 = [⟨[], some c0⟩] := by
      simp [TRec.record, TRec.empty, TRec.ensure]
    rw [hr]
    refine ⟨by simp [TOrd], ?_, ⟨[], ⟨[], some c0⟩, rfl, rfl, by simp⟩, by simp [linkedOf], ?_⟩
    · intro n hn hne; simp at hn; rw [hn] at hne; exact absurd rfl hne
    · intro n hn; simp at hn; exact ⟨([], c0), by simp, by rw [hn]; exact List.prefix_refl _⟩
  have := recInv_fold rest [] [] c0 _ hbase (by simpa using hP)
  simpa [recOf] using this

end GS.Loader
