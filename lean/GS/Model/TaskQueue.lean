/-
Model of the work queue of go-graphsync (core Lean only).

Part 1 (`PTQ`): the external library github.com/ipfs/go-peertaskqueue v0.8.3 as graphsync uses it
(modelled and differential-tested by harness component `ptq`, NOT verified):

  peertracker.PeerTracker          -> Tracker   (pendingTasks+taskQueue = `pending` in arrival order,
                                                 activeTasks = `active`, activeWork = Σ work of `active`,
                                                 freezeVal = `freeze`)
  peertracker.DefaultPeerComparator-> peerLess
  peertask.PriorityCompare         -> bestPending  (higher priority first, then earlier `created`;
                                                 every PushTask call pushes ONE task, so `created`
                                                 is strictly increasing = position in `pending`)
  PeerTaskQueue.PushTasks          -> push      (DefaultTaskMerger: a topic that is active is dropped,
                                                 a topic that is pending only has its priority raised)
  PeerTaskQueue.PopTasks           -> pop       (incl. maxOutstandingWorkPerPeer = `cap`, removal of an
                                                 idle tracker)
  PeerTaskQueue.TasksDone          -> done      (pointer identity of the popped *Task = `uid`)
  PeerTaskQueue.Remove (+ freeze)  -> remove
  PeerTaskQueue.ThawRound          -> thaw
  Stats / PeerTopics               -> stats / topics

  pQueue (go-ipfs-pq = container/heap): `Peek` returns a comparator-minimal tracker.  WHICH of several
  minimal trackers it returns depends on the heap layout; `order` simulates container/heap
  (up/down/Fix/Remove on the slice of peer ids) so that the executable model reproduces the real
  tie-break.  `peek` returns the simulated heap top when it is comparator-minimal (always, as long
  as the heap invariant holds -- the driver reports `!heap` otherwise) and the first minimal
  tracker if not; hence `peek` is comparator-minimal BY CONSTRUCTION and no theorem depends on the
  heap layout.

Part 2 (`Sys`): /repo/taskqueue/taskqueue.go -- `W` worker goroutines around one PTQ:

  Startup(W, executor)             -> `workers` = W times `.ready`
  worker: PopTasks(1) at loop top  -> Act.pop i     (ready -> exec | idle)
  worker: <-workSignal; PopTasks   -> Act.sig i     (idle, signal buffered (cap 1) -> exec | idle)
  worker: <-ticker.C; ThawRound; PopTasks -> Act.tick i  (idle -> exec | idle)
  executor.ExecuteTask .. TaskDone -> Act.done i    (the executor calls TaskDone exactly once, as both
                                                     graphsync executors do through their managers)
  ExecuteTask returns              -> Act.ret i     (next task of the popped batch, else loop top)
  PushTask (PushTasks + signal)    -> Act.push
  Remove                           -> Act.remove

  Each action is one critical section of `lockTopics` (or the channel operation guarding it).
-/
namespace GS.TQ

structure Task where
  uid   : Nat          -- identity of the *peertask.Task pointer handed out by PopTasks
  topic : Nat
  prio  : Int
  work  : Nat
deriving Repr, DecidableEq

structure Tracker where
  id      : Nat
  pending : List Task := []     -- arrival order
  active  : List Task := []
  freeze  : Nat := 0
deriving Repr, DecidableEq

def sumWork : List Task → Nat
  | [] => 0
  | t :: ts => t.work + sumWork ts

def Tracker.activeWork (t : Tracker) : Nat := sumWork t.active

structure PTQ where
  cap          : Nat := 0          -- maxOutstandingWorkPerPeer (0 = unlimited)
  ignoreFreeze : Bool := false
  peers        : List Tracker := []  -- the map peerTrackers (ids unique), creation order
  order        : List Nat := []      -- simulated heap slice of pQueue (peer ids)
  frozen       : List Nat := []      -- frozenPeers
deriving Repr, DecidableEq

/-! ### trackers as a map -/

def findT (ps : List Tracker) (p : Nat) : Option Tracker := ps.find? (·.id == p)

def setT (ps : List Tracker) (t : Tracker) : List Tracker :=
  ps.map fun u => if u.id == t.id then t else u

def eraseT (ps : List Tracker) (p : Nat) : List Tracker := ps.filter (·.id != p)

/-- apply `f` to the tracker of peer `p` (ids are unique in every reachable state) -/
def modifyT (ps : List Tracker) (p : Nat) (f : Tracker → Tracker) : List Tracker :=
  ps.map fun u => if u.id == p then f u else u

/-- DefaultPeerComparator: `peerLess a b` = "a has higher priority than b". -/
def peerLess (a b : Tracker) : Bool :=
  if a.pending.length == 0 then false
  else if b.pending.length == 0 then true
  else if a.freeze > b.freeze then false
  else if a.freeze < b.freeze then true
  else if a.activeWork == b.activeWork then decide (a.pending.length > b.pending.length)
  else decide (a.activeWork < b.activeWork)

def ltId (ps : List Tracker) (a b : Nat) : Bool :=
  match findT ps a, findT ps b with
  | some x, some y => peerLess x y
  | _, _ => false

/-! ### container/heap on a list of ids -/

def swapAt (xs : List Nat) (i j : Nat) : List Nat :=
  match xs[i]?, xs[j]? with
  | some a, some b => (xs.set i b).set j a
  | _, _ => xs

def hup (lt : Nat → Nat → Bool) : Nat → List Nat → Nat → List Nat
  | 0, xs, _ => xs
  | f + 1, xs, j =>
    let i := (j - 1) / 2
    if i == j then xs else
    match xs[j]?, xs[i]? with
    | some a, some b => if lt a b then hup lt f (swapAt xs i j) i else xs
    | _, _ => xs

/-- returns the new slice and the final position of the element that started at `i` -/
def hdown (lt : Nat → Nat → Bool) : Nat → List Nat → Nat → Nat → List Nat × Nat
  | 0, xs, i, _ => (xs, i)
  | f + 1, xs, i, n =>
    let j1 := 2 * i + 1
    if j1 ≥ n then (xs, i) else
    match xs[j1]?, xs[i]? with
    | some c1, some a =>
      let (j, c) := match xs[j1 + 1]? with
        | some c2 => if j1 + 1 < n && lt c2 c1 then (j1 + 1, c2) else (j1, c1)
        | none => (j1, c1)
      if lt c a then hdown lt f (swapAt xs i j) j n else (xs, i)
    | _, _ => (xs, i)

def hfix (lt : Nat → Nat → Bool) (xs : List Nat) (i : Nat) : List Nat :=
  let r := hdown lt xs.length xs i xs.length
  if r.2 > i then r.1 else hup lt xs.length xs i

def hpush (lt : Nat → Nat → Bool) (xs : List Nat) (x : Nat) : List Nat :=
  hup lt (xs.length + 1) (xs ++ [x]) xs.length

def hremove (lt : Nat → Nat → Bool) (xs : List Nat) (i : Nat) : List Nat :=
  let n := xs.length - 1
  if i ≥ xs.length then xs
  else if n != i then
    let xs1 := swapAt xs i n
    let r := hdown lt xs.length xs1 i n
    let xs2 := if r.2 > i then r.1 else hup lt xs.length xs1 i
    xs2.dropLast
  else xs.dropLast

def idxOf (xs : List Nat) (p : Nat) : Nat := xs.findIdx (· == p)

/-! ### Peek -/

def isMin (ps : List Tracker) (t : Tracker) : Bool := ps.all fun u => !peerLess u t

def heapTop (q : PTQ) : Option Tracker :=
  match q.order with
  | [] => none
  | p :: _ => findT q.peers p

/-- the simulated heap agrees with the comparator (reported by the driver when false) -/
def heapOk (q : PTQ) : Bool :=
  match heapTop q with
  | some t => isMin q.peers t && q.order.length == q.peers.length
  | none => q.peers.isEmpty && q.order.isEmpty

def peek (q : PTQ) : Option Tracker :=
  match heapTop q with
  | some t => if isMin q.peers t then some t else q.peers.find? (isMin q.peers)
  | none => q.peers.find? (isMin q.peers)

/-! ### PushTasks (one task) -/

def mergePending (tr : Tracker) (t : Task) : Tracker :=
  if tr.active.any (·.topic == t.topic) then tr
  else match tr.pending.find? (·.topic == t.topic) with
    | some e =>
      if t.prio > e.prio then
        { tr with pending := tr.pending.map fun x => if x.topic == t.topic then { x with prio := t.prio } else x }
      else tr
    | none => { tr with pending := tr.pending ++ [t] }

def refix (q : PTQ) (ps : List Tracker) (ord : List Nat) (p : Nat) : PTQ :=
  { q with peers := ps, order := hfix (ltId ps) ord (idxOf ord p) }

def push (q : PTQ) (p : Nat) (t : Task) : PTQ :=
  match findT q.peers p with
  | some _ => refix q (modifyT q.peers p (mergePending · t)) q.order p
  | none =>
    let ps := q.peers ++ [{ id := p }]
    let ord := hpush (ltId ps) q.order p
    refix q (modifyT ps p (mergePending · t)) ord p

/-! ### PopTasks -/

/-- PriorityCompare within one peer: highest priority, then earliest arrival -/
def bestPending : List Task → Option Task
  | [] => none
  | t :: ts =>
    match bestPending ts with
    | none => some t
    | some b => if b.prio > t.prio then some b else some t

def startTask (tr : Tracker) (t : Task) : Tracker :=
  { tr with pending := tr.pending.filter (·.uid != t.uid), active := tr.active ++ [t] }

/-- peertracker.PopTasks; `fuel` ≥ number of pending tasks + 1 -/
def popLoop (cap target : Nat) : Nat → Tracker → List Task → Nat → Tracker × List Task
  | 0, tr, out, _ => (tr, out)
  | f + 1, tr, out, work =>
    if tr.freeze != 0 || work ≥ target then (tr, out)
    else if cap > 0 && tr.activeWork ≥ cap then (tr, out)
    else match bestPending tr.pending with
      | none => (tr, out)
      | some t => popLoop cap target f (startTask tr t) (out ++ [t]) (work + t.work)

structure PopResult where
  peer        : Option Nat := none      -- none: the queue has no tracker at all
  tasks       : List Task := []
  pendingWork : Nat := 0
deriving Repr, DecidableEq

def pop (q : PTQ) (target : Nat) : PTQ × PopResult :=
  match peek q with
  | none => (q, {})
  | some tr =>
    let r := popLoop q.cap target (tr.pending.length + 1) tr [] 0
    let tr' := r.1
    let ps1 := setT q.peers tr'
    let res : PopResult := { peer := some tr.id, tasks := r.2, pendingWork := sumWork tr'.pending }
    if tr'.pending.isEmpty && tr'.active.isEmpty then
      ({ q with peers := eraseT q.peers tr.id,
                order := hremove (ltId ps1) q.order (idxOf q.order tr.id),
                frozen := q.frozen.filter (· != tr.id) }, res)
    else (refix q ps1 q.order tr.id, res)

/-! ### TasksDone / Remove / ThawRound -/

/-- peertracker.TaskDone: drop the (one) active entry that is this very task -/
def doneT (uid : Nat) (tr : Tracker) : Tracker := { tr with active := tr.active.eraseP (·.uid == uid) }

def done (q : PTQ) (p uid : Nat) : PTQ :=
  match findT q.peers p with
  | none => q
  | some _ => refix q (modifyT q.peers p (doneT uid)) q.order p

def removeT (topic : Nat) (freeze : Bool) (tr : Tracker) : Tracker :=
  { tr with pending := tr.pending.filter (·.topic != topic),
            freeze := if freeze then tr.freeze + 1 else tr.freeze }

def remove (q : PTQ) (p topic : Nat) : PTQ :=
  match findT q.peers p with
  | none => q
  | some tr =>
    if tr.pending.any (·.topic == topic) then
      if q.ignoreFreeze then refix q (modifyT q.peers p (removeT topic false)) q.order p
      else
        let fz := if q.frozen.contains p then q.frozen else q.frozen ++ [p]
        refix { q with frozen := fz } (modifyT q.peers p (removeT topic true)) q.order p
    else q

/-- peertracker.Thaw: `freezeVal -= (freezeVal + 1) / 2` -/
def thawT (tr : Tracker) : Tracker := { tr with freeze := tr.freeze - (tr.freeze + 1) / 2 }

def thawOne (q : PTQ) (p : Nat) : PTQ :=
  match findT q.peers p with
  | none => q
  | some tr =>
    let fz := if (thawT tr).freeze == 0 then q.frozen.filter (· != p) else q.frozen
    refix { q with frozen := fz } (modifyT q.peers p thawT) q.order p

def thaw (q : PTQ) : PTQ := q.frozen.foldl thawOne q

/-! ### observers -/

structure Stats where
  peers : Nat
  active : Nat
  pending : Nat
deriving Repr, DecidableEq

def distinctTopics (ts : List Task) : Nat := (ts.map (·.topic)).eraseDups.length

def stats (q : PTQ) : Stats :=
  { peers := q.peers.length,
    active := (q.peers.map fun t => distinctTopics t.active).sum,
    pending := (q.peers.map fun t => t.pending.length).sum }

def hasUid (q : PTQ) (u : Nat) : Bool :=
  q.peers.any fun t => t.pending.any (·.uid == u) || t.active.any (·.uid == u)

/-! ## Part 2: the worker pool of taskqueue.go -/

inductive WSt where
  | idle                    -- blocked in the select (workSignal / ticker / ctx)
  | ready                   -- at the top of the loop, about to call PopTasks
  | exec (peer : Nat) (cur : Task) (doneCalled : Bool) (rest : List Task)  -- inside ExecuteTask(cur)
deriving Repr, DecidableEq

structure Sys where
  q       : PTQ := {}
  signal  : Bool := false          -- workSignal (buffered channel of capacity 1)
  workers : List WSt := []
deriving Repr, DecidableEq

def Sys.init (w cap : Nat) : Sys := { q := { cap := cap }, workers := List.replicate w .ready }

inductive Act where
  | push (p : Nat) (t : Task)
  | remove (p topic : Nat)
  | pop (i : Nat)
  | sig (i : Nat)
  | tick (i : Nat)
  | done (i : Nat)
  | ret (i : Nat)
deriving Repr, DecidableEq

def startFrom (r : PopResult) : WSt :=
  match r.peer, r.tasks with
  | some p, t :: ts => .exec p t false ts
  | _, _ => .idle

def Sys.popFor (s : Sys) (i : Nat) (q : PTQ) : Sys :=
  let r := pop q 1
  { s with q := r.1, workers := s.workers.set i (startFrom r.2) }

/-- one atomic step; `none` = the action is not enabled -/
def step (s : Sys) : Act → Option Sys
  | .push p t => if hasUid s.q t.uid then none else some { s with q := push s.q p t, signal := true }
  | .remove p topic => some { s with q := remove s.q p topic }
  | .pop i =>
    match s.workers[i]? with
    | some .ready => some (s.popFor i s.q)
    | _ => none
  | .sig i =>
    match s.workers[i]? with
    | some .idle => if s.signal then some ({ s with signal := false }.popFor i s.q) else none
    | _ => none
  | .tick i =>
    match s.workers[i]? with
    | some .idle => some (s.popFor i (thaw s.q))
    | _ => none
  | .done i =>
    match s.workers[i]? with
    | some (.exec p cur false rest) =>
      some { s with q := done s.q p cur.uid, workers := s.workers.set i (.exec p cur true rest) }
    | _ => none
  | .ret i =>
    match s.workers[i]? with
    | some (.exec p _ true (t :: ts)) => some { s with workers := s.workers.set i (.exec p t false ts) }
    | some (.exec _ _ true []) => some { s with workers := s.workers.set i .ready }
    | _ => none

def isExec : WSt → Bool
  | .exec .. => true
  | _ => false

/-- a traversal of `p` is running: ExecuteTask entered, TaskDone not yet called -/
def isRunningFor (p : Nat) : WSt → Bool
  | .exec q _ false _ => q == p
  | _ => false

/-- number of concurrent ExecuteTask invocations -/
def running (s : Sys) : Nat := (s.workers.filter isExec).length

def runningFor (s : Sys) (p : Nat) : Nat := (s.workers.filter (isRunningFor p)).length

def runList (s : Sys) : List Act → Option Sys
  | [] => some s
  | a :: as => match step s a with
    | some s' => runList s' as
    | none => none

end GS.TQ
