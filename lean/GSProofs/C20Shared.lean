import GSProofs.C20
import GSProofs.Lemmas.ConcurrentSharedSys
/-!
# C20 — requests with distinct dedup keys over the SHARED default store

`GSProofs/C20.lean` proves the composed statement for a request with a dedup key AND a block store of its
own.  This file is about the remaining case left open there (`partial_shared_store`): every request
reads and writes ONE local store, so the store a request reads grows through the other requests'
writes at arbitrary moments.

* `partial_shared_store_counterexample` — the statement AS WRITTEN at the end of `C20.lean` (all link
  trees) is FALSE in the model: for a link tree whose paths are not in depth-first order the verifier's
  replay of a locally loaded prefix fails (`RemoteIncorrectResponseError`), so a request issued after
  another request has stored the first blocks of its DAG ends with an error, while alone (empty store,
  no local prefix, nothing to replay) it delivers everything.  The cause is the single request, not
  the concurrency: the result of ONE request over such a tree depends on what its store holds when it
  is issued (C02's `PathsDFS` hypothesis).
* `shared_store_follows` — the positive theorem, for EVERY schedule, ANY number of other requests (any
  keys but `i`'s), ALL link trees: a request `i` with a dedup key nobody else carries goes — up to the
  contents of the block store — through exactly the run it goes through ALONE over the store as it was
  WHEN IT WAS ISSUED (`issueStore`): same reports in the same order, same termination state, same
  messages, same responder cursor; and every block the alone run stores is in the shared store.  The
  growth of the shared store DURING the exchange never matters.  Hypotheses: the local store is part
  of the responder's (`RemOK`, content addressing), and the alone run is CLEAN (`CleanAt` at each of
  its states: it reports no block missing that the responder holds — completeness of the SINGLE
  request, property C02 — and is not failed by the responder).
* `partial_shared_store_issue_time` — result level: ANY two schedules, one with all the other requests,
  one of request `i` alone over the issue-time store, both complete for `i`: same delivered nodes, same
  missing-block errors, same termination (with `run_confluent`).
* `partial_shared_store_first` — corollary for the request that is issued while the store is still the
  initial one (in particular the first request issued, whatever is issued and stored afterwards):
  result = the result of the request alone between the same two stores.
* `cleanRunB_sound` — `CleanAt` along a run is decidable by evaluation (`cleanRunB`).

What remains (not proved): that the alone run over a well-formed link tree (C02's `WF`, `PathsDFS`) is
always clean and that its RESULT does not depend on the store it starts with (`st ⊆ rem`) — single-request
completeness (C02 `complete_prefix_held`) for one response item per message; 0 violations of either in
20 000 generated well-formed cases (`#eval` harness, not part of the build).
-/
namespace GS.C20
open GS.Loader GS.Requestor GS.LinkTrack GS.Concurrent

/-! ## the statement for ALL link trees is false: paths not in depth-first order -/

/-- root 2 with children 4 (at `7/0`), 3 (at `1`), 5 (at `7/2`), 1 (at `3`): the children at `7/0` and `7/2`
    share the path segment `7` but are not contiguous — not a depth-first path order -/
def badLT : LT := [⟨2, [], 0, 1, 0⟩, ⟨4, [7, 0], 1, 1, 0⟩, ⟨3, [1], 1, 1, 0⟩, ⟨5, [7, 2], 1, 1, 0⟩, ⟨1, [3], 1, 1, 0⟩]

/-- `n` rounds of responder step + delivery for request `i` -/
def rounds (i n : Nat) : List Act := (List.replicate n [Act.resp i, Act.deliver i]).flatten

/-- request 0 (the first four links of `badLT`) runs to completion, then request 1 (`badLT`) is issued -/
def badSched : List Act := .start 0 :: rounds 0 6 ++ .start 1 :: rounds 1 7

def badInit : Sys := initSys [] [1, 2, 3, 4, 5] [badLT.take 4, badLT] [some 1, some 2]

/-- **C20.partial_shared_store_counterexample.**  Distinct dedup keys, empty local store, the responder
    holds everything, both requests issued once and complete.  Request 1 finds the blocks 2, 4, 3, 5
    stored by request 0, loads them locally, asks the responder to skip 4 blocks, and the verifier
    replays its record in trie order (`7/0`, `7/2`, `1`) against the responder's order (`7/0`, `1`, `7/2`):
    `RemoteIncorrectResponseError`, block 1 is never delivered.  Alone (and also in the same system when
    request 0 is never issued) it delivers all five blocks.  So `partial_shared_store` needs a
    well-formedness hypothesis on the link trees. -/
theorem partial_shared_store_counterexample :
    IssuedOnce 1 badSched ∧ Complete 1 (Concurrent.run badInit badSched) ∧
    Complete 1 (Concurrent.run badInit (.start 1 :: rounds 1 7)) ∧
    resultOf (Concurrent.run badInit badSched) 1 = ([(2, []), (4, [7, 0]), (3, [1]), (5, [7, 2])], [], 4) ∧
    Ev.err (.load (.incorrect 5 3 [7, 2])) ∈ (Concurrent.run badInit badSched).evs.getD 1 [] ∧
    resultOf (Concurrent.run badInit (.start 1 :: rounds 1 7)) 1
      = ([(2, []), (4, [7, 0]), (3, [1]), (5, [7, 2]), (1, [3])], [], 5) ∧
    resultOf (solo [] [1, 2, 3, 4, 5] badLT (some 2)) 0 = ([(2, []), (4, [7, 0]), (3, [1]), (5, [7, 2]), (1, [3])], [], 5) := by
  refine ⟨⟨rounds 1 7, by decide, by decide⟩, ⟨?_, by decide⟩, ⟨?_, by decide⟩, by decide, by decide, by decide, by decide⟩
  · intro rr h1
    have : (Concurrent.run badInit badSched).resp[1]?.map (·.active) = some false := by decide
    rw [h1] at this; simpa using this
  · intro rr h1
    have : (Concurrent.run badInit (.start 1 :: rounds 1 7)).resp[1]?.map (·.active) = some false := by decide
    rw [h1] at this; simpa using this

/-! ## `CleanAt` is decidable by evaluation -/

def cleanB (i : Nat) (s : Sys) : Bool :=
  (match s.reqs[i]? with
    | none => true
    | some r =>
      !r.ctxCancelled && (r.phase != .running || (r.requestSent && !r.todo.isEmpty)) &&
      (r.phase != .running ||
        match s.chan[i]? with
        | some (w :: _) => !isFailure w.status
        | _ => true)) &&
  (missingOf (s.evs.getD i [])).all (fun cp => !s.rem.contains cp.1)

theorem cleanB_sound (i : Nat) (s : Sys) (h : cleanB i s = true) : CleanAt i s := by
  unfold cleanB at h
  rw [Bool.and_eq_true] at h
  obtain ⟨h1, h2⟩ := h
  refine ⟨?_, ?_, ?_⟩
  · intro r hr
    rw [hr] at h1
    simp only [Bool.and_eq_true, Bool.or_eq_true, Bool.not_eq_true', bne_iff_ne, ne_eq] at h1
    obtain ⟨⟨a, b⟩, _⟩ := h1
    refine ⟨a, fun hp => ?_⟩
    rcases b with b | b
    · exact absurd hp b
    · exact ⟨b.1, fun e => by rw [e] at b; simp at b⟩
  · intro r w ws hr hp hc
    rw [hr, hc] at h1
    simp only [Bool.and_eq_true, Bool.or_eq_true, Bool.not_eq_true', bne_iff_ne, ne_eq] at h1
    rcases h1.2 with b | b
    · exact absurd hp b
    · exact b
  · intro c p hm hc
    rw [List.all_eq_true] at h2
    have := h2 (c, p) hm
    simp only [Bool.not_eq_true', List.contains_eq_mem, decide_eq_false_iff_not] at this
    exact this hc

/-- `cleanB` at every state of the run of `σ` from `B` -/
def cleanRunB (i : Nat) : Sys → List Act → Bool
  | B, [] => cleanB i B
  | B, a :: σ => cleanB i B && cleanRunB i (Concurrent.step B a) σ

/-- **C20.cleanRunB_sound.**  The cleanliness hypothesis of the theorems below can be checked by
    evaluating the alone run. -/
theorem cleanRunB_sound (i : Nat) : ∀ (σ : List Act) (B : Sys), cleanRunB i B σ = true →
    ∀ τ, τ <+: σ → CleanAt i (Concurrent.run B τ)
  | [], B, h, τ, hτ => by
    have : τ = [] := List.prefix_nil.mp hτ
    subst this
    exact cleanB_sound i B h
  | a :: σ, B, h, τ, hτ => by
    unfold cleanRunB at h
    rw [Bool.and_eq_true] at h
    cases τ with
    | nil => exact cleanB_sound i B h.1
    | cons b τ' =>
      obtain ⟨t, ht⟩ := hτ
      simp only [List.cons_append, List.cons.injEq] at ht
      obtain ⟨rfl, ht⟩ := ht
      exact cleanRunB_sound i σ (Concurrent.step B b) h.2 τ' ⟨t, ht⟩

/-! ## the positive theorem -/

theorem GOK_init (st : List (Cid × Blk)) (rem : List Cid) (lts : List LT) (keys : List (Option Key))
    (h : RemOK rem st) : GOK (initSys st rem lts keys) := by
  refine ⟨rfl, h, ?_, ?_⟩
  · intro j r hr
    simp only [initSys, List.getElem?_map] at hr
    cases hl : lts[j]? with
    | none => rw [hl] at hr; cases hr
    | some lt =>
      rw [hl] at hr
      simp only [Option.map_some, Option.some.injEq] at hr
      subst hr
      exact QOK_empty rem
  · intro j ws w hws hw
    simp only [initSys, List.getElem?_map] at hws
    cases hl : lts[j]? with
    | none => rw [hl] at hws; cases hws
    | some lt =>
      rw [hl] at hws
      simp only [Option.map_some, Option.some.injEq] at hws
      subst hws
      cases hw

theorem KInv_init (st : List (Cid × Blk)) (rem : List Cid) (lts : List LT) (keys : List (Option Key)) :
    KInv (initSys st rem lts keys) := by
  intro e he
  simp [initSys] at he

theorem ActV_init (i : Nat) (k : Key) (st : List (Cid × Blk)) (rem : List Cid) (lts : List LT) (keys : List (Option Key)) :
    ActV i k (initSys st rem lts keys) := by
  intro rr h1 h2
  simp only [initSys, List.getElem?_map] at h1
  cases hl : lts[i]? with
  | none => rw [hl] at h1; cases h1
  | some lt =>
    rw [hl] at h1
    simp only [Option.map_some, Option.some.injEq] at h1
    subst h1
    cases h2

/-- while request `i` has not been issued, the other requests leave everything of `i` alone -/
theorem pre_run (i : Nat) (k : Key) : ∀ (pre : List Act) (A : Sys), (∀ a ∈ pre, Act.idx a ≠ i) → GOK A → KInv A →
    ActV i k A → A.keys.getD i none = some k → (∀ j, j ≠ i → A.keys.getD j none ≠ some k) →
    view i k (Concurrent.run A pre) = view i k A ∧ GOK (Concurrent.run A pre) ∧ KInv (Concurrent.run A pre) ∧
    ActV i k (Concurrent.run A pre) ∧ (Concurrent.run A pre).keys = A.keys
  | [], A, _, hG, hK, hA, _, _ => ⟨rfl, hG, hK, hA, rfl⟩
  | a :: rest, A, hp, hG, hK, hA, hk, hoth => by
    have hkeys := (step_shape A a).1
    have ih := pre_run i k rest (Concurrent.step A a) (fun b hb => hp b (List.mem_cons_of_mem _ hb))
      (GOK_step A a hG).1 (KInv_step A a hK) (ActV_step' i k A a hK hk hoth hA)
      (by rw [hkeys]; exact hk) (by rw [hkeys]; exact hoth)
    obtain ⟨i1, i2, i3, i4, i5⟩ := ih
    exact ⟨i1.trans (other_step i k A a (hp a List.mem_cons_self) hK hoth), i2, i3, i4, i5.trans hkeys⟩

/-- the shared store at the moment request `i` is issued, when the schedule is `pre ++ start i :: post` -/
def issueStore (st : List (Cid × Blk)) (rem : List Cid) (lts : List LT) (keys : List (Option Key)) (pre : List Act) :
    List (Cid × Blk) :=
  (Concurrent.run (initSys st rem lts keys) pre).store

/-- **C20.shared_store_follows** (distinct dedup keys over the SHARED default store, every schedule).
    Any number of requests `lts`, all over the one local store `st`, which is part of the responder's
    store (`hst`).  Request `i` carries a dedup key `k` that no other request carries.  The schedule is
    `pre ++ start i :: post` — request `i` is issued once, `pre` contains none of its actions; otherwise
    `pre` and `post` are ANY interleaving of the other requests' executors, responder steps and
    deliveries, complete or not.  Compare with the run in which request `i` is ALONE over the store as
    it was when it was issued (`issueStore`), doing the same steps (`onlyOf i post`).  If that alone run
    is clean at each of its states (`CleanAt`), request `i` has in both runs the same reports in the same
    order (hence the same `resultOf`: blocks handed to the traversal, missing-block errors, nodes
    delivered), the same termination state, the same messages in flight, the same responder cursor —
    and every block the alone run stores is in the shared store at the end.  The blocks the other
    requests add to the shared store during `i`'s exchange change nothing. -/
theorem shared_store_follows (st : List (Cid × Blk)) (rem : List Cid) (lts : List LT) (keys : List (Option Key))
    (i : Nat) (k : Key) (pre post : List Act)
    (hst : ∀ c, (storeGet st c).isSome = true → c ∈ rem)
    (hk : keys.getD i none = some k) (hothers : ∀ j, j ≠ i → keys.getD j none ≠ some k)
    (hpre : ∀ a ∈ pre, Act.idx a ≠ i) (hpost : ∀ a ∈ post, a ≠ .start i)
    (hclean : ∀ τ, τ <+: onlyOf i post →
      CleanAt i (Concurrent.run (initSys (issueStore st rem lts keys pre) rem lts keys) (.start i :: τ))) :
    let A := Concurrent.run (initSys st rem lts keys) (pre ++ .start i :: post)
    let B := Concurrent.run (initSys (issueStore st rem lts keys pre) rem lts keys) (.start i :: onlyOf i post)
    A.evs.getD i [] = B.evs.getD i [] ∧ resultOf A i = resultOf B i ∧ finished A i = finished B i ∧
    A.chan[i]? = B.chan[i]? ∧ A.resp[i]? = B.resp[i]? ∧
    (∀ c, (storeGet B.store c).isSome = true → (storeGet A.store c).isSome = true) := by
  intro A B
  let A0 := initSys st rem lts keys
  let B0 := initSys (issueStore st rem lts keys pre) rem lts keys
  obtain ⟨p1, p2, p3, p4, p5⟩ := pre_run i k pre A0 hpre (GOK_init st rem lts keys hst) (KInv_init st rem lts keys)
    (ActV_init i k st rem lts keys) hk hothers
  have hv : view i k (Concurrent.run A0 pre) = view i k B0 := p1
  simp only [view, View.mk.injEq] at hv
  obtain ⟨v1, v2, _, _, v5, v6, v7, v8, v9⟩ := hv
  have hlen : (B0.evs[i]?).isSome = (B0.reqs[i]?).isSome := by
    simp [B0, initSys, List.getElem?_map]
  have hS : SimS i k (Concurrent.run A0 pre) B0 :=
    ⟨by rw [v1], v2, v5, v6, v7, v8, v9, p5, Sub.refl _, rfl, hlen⟩
  have hk1 : (Concurrent.run A0 pre).keys.getD i none = some k := by rw [p5]; exact hk
  have hoth1 : ∀ j, j ≠ i → (Concurrent.run A0 pre).keys.getD j none ≠ some k := by rw [p5]; exact hothers
  have hS1 := sim_start i k _ B0 hS p2 v1 rfl hk1
  have hkeys := (step_shape (Concurrent.run A0 pre) (.start i)).1
  have hfin := sim_run i k post _ _ hS1 (GOK_step _ (.start i) p2).1 (KInv_step _ _ p3)
    (KInv_step B0 (.start i) (KInv_init _ rem lts keys)) (ActV_step' i k _ (.start i) p3 hk1 hoth1 p4)
    (by rw [hkeys]; exact hk1) (by rw [hkeys]; exact hoth1) hpost hclean
  have eA : A = Concurrent.run (Concurrent.step (Concurrent.run A0 pre) (.start i)) post := by
    show Concurrent.run A0 (pre ++ .start i :: post) = _
    simp only [Concurrent.run, List.foldl_append, List.foldl_cons]
  have eB : B = Concurrent.run (Concurrent.step B0 (.start i)) (onlyOf i post) := rfl
  rw [← eA] at hfin
  unfold onlyOf at eB
  rw [← eB] at hfin
  have hev : A.evs.getD i [] = B.evs.getD i [] := by
    rw [List.getD_eq_getElem?_getD, List.getD_eq_getElem?_getD, hfin.evs]
  refine ⟨hev, ?_, ?_, hfin.chan, hfin.resp, hfin.sub⟩
  · unfold resultOf; rw [hev]
  · unfold finished
    have := hfin.req
    cases h1 : A.reqs[i]? with
    | none =>
      rw [h1] at this
      cases h2 : B.reqs[i]? with
      | none => rfl
      | some y => rw [h2] at this; cases this
    | some x =>
      rw [h1] at this
      cases h2 : B.reqs[i]? with
      | none => rw [h2] at this; cases this
      | some y =>
        rw [h2] at this
        simp only [Option.map_some, Option.some.injEq] at this
        have : x.phase = y.phase := congrArg (fun r => r.phase) this
        simp only [this]

/-- the cleanliness hypothesis from the evaluated check -/
theorem clean_of_check (i : Nat) (B0 : Sys) (σ : List Act) (h : cleanRunB i (Concurrent.step B0 (.start i)) σ = true) :
    ∀ τ, τ <+: σ → CleanAt i (Concurrent.run B0 (.start i :: τ)) :=
  fun τ hτ => cleanRunB_sound i σ (Concurrent.step B0 (.start i)) h τ hτ

/-- **C20.partial_shared_store_issue_time** (result level).  `pre ++ start i :: post` is any schedule of
    the whole system in which request `i` (dedup key of its own, shared store) is issued once; `sched'`
    is any schedule of request `i` ALONE over the store as it was when `i` was issued.  If both are
    complete for `i` (the responder has finished it, none of its messages is in flight) and the alone
    run is clean, request `i` delivers the same nodes, reports the same missing blocks and terminates
    the same way in both — whatever the other requests do and store in the meantime. -/
theorem partial_shared_store_issue_time (st : List (Cid × Blk)) (rem : List Cid) (lts : List LT) (keys : List (Option Key))
    (i : Nat) (k : Key) (pre post τ : List Act)
    (hst : ∀ c, (storeGet st c).isSome = true → c ∈ rem)
    (hk : keys.getD i none = some k) (hothers : ∀ j, j ≠ i → keys.getD j none ≠ some k)
    (hpre : ∀ a ∈ pre, Act.idx a ≠ i) (hpost : ∀ a ∈ post, a ≠ .start i)
    (hτ : ∀ a ∈ τ, a = .resp i ∨ a = .deliver i)
    (hclean : ∀ τ', τ' <+: onlyOf i post →
      CleanAt i (Concurrent.run (initSys (issueStore st rem lts keys pre) rem lts keys) (.start i :: τ')))
    (c1 : Complete i (Concurrent.run (initSys st rem lts keys) (pre ++ .start i :: post)))
    (c2 : Complete i (Concurrent.run (initSys (issueStore st rem lts keys pre) rem lts keys) (.start i :: τ))) :
    resultOf (Concurrent.run (initSys st rem lts keys) (pre ++ .start i :: post)) i
      = resultOf (Concurrent.run (initSys (issueStore st rem lts keys pre) rem lts keys) (.start i :: τ)) i ∧
    finished (Concurrent.run (initSys st rem lts keys) (pre ++ .start i :: post)) i
      = finished (Concurrent.run (initSys (issueStore st rem lts keys pre) rem lts keys) (.start i :: τ)) i := by
  obtain ⟨_, a2, a3, a4, a5, _⟩ := shared_store_follows st rem lts keys i k pre post hst hk hothers hpre hpost hclean
  have d1 : Complete i (Concurrent.run (initSys (issueStore st rem lts keys pre) rem lts keys) (.start i :: onlyOf i post)) := by
    unfold Complete at c1 ⊢
    rw [List.getD_eq_getElem?_getD] at c1 ⊢
    rw [← a4, ← a5]; exact c1
  have hmem : ∀ a ∈ onlyOf i post, a = .resp i ∨ a = .deliver i := by
    intro a ha
    unfold onlyOf at ha
    obtain ⟨h1, h2⟩ := List.mem_filter.mp ha
    have hi : Act.idx a = i := by simpa using h2
    have hn := hpost a h1
    cases a with
    | start j => simp only [Act.idx] at hi; subst hi; exact absurd rfl hn
    | resp j => simp only [Act.idx] at hi; subst hi; exact Or.inl rfl
    | deliver j => simp only [Act.idx] at hi; subst hi; exact Or.inr rfl
  have heq := run_confluent i (Concurrent.step (initSys (issueStore st rem lts keys pre) rem lts keys) (.start i))
    (onlyOf i post) τ hmem hτ d1 c2
  have e : ∀ ρ, Concurrent.run (initSys (issueStore st rem lts keys pre) rem lts keys) (.start i :: ρ)
      = Concurrent.run (Concurrent.step (initSys (issueStore st rem lts keys pre) rem lts keys) (.start i)) ρ := fun _ => rfl
  rw [a2, a3, e, e, heq]
  exact ⟨rfl, rfl⟩

/-- **C20.partial_shared_store_first** (`partial_shared_store` for the request issued over the initial
    store).  If the shared store still has its initial contents when request `i` is issued
    (`issueStore … pre = st`: in particular `pre = []`, `i` is the first request issued — the other
    requests are issued, run and store blocks at any time afterwards), then under every such schedule
    that is complete for `i` its result is the result of ANY complete schedule of `i` alone between the
    same two stores: same delivered nodes, same missing-block errors, same termination. -/
theorem partial_shared_store_first (st : List (Cid × Blk)) (rem : List Cid) (lts : List LT) (keys : List (Option Key))
    (i : Nat) (k : Key) (pre post τ : List Act)
    (hst : ∀ c, (storeGet st c).isSome = true → c ∈ rem)
    (hk : keys.getD i none = some k) (hothers : ∀ j, j ≠ i → keys.getD j none ≠ some k)
    (hpre : ∀ a ∈ pre, Act.idx a ≠ i) (hpost : ∀ a ∈ post, a ≠ .start i)
    (hτ : ∀ a ∈ τ, a = .resp i ∨ a = .deliver i)
    (hS0 : issueStore st rem lts keys pre = st)
    (hclean : ∀ τ', τ' <+: onlyOf i post → CleanAt i (Concurrent.run (initSys st rem lts keys) (.start i :: τ')))
    (c1 : Complete i (Concurrent.run (initSys st rem lts keys) (pre ++ .start i :: post)))
    (c2 : Complete i (Concurrent.run (initSys st rem lts keys) (.start i :: τ))) :
    resultOf (Concurrent.run (initSys st rem lts keys) (pre ++ .start i :: post)) i
      = resultOf (Concurrent.run (initSys st rem lts keys) (.start i :: τ)) i ∧
    finished (Concurrent.run (initSys st rem lts keys) (pre ++ .start i :: post)) i
      = finished (Concurrent.run (initSys st rem lts keys) (.start i :: τ)) i := by
  have := partial_shared_store_issue_time st rem lts keys i k pre post τ hst hk hothers hpre hpost hτ
    (by rw [hS0]; exact hclean) c1 (by rw [hS0]; exact c2)
  rw [hS0] at this
  exact this

/-- the first request issued: the store is the initial one -/
theorem issueStore_nil (st : List (Cid × Blk)) (rem : List Cid) (lts : List LT) (keys : List (Option Key)) :
    issueStore st rem lts keys [] = st := rfl

/-! ## non-vacuity (tests of concrete values)

The two requests of `counterexample` (same two-block DAG, root 7 with child 3) with distinct dedup keys
over ONE shared store.  Request 0 is issued and its root block delivered and stored; then request 1 is
issued: it finds block 7 in the shared store, goes online with do-not-send-first-blocks = 1; request 0
stores block 3 while request 1's exchange is under way.  The hypotheses of `shared_store_follows` /
`partial_shared_store_issue_time` hold (the issue-time store is `[(7, 7)]`, the alone run over it is
clean and complete), and request 1 delivers both blocks — its MESSAGES differ from the run over the
empty store (skip 1 instead of 0), its result does not. -/

def shPre : List Act := [.start 0, .resp 0, .deliver 0]
def shPost : List Act := [.resp 0, .resp 1, .deliver 0, .deliver 1, .resp 1, .deliver 1, .resp 1, .deliver 1, .resp 0, .deliver 0]

example :
    issueStore [] [7, 3] [exLT, exLT] [some 1, some 2] shPre = [(7, 7)] ∧
    (∀ a ∈ shPre, Act.idx a ≠ 1) ∧ (∀ a ∈ shPost, a ≠ .start 1) ∧
    onlyOf 1 shPost = [.resp 1, .deliver 1, .resp 1, .deliver 1, .resp 1, .deliver 1] ∧
    cleanRunB 1 (Concurrent.step (initSys [(7, 7)] [7, 3] [exLT, exLT] [some 1, some 2]) (.start 1)) (onlyOf 1 shPost) = true ∧
    (Concurrent.run (initSys [] [7, 3] [exLT, exLT] [some 1, some 2]) (shPre ++ .start 1 :: shPost)).chan.getD 1 [] = [] ∧
    resultOf (Concurrent.run (initSys [] [7, 3] [exLT, exLT] [some 1, some 2]) (shPre ++ .start 1 :: shPost)) 1
      = ([(7, []), (3, [0])], [], 2) ∧
    sentSkip ((Concurrent.run (initSys [] [7, 3] [exLT, exLT] [some 1, some 2]) (shPre ++ .start 1 :: shPost)).evs.getD 1 [])
      = some 1 ∧
    stored (Concurrent.run (initSys [] [7, 3] [exLT, exLT] [some 1, some 2]) (shPre ++ .start 1 :: shPost)) = [3, 3, 7] := by
  refine ⟨by decide, by decide, by decide, by decide, by decide, by decide, by decide, by decide, by decide⟩

end GS.C20
