import GSProofs.Lemmas.LinkTrackDedup
/-!
History-level vocabulary for the C19 theorems, defined by scanning the operation list only
(no model, no specification state), and its connection to the specification state.
-/
set_option linter.unusedSimpArgs false
namespace GS.LinkTrack

/-- the request an operation belongs to -/
def Op.req : Op → Req
  | .dedup r _ => r | .ignore r _ => r | .skip r _ => r | .trav r _ _ => r
  | .finish r => r | .finishErr r => r | .clear r => r

/-- the operation ends its request (FinishRequest / FinishWithError / ClearRequest) -/
def Op.isEnd : Op → Bool
  | .finish _ => true | .finishErr _ => true | .clear _ => true | _ => false

/-- one scanning step: the operations of `r` since it last ended -/
def sinceStep (r : Req) (acc : List Op) (o : Op) : List Op :=
  if o.req = r then (if o.isEnd then [] else acc ++ [o]) else acc

/-- the operations request `r` issued since it began (= since its last finish / error / clear) -/
def since (r : Req) (h : List Op) : List Op := h.foldl (sinceStep r) []

/-- `r` is in progress: it has issued an operation since it last ended -/
def inProgress (r : Req) (h : List Op) : Bool := !(since r h).isEmpty

/-- every request that was started has finished or was cleared -/
def allFinished (h : List Op) : Prop := ∀ r, inProgress r h = false

/-- the dedup scope of `r`: the key last assigned to it since it began -/
def scopeOf (r : Req) (h : List Op) : Option Key :=
  (since r h).foldl (fun s o => match o with | .dedup _ k => some k | _ => s) none

def wbLinks : Op → List Link
  | .trav _ l true => [l]
  | .ignore _ ls => ls
  | _ => []

/-- the links `r` traversed with their block since it began (sent, suppressed, skipped or ignored) -/
def withBlock (r : Req) (h : List Op) : List Link := (since r h).flatMap wbLinks

def isMissTrav : Op → Bool
  | .trav _ _ false => true
  | _ => false

/-- `r` reported a link without data since it began -/
def metMissing (r : Req) (h : List Op) : Bool := (since r h).any isMissTrav

def isTrav : Op → Bool
  | .trav _ _ _ => true
  | _ => false

/-- number of links `r` reported since it began -/
def travCount (r : Req) (h : List Op) : Nat := (since r h).countP isTrav

/-- the do-not-send-first-blocks value in force for `r` (0 if never set since it began) -/
def skipOf (r : Req) (h : List Op) : Int :=
  (since r h).foldl (fun s o => match o with | .skip _ n => n | _ => s) 0


def specRun (h : List Op) : Spec := (Spec.runFrom {} h).1
/-- Kept only so that files written before the `DedupKey` repair (/repo a69c5a5) still compile: the
refinement and every C19 theorem now hold for ALL histories, so the former well-formedness
hypothesis is vacuous. -/
def WF (_h : List Op) : Prop := True
instance (h : List Op) : Decidable (WF h) := isTrue trivial

/-! ### the with-block list of a request, with multiplicities -/

theorem reqLinks_append (L M : List PEntry) (r : Req) : reqLinks (L ++ M) r = reqLinks L r ++ reqLinks M r := by
  simp [reqLinks, List.filter_append]

theorem reqLinks_map (s : Option Key) (r' : Req) (ls : List Link) (r : Req) :
    reqLinks (ls.map (fun l => (s, r', l))) r = if r' = r then ls else [] := by
  unfold reqLinks
  by_cases h : r' = r
  · subst h; simp [List.filter_map, Function.comp_def]
  · simp [h, List.filter_map, Function.comp_def]

theorem reqLinks_single (s : Option Key) (r' : Req) (l : Link) (r : Req) :
    reqLinks [(s, r', l)] r = if r' = r then [l] else [] := by
  have := reqLinks_map s r' [l] r
  simpa using this

theorem reqLinks_filter (L : List PEntry) (r' r : Req) :
    reqLinks (L.filter (fun e => e.2.1 != r')) r = if r' = r then [] else reqLinks L r := by
  unfold reqLinks
  rw [List.filter_filter]
  by_cases h : r' = r
  · subst h
    simp only [if_true, List.map_eq_nil_iff, List.filter_eq_nil_iff]
    intro e _; simp
  · simp only [h, if_false]
    congr 1
    apply List.filter_congr
    intro e _
    by_cases he : e.2.1 = r <;> simp [he]
    intro h2; exact h h2.symm

theorem reqLinks_moveReq (L : List PEntry) (r' : Req) (s : Option Key) (r : Req) :
    reqLinks (Spec.moveReq L r' s) r = reqLinks L r := by
  unfold Spec.moveReq
  rw [reqLinks_append, reqLinks_filter]
  have : reqLinks ((L.filter (fun e => e.2.1 == r')).map (fun e => (s, e.2.1, e.2.2))) r =
      if r' = r then reqLinks L r else [] := by
    unfold reqLinks
    by_cases h : r' = r
    · subst h
      simp only [if_true, List.filter_map, List.map_map]
      rw [List.filter_filter]
      have : (L.filter (fun a => ((fun e : PEntry => e.2.1 == r') ∘ fun e => (s, e.2.1, e.2.2)) a && a.2.1 == r'))
          = L.filter (fun e => e.2.1 == r') := by
        apply List.filter_congr; intro e _; simp [Function.comp_def]
      rw [this]
      apply List.map_congr_left; intro e _; rfl
    · simp only [h, if_false, List.map_eq_nil_iff, List.filter_eq_nil_iff, List.mem_map, List.mem_filter]
      rintro x ⟨e, ⟨_, he⟩, rfl⟩
      have : e.2.1 = r' := by simpa using he
      simp [this, h]
  rw [this]
  by_cases h : r' = r <;> simp [h]

theorem exists_mem_moveReq (L : List PEntry) (r' : Req) (s : Option Key) (r : Req) (l : Link) :
    (∃ s1, (s1, r, l) ∈ Spec.moveReq L r' s) ↔ ∃ s1, (s1, r, l) ∈ L := by
  constructor
  · rintro ⟨s1, h1⟩
    rcases mem_moveReq.1 h1 with ⟨h2, _⟩ | ⟨_, h3, s0, h4⟩
    · exact ⟨s1, h2⟩
    · simp only at h3 h4; subst h3; exact ⟨s0, h4⟩
  · rintro ⟨s1, h1⟩
    by_cases hr : r = r'
    · subst hr; exact ⟨s, mem_moveReq.2 (Or.inr ⟨rfl, rfl, s1, h1⟩)⟩
    · exact ⟨s1, mem_moveReq.2 (Or.inl ⟨h1, hr⟩)⟩

theorem any_req_moveReq (L : List PEntry) (r' : Req) (s : Option Key) (r : Req) :
    (Spec.moveReq L r' s).any (fun e => e.2.1 == r) = L.any (fun e => e.2.1 == r) := by
  rw [Bool.eq_iff_iff]
  simp only [List.any_eq_true, beq_iff_eq]
  constructor
  · rintro ⟨e, he, rfl⟩
    obtain ⟨s1, h1⟩ := (exists_mem_moveReq L r' s e.2.1 e.2.2).1 ⟨e.1, he⟩
    exact ⟨_, h1, rfl⟩
  · rintro ⟨e, he, rfl⟩
    obtain ⟨s1, h1⟩ := (exists_mem_moveReq L r' s e.2.1 e.2.2).2 ⟨e.1, he⟩
    exact ⟨_, h1, rfl⟩

/-! field projections of the `dedup` step of the specification -/
section dedupStep
variable (σ : Spec) (r : Req) (k : Key)
theorem dedup_scope (x : Req) : (σ.step (.dedup r k)).1.scope x = upd σ.scope r (some k) x := by
  simp only [Spec.step]
  split
  · rename_i h; by_cases hx : x = r
    · subst hx; simp [h]
    · simp [upd, hx]
  · rfl
theorem dedup_live : (σ.step (.dedup r k)).1.live = upd σ.live r true := by
  simp only [Spec.step]; split <;> rfl
theorem dedup_cnt : (σ.step (.dedup r k)).1.cnt = σ.cnt := by simp only [Spec.step]; split <;> rfl
theorem dedup_skp : (σ.step (.dedup r k)).1.skp = σ.skp := by simp only [Spec.step]; split <;> rfl
theorem dedup_wb_mem (x : Req) (l : Link) :
    (∃ s1, (s1, x, l) ∈ (σ.step (.dedup r k)).1.wb) ↔ ∃ s1, (s1, x, l) ∈ σ.wb := by
  simp only [Spec.step]; split
  · rfl
  · exact exists_mem_moveReq σ.wb r (some k) x l
theorem dedup_ms_mem (x : Req) (l : Link) :
    (∃ s1, (s1, x, l) ∈ (σ.step (.dedup r k)).1.ms) ↔ ∃ s1, (s1, x, l) ∈ σ.ms := by
  simp only [Spec.step]; split
  · rfl
  · exact exists_mem_moveReq σ.ms r (some k) x l
theorem dedup_sawMissing (x : Req) : (σ.step (.dedup r k)).1.sawMissing x = σ.sawMissing x := by
  simp only [Spec.step, Spec.sawMissing]; split
  · rfl
  · exact any_req_moveReq σ.ms r (some k) x
theorem dedup_reqLinks (x : Req) : reqLinks (σ.step (.dedup r k)).1.wb x = reqLinks σ.wb x := by
  simp only [Spec.step]; split
  · rfl
  · exact reqLinks_moveReq σ.wb r (some k) x
end dedupStep

theorem reqLinks_step (σ : Spec) (r : Req) (acc : List Op) (h : reqLinks σ.wb r = acc.flatMap wbLinks)
    (o : Op) : reqLinks (σ.step o).1.wb r = (sinceStep r acc o).flatMap wbLinks := by
  unfold sinceStep
  cases o with
  | dedup r' k =>
    rw [dedup_reqLinks]
    by_cases hr : r' = r <;> simp [Op.req, Op.isEnd, hr, h, wbLinks, List.flatMap_append]
  | skip r' n =>
    by_cases hr : r' = r <;> simp [Op.req, Op.isEnd, hr, Spec.step, h, wbLinks, List.flatMap_append]
  | ignore r' ls =>
    simp only [ignore_wb, reqLinks_append, reqLinks_map, h, Op.req, Op.isEnd]
    by_cases hr : r' = r <;> simp [hr, wbLinks, List.flatMap_append]
  | trav r' l b =>
    simp only [trav_wb, Op.req, Op.isEnd]
    by_cases hr : r' = r <;> cases b <;>
      simp [hr, wbLinks, List.flatMap_append, reqLinks_append, reqLinks_single, h]
  | finish r' =>
    simp only [Spec.step, Spec.endReq, reqLinks_filter, Op.req, Op.isEnd]
    by_cases hr : r' = r <;> simp [hr, h]
  | finishErr r' =>
    simp only [Spec.step, Spec.endReq, reqLinks_filter, Op.req, Op.isEnd]
    by_cases hr : r' = r <;> simp [hr, h]
  | clear r' =>
    simp only [Spec.step, Spec.endReq, reqLinks_filter, Op.req, Op.isEnd]
    by_cases hr : r' = r <;> simp [hr, h]

theorem reqLinks_runFrom (σ : Spec) (r : Req) (acc : List Op) (h : reqLinks σ.wb r = acc.flatMap wbLinks)
    (ops : List Op) : reqLinks (σ.runFrom ops).1.wb r = (ops.foldl (sinceStep r) acc).flatMap wbLinks := by
  induction ops generalizing σ acc with
  | nil => exact h
  | cons o os ih => simp only [Spec.runFrom, List.foldl_cons]; exact ih _ _ (reqLinks_step σ r acc h o)

/-- the entries of `r` in the specification's with-block ledger are exactly `withBlock r h` -/
theorem reqLinks_specRun (h : List Op) (r : Req) : reqLinks (specRun h).wb r = withBlock r h :=
  reqLinks_runFrom {} r [] rfl h

/-! ### counting ledger entries request by request -/

theorem sum_map_zero (rs : List Req) : (rs.map (fun _ => 0)).sum = 0 := by
  induction rs with
  | nil => rfl
  | cons a t ih => simp [ih]

theorem sum_map_add (rs : List Req) (f g : Req → Nat) :
    (rs.map (fun r => f r + g r)).sum = (rs.map f).sum + (rs.map g).sum := by
  induction rs with
  | nil => rfl
  | cons a t ih => simp [ih]; omega

theorem sum_indicator (rs : List Req) (hnd : rs.Nodup) (a : Req) (ha : a ∈ rs) :
    (rs.map (fun r => if a = r then 1 else 0)).sum = 1 := by
  induction rs with
  | nil => simp at ha
  | cons x t ih =>
    simp only [List.nodup_cons] at hnd
    simp only [List.map_cons, List.sum_cons]
    by_cases hx : a = x
    · subst hx
      have : t.map (fun r => if a = r then 1 else 0) = t.map (fun _ => 0) := by
        apply List.map_congr_left
        intro r hr
        have : a ≠ r := fun h2 => hnd.1 (h2 ▸ hr)
        simp [this]
      simp [this, sum_map_zero]
    · have : a ∈ t := by
        rcases List.mem_cons.1 ha with h | h
        · exact absurd h hx
        · exact h
      simp [hx, ih hnd.2 this]

/-- the number of entries naming `l` = the sum over the requests of how often each lists `l` -/
theorem cntOf_eq_sum (wb : Ledger) (rs : List Req) (hnd : rs.Nodup) (hcov : ∀ e ∈ wb, e.1 ∈ rs) (l : Link) :
    cntOf wb l = (rs.map (fun r => (linksOf wb r).count l)).sum := by
  induction wb with
  | nil => simp [cntOf, linksOf, sum_map_zero]
  | cons e t ih =>
    obtain ⟨a, b⟩ := e
    have ih' := ih (fun e he => hcov e (List.mem_cons_of_mem _ he))
    have ha : a ∈ rs := hcov (a, b) List.mem_cons_self
    have hsplit : ∀ r, (linksOf ((a, b) :: t) r).count l =
        (linksOf t r).count l + (if b = l then (if a = r then 1 else 0) else 0) := by
      intro r
      unfold linksOf
      by_cases h1 : a = r <;> by_cases h2 : b = l <;> simp [List.filter_cons, h1, h2, List.count_cons]
    have : (fun r => (linksOf ((a, b) :: t) r).count l) =
        (fun r => (linksOf t r).count l + (if b = l then (if a = r then 1 else 0) else 0)) := funext hsplit
    rw [this, sum_map_add, ← ih']
    unfold cntOf
    by_cases h2 : b = l
    · simp [h2, List.countP_cons, sum_indicator rs hnd a ha]
    · simp [h2, List.countP_cons, sum_map_zero]

/-! ### the bare `linktracker.LinkTracker` -/

/-- naive ledgers for the bare tracker: with-block and missing traversals of unfinished requests -/
def lghost : Ledger × Ledger → LOp → Ledger × Ledger
  | (wb, ms), .record r l true => (wb ++ [(r, l)], ms)
  | (wb, ms), .record r l false => (wb, ms ++ [(r, l)])
  | (wb, ms), .finish r => (dropReq wb r, dropReq ms r)

def lwb (h : List LOp) : Ledger := (h.foldl lghost ([], [])).1
def lms (h : List LOp) : Ledger := (h.foldl lghost ([], [])).2

theorem lsim_from {T : LinkTracker} {g : Ledger × Ledger} (h : Sim T g.1 g.2) (ops : List LOp) :
    Sim (lrunFrom T ops) (ops.foldl lghost g).1 (ops.foldl lghost g).2 := by
  induction ops generalizing T g with
  | nil => exact h
  | cons o os ih =>
    simp only [lrunFrom, List.foldl_cons]
    apply ih
    obtain ⟨wb, ms⟩ := g
    cases o with
    | record r l b =>
      cases b
      · exact sim_record_false h r l
      · exact sim_record_true h r l
    | finish r => exact (sim_finish h r).1

theorem lsim (h : List LOp) : Sim (lrun h) (lwb h) (lms h) := lsim_from sim_empty h

/-! ### runs -/


theorem Spec.runFrom_append (σ : Spec) (a b : List Op) :
    σ.runFrom (a ++ b) = ((Spec.runFrom (σ.runFrom a).1 b).1, (σ.runFrom a).2 ++ (Spec.runFrom (σ.runFrom a).1 b).2) := by
  induction a generalizing σ with
  | nil => simp [Spec.runFrom]
  | cons o os ih => simp [Spec.runFrom, ih]

theorem runFrom_append (p : PeerTracker) (a b : List Op) :
    runFrom p (a ++ b) = ((runFrom (runFrom p a).1 b).1, (runFrom p a).2 ++ (runFrom (runFrom p a).1 b).2) := by
  induction a generalizing p with
  | nil => simp [runFrom]
  | cons o os ih => simp [runFrom, ih]

theorem specRun_snoc (h : List Op) (o : Op) : specRun (h ++ [o]) = ((specRun h).step o).1 := by
  simp [specRun, Spec.runFrom_append, Spec.runFrom]

theorem run_snoc (h : List Op) (o : Op) :
    run (h ++ [o]) = ((step (run h).1 o).1, (run h).2 ++ [(step (run h).1 o).2]) := by
  simp [run, runFrom_append, runFrom]

theorem since_snoc (r : Req) (h : List Op) (o : Op) : since r (h ++ [o]) = sinceStep r (since r h) o := by
  simp [since, List.foldl_append]

/-- the model refines the specification on every history -/
theorem run_refines (h : List Op) :
    R (run h).1 (specRun h) ∧ (run h).2 = (Spec.runFrom {} h).2 :=
  runFrom_refines R_init h

/-! ### the specification state, characterised by scanning the history -/

/-- what the specification state says about request `r`, in terms of `since r h` -/
structure Char (σ : Spec) (r : Req) (acc : List Op) : Prop where
  scope : σ.scope r = acc.foldl (fun s o => match o with | .dedup _ k => some k | _ => s) none
  live : σ.live r = !acc.isEmpty
  miss : σ.sawMissing r = acc.any isMissTrav
  cnt : (σ.cnt r).getD 0 = acc.countP isTrav
  skp : (σ.skp r).getD 0 = acc.foldl (fun s o => match o with | .skip _ n => n | _ => s) 0
  wb : ∀ l, (∃ s, (s, r, l) ∈ σ.wb) ↔ l ∈ acc.flatMap wbLinks
  ms : ∀ l, (∃ s, (s, r, l) ∈ σ.ms) → acc ≠ []
  idle : acc = [] → σ.scope r = none ∧ σ.cnt r = none ∧ σ.skp r = none

theorem char_init (r : Req) : Char {} r [] := by
  constructor <;> simp [Spec.sawMissing]

theorem char_step {σ : Spec} {r : Req} {acc : List Op} (h : Char σ r acc) (o : Op) :
    Char (σ.step o).1 r (sinceStep r acc o) := by
  unfold sinceStep
  by_cases hr : o.req = r
  · -- an operation of `r`
    cases o with
    | dedup r' k =>
      simp only [Op.req] at hr; subst hr
      simp only [Op.req, Op.isEnd, if_true, Bool.false_eq_true, if_false]
      constructor
      · rw [dedup_scope]; simp [List.foldl_append]
      · rw [dedup_live]; simp
      · rw [dedup_sawMissing]; simpa [isMissTrav] using h.miss
      · rw [dedup_cnt]; simpa [List.countP_append, isTrav] using h.cnt
      · rw [dedup_skp]; simpa [List.foldl_append] using h.skp
      · intro l; rw [dedup_wb_mem]; simpa [List.flatMap_append, wbLinks] using h.wb l
      · intro l; simp
      · simp
    | ignore r' ls =>
      simp only [Op.req] at hr; subst hr
      simp only [Op.req, Op.isEnd, if_true, Bool.false_eq_true, if_false]
      constructor
      · simpa [Spec.step, List.foldl_append] using h.scope
      · simp [Spec.step]
      · simpa [Spec.step, Spec.sawMissing, isMissTrav] using h.miss
      · simpa [Spec.step, List.countP_append, isTrav] using h.cnt
      · simpa [Spec.step, List.foldl_append] using h.skp
      · intro l
        simp only [Spec.step, List.mem_append, List.mem_map, List.flatMap_append, List.flatMap_cons,
          List.flatMap_nil, wbLinks, List.append_nil]
        rw [← h.wb l]
        constructor
        · rintro ⟨s, hs | ⟨l', hl', heq⟩⟩
          · exact Or.inl ⟨s, hs⟩
          · simp at heq; rw [← heq.2]; exact Or.inr hl'
        · rintro (⟨s, hs⟩ | hl)
          · exact ⟨s, Or.inl hs⟩
          · exact ⟨σ.scope r', Or.inr ⟨l, hl, rfl⟩⟩
      · intro l; simp
      · simp
    | skip r' n =>
      simp only [Op.req] at hr; subst hr
      simp only [Op.req, Op.isEnd, if_true, Bool.false_eq_true, if_false]
      constructor
      · simpa [Spec.step, List.foldl_append] using h.scope
      · simp [Spec.step]
      · simpa [Spec.step, Spec.sawMissing, isMissTrav] using h.miss
      · simpa [Spec.step, List.countP_append, isTrav] using h.cnt
      · simp [Spec.step, List.foldl_append]
      · intro l; simpa [Spec.step, List.flatMap_append, wbLinks] using h.wb l
      · intro l; simp
      · simp
    | trav r' l b =>
      simp only [Op.req] at hr; subst hr
      simp only [Op.req, Op.isEnd, if_true, Bool.false_eq_true, if_false]
      constructor
      · simpa [List.foldl_append] using h.scope
      · cases b <;> simp [Spec.step]
      · have := h.miss
        unfold Spec.sawMissing at this ⊢
        cases b <;> simp [Spec.step, isMissTrav, List.any_append, this]
      · have := h.cnt
        simp [List.countP_append, isTrav, this]
      · simpa [List.foldl_append] using h.skp
      · intro l'
        simp only [trav_wb, List.flatMap_append, List.flatMap_cons, List.flatMap_nil, List.append_nil,
          List.mem_append]
        rw [← h.wb l']
        cases b with
        | true =>
          simp only [if_true, List.mem_append, List.mem_singleton, wbLinks]
          constructor
          · rintro ⟨s, hs | heq⟩
            · exact Or.inl ⟨s, hs⟩
            · simp at heq; exact Or.inr heq.2
          · rintro (⟨s, hs⟩ | hl)
            · exact ⟨s, Or.inl hs⟩
            · exact ⟨σ.scope r', Or.inr (by rw [hl])⟩
        | false => simp [wbLinks]
      · intro l'; simp
      · simp
    | finish r' =>
      simp only [Op.req] at hr; subst hr
      simp only [Op.req, Op.isEnd, if_true]
      constructor <;> simp [Spec.step, Spec.endReq, Spec.sawMissing]
    | finishErr r' =>
      simp only [Op.req] at hr; subst hr
      simp only [Op.req, Op.isEnd, if_true]
      constructor <;> simp [Spec.step, Spec.endReq, Spec.sawMissing]
    | clear r' =>
      simp only [Op.req] at hr; subst hr
      simp only [Op.req, Op.isEnd, if_true]
      constructor <;> simp [Spec.step, Spec.endReq, Spec.sawMissing]
  · -- an operation of another request leaves everything about `r` alone
    simp only [hr, if_false]
    have hne : r ≠ o.req := fun h2 => hr h2.symm
    cases o with
    | dedup r' k =>
      simp only [Op.req] at hne
      refine ⟨by rw [dedup_scope]; simpa [upd, hne] using h.scope, by rw [dedup_live]; simpa [upd, hne] using h.live,
        by rw [dedup_sawMissing]; exact h.miss, by rw [dedup_cnt]; exact h.cnt, by rw [dedup_skp]; exact h.skp,
        fun l => by rw [dedup_wb_mem]; exact h.wb l, fun l => by rw [dedup_ms_mem]; exact h.ms l, ?_⟩
      intro ha
      have := h.idle ha
      rw [dedup_scope, dedup_cnt, dedup_skp]
      simpa [upd, hne] using this
    | ignore r' ls =>
      simp only [Op.req] at hne
      refine ⟨h.scope, by simpa [Spec.step, upd, hne] using h.live, h.miss, h.cnt, h.skp, ?_, h.ms, h.idle⟩
      intro l
      rw [← h.wb l]
      simp only [Spec.step, List.mem_append, List.mem_map]
      constructor
      · rintro ⟨s, hs | ⟨l', _, heq⟩⟩
        · exact ⟨s, hs⟩
        · simp at heq; exact absurd heq.2.1.symm hne
      · rintro ⟨s, hs⟩; exact ⟨s, Or.inl hs⟩
    | skip r' n =>
      simp only [Op.req] at hne
      exact ⟨h.scope, by simpa [Spec.step, upd, hne] using h.live, h.miss, h.cnt,
        by simpa [Spec.step, upd, hne] using h.skp, h.wb, h.ms, by simpa [Spec.step, upd, hne] using h.idle⟩
    | trav r' l b =>
      simp only [Op.req] at hne
      have hne' : ¬ r' = r := fun h2 => hne h2.symm
      refine ⟨by simpa using h.scope, by cases b <;> simpa [Spec.step, upd, hne] using h.live, ?_,
        by simpa [upd, hne] using h.cnt, by simpa using h.skp, ?_, ?_, by simpa [upd, hne] using h.idle⟩
      · have := h.miss
        unfold Spec.sawMissing at this ⊢
        cases b <;> simp [Spec.step, List.any_append, this, hne']
      · intro l'
        rw [← h.wb l']
        cases b <;> simp [hne]
      · intro l'
        cases b
        · simp only [trav_ms, Bool.false_eq_true, if_false, List.mem_append, List.mem_singleton]
          rintro ⟨s, hs | heq⟩
          · exact h.ms l' ⟨s, hs⟩
          · simp at heq; exact absurd heq.2.1 hne
        · simpa using h.ms l'
    | finish r' =>
      simp only [Op.req] at hne
      have hne' : ¬ r' = r := fun h2 => hne h2.symm
      refine ⟨by simpa [Spec.step, Spec.endReq, upd, hne] using h.scope,
        by simpa [Spec.step, Spec.endReq, upd, hne] using h.live, ?_,
        by simpa [Spec.step, Spec.endReq, upd, hne] using h.cnt,
        by simpa [Spec.step, Spec.endReq, upd, hne] using h.skp, ?_, ?_,
        by simpa [Spec.step, Spec.endReq, upd, hne] using h.idle⟩
      · rw [← h.miss]
        simp only [Spec.step, Spec.endReq, Spec.sawMissing]
        rw [Bool.eq_iff_iff]
        simp only [List.any_eq_true, List.mem_filter]
        constructor
        · rintro ⟨e, ⟨he, _⟩, h2⟩; exact ⟨e, he, h2⟩
        · rintro ⟨e, he, h2⟩
          refine ⟨e, ⟨he, ?_⟩, h2⟩
          have : e.2.1 = r := by simpa using h2
          simp [this, hne]
      · intro l
        rw [← h.wb l]
        simp [Spec.step, Spec.endReq, hne]
      · intro l
        simp only [Spec.step, Spec.endReq, List.mem_filter]
        rintro ⟨s, hs, _⟩; exact h.ms l ⟨s, hs⟩
    | finishErr r' =>
      simp only [Op.req] at hne
      have hne' : ¬ r' = r := fun h2 => hne h2.symm
      refine ⟨by simpa [Spec.step, Spec.endReq, upd, hne] using h.scope,
        by simpa [Spec.step, Spec.endReq, upd, hne] using h.live, ?_,
        by simpa [Spec.step, Spec.endReq, upd, hne] using h.cnt,
        by simpa [Spec.step, Spec.endReq, upd, hne] using h.skp, ?_, ?_,
        by simpa [Spec.step, Spec.endReq, upd, hne] using h.idle⟩
      · rw [← h.miss]
        simp only [Spec.step, Spec.endReq, Spec.sawMissing]
        rw [Bool.eq_iff_iff]
        simp only [List.any_eq_true, List.mem_filter]
        constructor
        · rintro ⟨e, ⟨he, _⟩, h2⟩; exact ⟨e, he, h2⟩
        · rintro ⟨e, he, h2⟩
          refine ⟨e, ⟨he, ?_⟩, h2⟩
          have : e.2.1 = r := by simpa using h2
          simp [this, hne]
      · intro l
        rw [← h.wb l]
        simp [Spec.step, Spec.endReq, hne]
      · intro l
        simp only [Spec.step, Spec.endReq, List.mem_filter]
        rintro ⟨s, hs, _⟩; exact h.ms l ⟨s, hs⟩
    | clear r' =>
      simp only [Op.req] at hne
      have hne' : ¬ r' = r := fun h2 => hne h2.symm
      refine ⟨by simpa [Spec.step, Spec.endReq, upd, hne] using h.scope,
        by simpa [Spec.step, Spec.endReq, upd, hne] using h.live, ?_,
        by simpa [Spec.step, Spec.endReq, upd, hne] using h.cnt,
        by simpa [Spec.step, Spec.endReq, upd, hne] using h.skp, ?_, ?_,
        by simpa [Spec.step, Spec.endReq, upd, hne] using h.idle⟩
      · rw [← h.miss]
        simp only [Spec.step, Spec.endReq, Spec.sawMissing]
        rw [Bool.eq_iff_iff]
        simp only [List.any_eq_true, List.mem_filter]
        constructor
        · rintro ⟨e, ⟨he, _⟩, h2⟩; exact ⟨e, he, h2⟩
        · rintro ⟨e, he, h2⟩
          refine ⟨e, ⟨he, ?_⟩, h2⟩
          have : e.2.1 = r := by simpa using h2
          simp [this, hne]
      · intro l
        rw [← h.wb l]
        simp [Spec.step, Spec.endReq, hne]
      · intro l
        simp only [Spec.step, Spec.endReq, List.mem_filter]
        rintro ⟨s, hs, _⟩; exact h.ms l ⟨s, hs⟩

theorem char_runFrom {σ : Spec} {r : Req} {acc : List Op} (h : Char σ r acc) (ops : List Op) :
    Char (σ.runFrom ops).1 r (ops.foldl (sinceStep r) acc) := by
  induction ops generalizing σ acc with
  | nil => exact h
  | cons o os ih => simp only [Spec.runFrom, List.foldl_cons]; exact ih (char_step h o)

/-- the specification state after `h`, read off the history -/
theorem char_specRun (h : List Op) (r : Req) : Char (specRun h) r (since r h) :=
  char_runFrom (char_init r) h

/-! ### persistence of a request's records while it has not ended -/

theorem persist_step (g : List Op) (o : Op) (r' : Req) (l : Link)
    (hl : l ∈ withBlock r' g) (hne : ¬ (o.req = r' ∧ o.isEnd = true)) :
    l ∈ withBlock r' (g ++ [o]) := by
  unfold withBlock at *
  rw [since_snoc]
  unfold sinceStep
  by_cases hr : o.req = r'
  · have hend : o.isEnd = false := by
      cases he : o.isEnd
      · rfl
      · exact absurd ⟨hr, he⟩ hne
    simp only [hr, if_true, hend, Bool.false_eq_true, if_false, List.flatMap_append, List.mem_append]
    exact Or.inl hl
  · simp only [hr, if_false]
    exact hl

theorem persist (g g' : List Op) (r' : Req) (l : Link)
    (hl : l ∈ withBlock r' g) (hne : ∀ o ∈ g', ¬ (o.req = r' ∧ o.isEnd = true)) :
    l ∈ withBlock r' (g ++ g') := by
  induction g' generalizing g with
  | nil => simpa using hl
  | cons o os ih =>
    have hsplit : g ++ o :: os = (g ++ [o]) ++ os := by simp
    rw [hsplit]
    have h1 := persist_step g o r' l hl (hne o List.mem_cons_self)
    exact ih (g ++ [o]) h1 (fun o' ho' => hne o' (List.mem_cons_of_mem _ ho'))

end GS.LinkTrack
