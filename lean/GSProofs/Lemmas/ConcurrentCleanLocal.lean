import GSProofs.Lemmas.ConcurrentCleanAlign
import GSProofs.C24
/-!
Property C20, completeness clause of `CleanAt` — the degenerate region in which the local store covers the
whole traversal (nothing is sent), and list facts used to glue the regions together.
-/
namespace GS.C20
open GS.Loader GS.Requestor GS.LinkTrack GS.Concurrent

/-- the local store covers the traversal: the request completes locally -/
theorem reqStart_local (st : List (Cid × Blk)) (lt : LT) (h : GS.C24.Covers st lt) :
    (reqStart {} st lt).1.phase = .finished ∧ (reqStart {} st lt).2 = localEvs lt 0 := by
  obtain ⟨_, _, h3, h4⟩ := GS.C24.silent st lt 0 [] h
  have he : exchange st lt 0 [] = ((request { L := { store := st } } lt 0).1, (request { L := { store := st } } lt 0).2 ++ []) := by
    unfold exchange
    simp [feed]
  rw [he] at h3 h4
  simp only [List.append_nil] at h4
  exact ⟨h3, h4⟩

theorem AL_start_local (st : List (Cid × Blk)) (rem : List Cid) (lts : List LT) (keys : List (Option Key)) (i : Nat)
    (lt : LT) (hl : lts[i]? = some lt) (hcov : GS.C24.Covers st lt) :
    AL TRec.empty i (Concurrent.step (initSys st rem lts keys) (.start i)) ∧
    EVM i (Concurrent.step (initSys st rem lts keys) (.start i)) := by
  have hev0 : (initSys st rem lts keys).evs.getD i [] = [] := by
    simp [initSys, List.getD_eq_getElem?_getD, List.getElem?_map, hl]
  have hreq : (initSys st rem lts keys).reqs[i]? = some {} := by
    simp only [initSys, List.getElem?_map, hl, Option.map_some]
  have hlt : (initSys st rem lts keys).lts[i]? = some lt := hl
  have hown : (initSys st rem lts keys).own = [] := rfl
  have hstore : (initSys st rem lts keys).store = st := rfl
  generalize initSys st rem lts keys = B at hreq hlt hown hstore hev0
  simp only [Concurrent.step, hreq, hlt]
  have hph : (({} : Requestor.State).phase != Phase.idle) = false := rfl
  rw [if_neg (by rw [hph]; simp)]
  rw [storeOf_shared B i hown, hstore]
  obtain ⟨hP1, hP2⟩ := reqStart_local st lt hcov
  generalize reqStart {} st lt = rq at hP1 hP2
  obtain ⟨r', ev⟩ := rq
  simp only at hP1 hP2 ⊢
  subst hP2
  rw [putStore_shared B i _ hown]
  have hov : ∀ (x : List Requestor.State), x = setAt B.reqs i r' → ∀ r, x[i]? = some r → r.phase ≠ .running := by
    intro x hx r hr
    subst hx
    simp only [setAt] at hr
    rcases set_get _ _ _ _ _ hr with ⟨_, rfl⟩ | ⟨hne, _⟩
    · rw [hP1]; intro h; cases h
    · exact absurd rfl hne
  have hevm : ∀ c p, (c, p) ∈ missingOf ((setAt B.evs i (B.evs.getD i [] ++ localEvs lt 0)).getD i []) → False := by
    intro c p hm
    simp only [setAt] at hm
    rcases mem_missing_set _ _ _ _ hm with hm | hm
    · rw [hev0] at hm; simp [missingOf] at hm
    · rw [missingOf_localEvs] at hm; cases hm
  split
  · exact ⟨.over (hov _ rfl), fun c p hm => (hevm c p hm).elim⟩
  · exact ⟨.over (hov _ rfl), fun c p hm => (hevm c p hm).elim⟩

theorem mem_dropWhile_append {α : Type} (f : α → Bool) : ∀ (A B : List α) (y : α),
    y ∈ A.dropWhile f → y ∈ (A ++ B).dropWhile f
  | [], _, _, h => by cases h
  | a :: A, B, y, h => by
    by_cases hfa : f a = true
    · simp only [List.cons_append, List.dropWhile_cons, hfa, if_true] at h ⊢
      exact mem_dropWhile_append f A B y h
    · simp only [List.cons_append, List.dropWhile_cons, hfa] at h ⊢
      rcases List.mem_cons.mp h with rfl | h
      · exact List.mem_cons_self
      · exact List.mem_cons_of_mem _ (List.mem_append_left _ h)

/-- a prefix of a depth-first path order is a depth-first path order -/
theorem PathsDFS.prefix : ∀ (A B : List Path), PathsDFS (A ++ B) → PathsDFS A
  | [], _, _ => trivial
  | p :: A, B, h => by
    have h' : PathsDFS (p :: (A ++ B)) := h
    obtain ⟨h1, h2, h3⟩ := h'
    exact ⟨fun y hy => h1 y (List.mem_append_left _ hy),
      fun x hx y hy => h2 x hx y (mem_dropWhile_append _ A B y hy), PathsDFS.prefix A B h3⟩

end GS.C20
