import GS.Model.TaskQueue
import GS.Driver.Proto
/-!
line-protocol driver for the go-peertaskqueue model (component `ptq`).

ops:  `cfg <cap> <ignoreFreezing 0|1>` | `push <peer> <topic> <prio> <work>` (uid = number of push ops
      so far) | `pop <targetMinWork>` | `done <peer> <k>` (k-th task popped so far, modulo) |
      `remove <peer> <topic>` | `thaw` | `topics <peer>`
out:  one line per op, always ending in ` st=<peers>/<active>/<pending>` (PeerTaskQueue.Stats);
      ` !heap` is appended if the simulated container/heap top is not comparator-minimal.
-/
namespace GS.Driver.Ptq
open GS.Proto GS.TQ

structure D where
  q : PTQ := {}
  nextUid : Nat := 0
  popped : List Task := []     -- every task handed out by pop, in order

def suffix (q : PTQ) : String :=
  let st := stats q
  s!" st={st.peers}/{st.active}/{st.pending}" ++ (if heapOk q then "" else " !heap")

def showTask (t : Task) : String := s!"{t.uid}:{t.topic}:{t.prio}:{t.work}"

def stepLine (d : D) (t : Toks) : D × String :=
  match t with
  | ["cfg", c, ig] =>
    match c.toNat?, ig.toNat? with
    | some c, some ig => let q : PTQ := { cap := c, ignoreFreeze := ig != 0 }; ({ q := q }, "ok" ++ suffix q)
    | _, _ => (d, "bad-op")
  | ["push", p, tp, pr, w] =>
    match p.toNat?, tp.toNat?, pr.toInt?, w.toNat? with
    | some p, some tp, some pr, some w =>
      let q := push d.q p { uid := d.nextUid, topic := tp, prio := pr, work := w }
      ({ d with q := q, nextUid := d.nextUid + 1 }, "ok" ++ suffix q)
    | _, _, _, _ => (d, "bad-op")
  | ["pop", n] =>
    match n.toNat? with
    | some n =>
      let (q, r) := pop d.q n
      let ps := match r.peer with | some p => toString p | none => "-"
      let pw := match r.peer with | some _ => toString r.pendingWork | none => "-1"
      ({ d with q := q, popped := d.popped ++ r.tasks },
       s!"pop p={ps} t={joinWith ";" (r.tasks.map showTask)} pw={pw}" ++ suffix q)
    | none => (d, "bad-op")
  | ["done", p, k] =>
    match p.toNat?, k.toNat? with
    | some p, some k =>
      match d.popped[k % (max d.popped.length 1)]? with
      | some task => let q := done d.q p task.uid; ({ d with q := q }, "ok" ++ suffix q)
      | none => (d, "ok" ++ suffix d.q)
    | _, _ => (d, "bad-op")
  | ["remove", p, tp] =>
    match p.toNat?, tp.toNat? with
    | some p, some tp => let q := remove d.q p tp; ({ d with q := q }, "ok" ++ suffix q)
    | _, _ => (d, "bad-op")
  | ["thaw"] => let q := thaw d.q; ({ d with q := q }, "ok" ++ suffix q)
  | ["topics", p] =>
    match p.toNat? with
    | some p =>
      match findT d.q.peers p with
      | some tr =>
        (d, s!"topics pend={natList (sortNat (tr.pending.map (·.topic)))} act={natList (sortNat ((tr.active.map (·.topic)).eraseDups))}" ++ suffix d.q)
      | none => (d, "topics nil" ++ suffix d.q)
    | none => (d, "bad-op")
  | _ => (d, "bad-op")

def handler (ops : List Toks) : List String :=
  let (_, outs) := ops.foldl (fun (acc : D × List String) t =>
    let (d', o) := stepLine acc.1 t
    (d', o :: acc.2)) ({}, [])
  outs.reverse

end GS.Driver.Ptq

def main : IO Unit := GS.Proto.runModel GS.Driver.Ptq.handler
