/-
Helper lemmas for C08: go-ipld-prime's walk (GS.Sel.walk) of a "selector of selectors"
`recursive (fields fs) (fields fs) none` over the encoding `enc s` of a selector specification.
-/
import GS.Model.Selector
namespace GS.Sel

/-! ### Res -/

@[simp] theorem Res.seq_empty_left (r : Res) : Res.seq .empty r = r := by
  cases r; simp [Res.seq, Res.empty]

@[simp] theorem Res.seq_empty_right (r : Res) : Res.seq r .empty = r := by
  cases r with
  | mk m a => cases a <;> simp [Res.seq, Res.empty]

theorem Res.seq_ok (a b : List Node) (x : Bool) : Res.seq ⟨a, false⟩ ⟨b, x⟩ = ⟨a ++ b, x⟩ := by
  simp [Res.seq]

/-- interests that all miss but (at most) one -/
theorem seqAll_single (k0 : String) (g : String → Res) :
    ∀ ks : List String, keysNodup ks = true →
      Res.seqAll (ks.map fun k => if k0 = k then g k else Res.empty)
        = if k0 ∈ ks then g k0 else Res.empty
  | [], _ => by simp [Res.seqAll]
  | k :: ks, h => by
    simp only [keysNodup, Bool.and_eq_true, Bool.not_eq_true'] at h
    have ih := seqAll_single k0 g ks h.2
    have hnot : k ∉ ks := by
      have := h.1; simpa using this
    simp only [List.map_cons, Res.seqAll, ih]
    by_cases hk : k0 = k
    · subst hk
      simp [hnot]
    · simp [hk]

theorem lookupSel_none_of_not_mem (k : String) :
    ∀ fs : List (String × RSel), k ∉ fs.map (·.1) → lookupSel k fs = none
  | [], _ => rfl
  | (k', v) :: rest, h => by
    simp only [List.map_cons, List.mem_cons, not_or] at h
    have hne : k' ≠ k := fun e => h.1 e.symm
    simp [lookupSel, hne, lookupSel_none_of_not_mem k rest h.2]

theorem mem_of_lookupSel_some (k : String) (v : RSel) :
    ∀ fs : List (String × RSel), lookupSel k fs = some v → k ∈ fs.map (·.1)
  | [], h => by simp [lookupSel] at h
  | (k', v') :: rest, h => by
    by_cases e : k' = k
    · subst e; simp
    · simp only [lookupSel, e, if_false] at h
      simp only [List.map_cons, List.mem_cons]
      exact Or.inr (mem_of_lookupSel_some k v rest h)

/-! ### exploring `ExploreRecursive{seq = F, current = cur, limit = none}` -/

theorem explore_rec_fields (F : RSel) (cfs : List (String × RSel)) (p : String) :
    explore (.recursive F (.fields cfs) .none) p =
      match lookupSel p cfs with
      | none => none
      | some nxt =>
        if !hasEdge nxt then some (.recursive F nxt .none)
        else (replaceEdge (some F) nxt).map fun c => .recursive F c .none := by
  simp only [explore, RSel.isEdge]
  cases lookupSel p cfs <;> simp

/-- below `ExploreAll(edge)` every child restarts the sequence -/
theorem explore_rec_all_edge (F : RSel) (p : String) :
    explore (.recursive F (.all .edge) .none) p = some (.recursive F F .none) := by
  simp [explore, RSel.isEdge, hasEdge, replaceEdge]

/-- the validator-shaped selector: recursion without limit over a fields clause -/
def Vof (fs : List (String × RSel)) : RSel := .recursive (.fields fs) (.fields fs) .none

theorem explore_V (fs : List (String × RSel)) (p : String) :
    explore (Vof fs) p =
      match lookupSel p fs with
      | none => none
      | some nxt =>
        if !hasEdge nxt then some (.recursive (.fields fs) nxt .none)
        else (replaceEdge (some (.fields fs)) nxt).map fun c => .recursive (.fields fs) c .none :=
  explore_rec_fields _ _ _

/-- walking a single-entry map (every clause of a selector spec is one) with `Vof fs` -/
theorem walk_V_single (fs : List (String × RSel)) (hnd : keysNodup (fs.map (·.1)) = true)
    (k0 : String) (body : Node) :
    walk (Vof fs) (.map [(k0, body)]) = childStep (Vof fs) k0 body (fun s' => walk s' body) := by
  have hl : ∀ k, walkLookup (Vof fs) k [(k0, body)]
      = if k0 = k then childStep (Vof fs) k body (fun s' => walk s' body) else Res.empty := by
    intro k; simp [walkLookup]
  have hv : visit (Vof fs) (.map [(k0, body)]) = Res.empty := by simp [visit, Vof, isMatch]
  have hi : interests (Vof fs) = some (fs.map (·.1)) := by simp [Vof, interests]
  rw [walk, hv, hi]
  simp only [Res.seq_empty_left, hl]
  rw [seqAll_single k0 (fun k => childStep (Vof fs) k body (fun s' => walk s' body)) _ hnd]
  by_cases hm : k0 ∈ fs.map (·.1)
  · simp [hm]
  · have : explore (Vof fs) k0 = none := by
      rw [explore_V, lookupSel_none_of_not_mem k0 fs hm]
    simp [hm, childStep, this]

theorem walkLookup_eq (s : RSel) (k : String) :
    ∀ kvs : List (String × Node), walkLookup s k kvs =
      match lookupNode k kvs with
      | none => Res.empty
      | some v => childStep s k v (fun s' => walk s' v)
  | [] => by simp [walkLookup, lookupNode]
  | (k', v) :: rest => by
    by_cases e : k' = k
    · simp [walkLookup, lookupNode, e]
    · simp [walkLookup, lookupNode, e, walkLookup_eq s k rest]

theorem enc_isLink : ∀ s : Sel, (enc s).isLink = false
  | .matcher none => rfl
  | .matcher (some (_, _)) => rfl
  | .all _ => rfl
  | .fields _ => rfl
  | .index _ _ => rfl
  | .range _ _ _ => rfl
  | .recursive _ _ none => rfl
  | .recursive _ _ (some _) => rfl
  | .edge => rfl
  | .union _ => rfl
  | .interpretAs _ _ => rfl

theorem encLimit_isLink (l : Limit) : (encLimit l).isLink = false := by cases l <;> rfl

/-- the body of a clause whose only nested selector sits under ">" (all / index / range /
    interpret-as): the walk continues with the restarted sequence on that nested selector -/
theorem walk_next_clause (F : RSel) (kvs : List (String × Node)) (v : Node)
    (hv : lookupNode ">" kvs = some v) (hl : v.isLink = false) :
    walk (.recursive F (.fields [(">", .edge)]) .none) (.map kvs) = walk (.recursive F F .none) v := by
  have he : explore (.recursive F (.fields [(">", .edge)]) .none) ">" = some (.recursive F F .none) := by
    simp [explore_rec_fields, lookupSel, hasEdge, replaceEdge]
  rw [walk]
  simp [visit, isMatch, interests, Res.seqAll, walkLookup_eq, hv, childStep, he, hl]

/-- the limit node of an ExploreRecursive clause is matched (and nothing below it is explored) -/
theorem walk_limit (F : RSel) (l : Limit) :
    walk (.recursive F .matcher .none) (encLimit l) = ⟨[encLimit l], false⟩ := by
  cases l <;> simp [encLimit, walk, visit, isMatch, interests, Res.seqAll, Res.seq, Res.empty]

/-- the body of an ExploreRecursive clause: first the limit, then the sequence -/
theorem walk_rec_clause (F : RSel) (kvs : List (String × Node)) (l : Limit) (v : Node)
    (h1 : lookupNode "l" kvs = some (encLimit l)) (h2 : lookupNode ":>" kvs = some v)
    (hl : v.isLink = false) :
    walk (.recursive F (.fields [("l", .matcher), (":>", .edge)]) .none) (.map kvs)
      = Res.seq ⟨[encLimit l], false⟩ (walk (.recursive F F .none) v) := by
  have he1 : explore (.recursive F (.fields [("l", .matcher), (":>", .edge)]) .none) "l"
      = some (.recursive F .matcher .none) := by
    simp [explore_rec_fields, lookupSel, hasEdge]
  have he2 : explore (.recursive F (.fields [("l", .matcher), (":>", .edge)]) .none) ":>"
      = some (.recursive F F .none) := by
    simp [explore_rec_fields, lookupSel, hasEdge, replaceEdge]
  rw [walk]
  simp [visit, isMatch, interests, Res.seqAll, walkLookup_eq, h1, h2, childStep, he1, he2, hl,
    encLimit_isLink, walk_limit]

/-- the selector specification of the validator covers every clause kind of go-ipld-prime's
    selector language that can hold a nested selector (and treats matcher / edge as leaves) -/
structure Covers (fs : List (String × RSel)) : Prop where
  nodup : keysNodup (fs.map (·.1)) = true
  recursive_ : lookupSel "R" fs = some (.fields [("l", .matcher), (":>", .edge)])
  fields_ : lookupSel "f" fs = some (.fields [("f>", .all .edge)])
  union_ : lookupSel "|" fs = some (.all .edge)
  all_ : lookupSel "a" fs = some (.fields [(">", .edge)])
  index_ : lookupSel "i" fs = some (.fields [(">", .edge)])
  range_ : lookupSel "r" fs = some (.fields [(">", .edge)])
  interpretAs_ : lookupSel "~" fs = some (.fields [(">", .edge)])
  matcher_ : lookupSel "." fs = none
  edge_ : lookupSel "@" fs = none

section main
variable (fs : List (String × RSel)) (c : Covers fs)
include c
set_option linter.unusedSectionVars false

theorem step_next (k : String) (h : lookupSel k fs = some (.fields [(">", .edge)]))
    (kvs : List (String × Node)) (v : Node) (hv : lookupNode ">" kvs = some v) (hl : v.isLink = false) :
    walk (Vof fs) (.map [(k, .map kvs)]) = walk (Vof fs) v := by
  rw [walk_V_single fs c.nodup]
  have : explore (Vof fs) k = some (.recursive (.fields fs) (.fields [(">", .edge)]) .none) := by
    simp [explore_V, h, hasEdge]
  simp only [childStep, this, Node.isLink]
  exact walk_next_clause _ kvs v hv hl

mutual
/-- go-ipld-prime's walk of the validator-shaped selector over an encoded selector specification
    matches exactly the limit nodes of all its ExploreRecursive clauses, in order, and never aborts -/
theorem walk_enc : ∀ s : Sel, walk (Vof fs) (enc s) = ⟨(limits s).map encLimit, false⟩
  | .matcher none => by
    rw [enc, walk_V_single fs c.nodup]; simp [childStep, explore_V, c.matcher_, limits, Res.empty]
  | .matcher (some (a, b)) => by
    rw [enc, walk_V_single fs c.nodup]; simp [childStep, explore_V, c.matcher_, limits, Res.empty]
  | .edge => by
    rw [enc, walk_V_single fs c.nodup]; simp [childStep, explore_V, c.edge_, limits, Res.empty]
  | .all n => by
    rw [enc, step_next fs c "a" c.all_ _ (enc n) (by simp [lookupNode]) (enc_isLink n), limits]
    exact walk_enc n
  | .index i n => by
    rw [enc, step_next fs c "i" c.index_ _ (enc n) (by simp [lookupNode]) (enc_isLink n), limits]
    exact walk_enc n
  | .range a b n => by
    rw [enc, step_next fs c "r" c.range_ _ (enc n) (by simp [lookupNode]) (enc_isLink n), limits]
    exact walk_enc n
  | .interpretAs adl n => by
    rw [enc, step_next fs c "~" c.interpretAs_ _ (enc n) (by simp [lookupNode]) (enc_isLink n), limits]
    exact walk_enc n
  | .recursive l seq none => by
    rw [enc, walk_V_single fs c.nodup]
    have : explore (Vof fs) "R" = some (.recursive (.fields fs) (.fields [("l", .matcher), (":>", .edge)]) .none) := by
      simp [explore_V, c.recursive_, hasEdge]
    simp only [childStep, this, Node.isLink]
    rw [walk_rec_clause _ _ l (enc seq) (by simp [lookupNode]) (by simp [lookupNode]) (enc_isLink seq)]
    have ih := walk_enc seq
    unfold Vof at ih
    rw [ih]; simp [Res.seq, limits]
  | .recursive l seq (some st) => by
    rw [enc, walk_V_single fs c.nodup]
    have : explore (Vof fs) "R" = some (.recursive (.fields fs) (.fields [("l", .matcher), (":>", .edge)]) .none) := by
      simp [explore_V, c.recursive_, hasEdge]
    simp only [childStep, this, Node.isLink]
    rw [walk_rec_clause _ _ l (enc seq) (by simp [lookupNode]) (by simp [lookupNode]) (enc_isLink seq)]
    have ih := walk_enc seq
    unfold Vof at ih
    rw [ih]; simp [Res.seq, limits]
  | .fields fs' => by
    rw [enc, walk_V_single fs c.nodup]
    have h1 : explore (Vof fs) "f" = some (.recursive (.fields fs) (.fields [("f>", .all .edge)]) .none) := by
      simp [explore_V, c.fields_, hasEdge]
    have h2 : explore (.recursive (.fields fs) (.fields [("f>", .all .edge)]) .none) "f>"
        = some (.recursive (.fields fs) (.all .edge) .none) := by
      simp [explore_rec_fields, lookupSel, hasEdge]
    simp only [childStep, h1, Node.isLink]
    rw [walk]
    simp only [visit, isMatch, interests, List.map, Res.seqAll, walkLookup_eq, lookupNode, if_true,
      childStep, h2, Node.isLink, Res.seq_empty_left, Res.seq_empty_right, Bool.false_eq_true, if_false]
    rw [walk]
    simp only [visit, isMatch, interests, Bool.false_eq_true, if_false, Res.seq_empty_left, limits]
    exact walk_encFields fs'
  | .union ms => by
    rw [enc, walk_V_single fs c.nodup]
    have h1 : explore (Vof fs) "|" = some (.recursive (.fields fs) (.all .edge) .none) := by
      simp [explore_V, c.union_, hasEdge]
    simp only [childStep, h1, Node.isLink]
    rw [walk]
    simp only [visit, isMatch, interests, Bool.false_eq_true, if_false, Res.seq_empty_left, limits]
    exact walk_encList ms 0
theorem walk_encFields : ∀ fs' : List (String × Sel),
    walkEntries (.recursive (.fields fs) (.all .edge) .none) (encFields fs')
      = ⟨(limitsFields fs').map encLimit, false⟩
  | [] => by simp [encFields, walkEntries, limitsFields, Res.empty]
  | (k, s) :: rest => by
    have ih1 := walk_enc s
    have ih2 := walk_encFields rest
    unfold Vof at ih1
    simp [encFields, walkEntries, childStep, explore_rec_all_edge, enc_isLink, ih1, ih2, Res.seq,
      limitsFields]
theorem walk_encList : ∀ (ms : List Sel) (i : Nat),
    walkElems (.recursive (.fields fs) (.all .edge) .none) i (encList ms)
      = ⟨(limitsList ms).map encLimit, false⟩
  | [], _ => by simp [encList, walkElems, limitsList, Res.empty]
  | s :: rest, i => by
    have ih1 := walk_enc s
    have ih2 := walk_encList rest (i + 1)
    unfold Vof at ih1
    simp [encList, walkElems, childStep, explore_rec_all_edge, enc_isLink, ih1, ih2, Res.seq,
      limitsList]
end

end main

/-! ### every node ParseSelector reads as `s` is validated like `enc s` -/

theorem clause_eq {n : Node} {k : String} {v : Node} (h : clause n = some (k, v)) : n = .map [(k, v)] := by
  unfold clause at h
  split at h
  · simp only [Option.some.injEq, Prod.mk.injEq] at h; rw [h.1, h.2]
  · simp at h

theorem bodyOf_eq {key : String} {n : Node} {kvs : List (String × Node)} (h : bodyOf key n = some kvs) :
    n = .map [(key, .map kvs)] := by
  unfold bodyOf at h
  split at h
  · rename_i k kvs' hc
    split at h
    · rename_i hk
      simp only [Option.some.injEq] at h
      rw [clause_eq hc, hk, h]
    · simp at h
  · simp at h

/-- a node that parses as a selector is a map, not a link -/
theorem parsesB_isLink : ∀ (s : Sel) (n : Node), parsesB s n = true → n.isLink = false := by
  intro s n h
  have key : ∀ (k : String) (kvs : List (String × Node)), bodyOf k n = some kvs → n.isLink = false := by
    intro k kvs hb; rw [bodyOf_eq hb]; rfl
  cases s with
  | matcher sub =>
    unfold parsesB at h
    cases hb : bodyOf "." n with
    | none => simp [hb] at h
    | some kvs => exact key _ _ hb
  | all s' =>
    unfold parsesB at h
    cases hb : bodyOf "a" n with
    | none => simp [hb] at h
    | some kvs => exact key _ _ hb
  | fields fs =>
    unfold parsesB at h
    cases hb : bodyOf "f" n with
    | none => simp [hb] at h
    | some kvs => exact key _ _ hb
  | index i s' =>
    unfold parsesB at h
    cases hb : bodyOf "i" n with
    | none => simp [hb] at h
    | some kvs => exact key _ _ hb
  | range a b s' =>
    unfold parsesB at h
    cases hb : bodyOf "r" n with
    | none => simp [hb] at h
    | some kvs => exact key _ _ hb
  | recursive l seq st =>
    unfold parsesB at h
    cases hb : bodyOf "R" n with
    | none => simp [hb] at h
    | some kvs => exact key _ _ hb
  | edge =>
    unfold parsesB at h
    cases hb : bodyOf "@" n with
    | none => simp [hb] at h
    | some kvs => exact key _ _ hb
  | union ms =>
    unfold parsesB at h
    cases hc : clause n with
    | none => simp [hc] at h
    | some kv => obtain ⟨k, v⟩ := kv; rw [clause_eq hc]; rfl
  | interpretAs adl s' =>
    unfold parsesB at h
    cases hb : bodyOf "~" n with
    | none => simp [hb] at h
    | some kvs => exact key _ _ hb

/-- the limit node of a parsed ExploreRecursive clause is matched, whatever it looks like -/
theorem walk_limit_any (F : RSel) (ln : Node) :
    walk (.recursive F .matcher .none) ln = ⟨[ln], false⟩ := by
  cases ln <;> simp [walk, visit, isMatch, interests, Res.seqAll, Res.seq, Res.empty]

theorem walk_rec_clause_any (F : RSel) (kvs : List (String × Node)) (ln v : Node)
    (h1 : lookupNode "l" kvs = some ln) (hl1 : ln.isLink = false)
    (h2 : lookupNode ":>" kvs = some v) (hl : v.isLink = false) :
    walk (.recursive F (.fields [("l", .matcher), (":>", .edge)]) .none) (.map kvs)
      = Res.seq ⟨[ln], false⟩ (walk (.recursive F F .none) v) := by
  have he1 : explore (.recursive F (.fields [("l", .matcher), (":>", .edge)]) .none) "l"
      = some (.recursive F .matcher .none) := by
    simp [explore_rec_fields, lookupSel, hasEdge]
  have he2 : explore (.recursive F (.fields [("l", .matcher), (":>", .edge)]) .none) ":>"
      = some (.recursive F F .none) := by
    simp [explore_rec_fields, lookupSel, hasEdge, replaceEdge]
  rw [walk]
  simp [visit, isMatch, interests, Res.seqAll, walkLookup_eq, h1, h2, childStep, he1, he2, hl, hl1,
    walk_limit_any]

theorem parsesLimitB_isLink {l : Limit} {ln : Node} (h : parsesLimitB l ln = true) : ln.isLink = false := by
  cases hc : clause ln with
  | none => cases l <;> simp [parsesLimitB, hc] at h
  | some kv => obtain ⟨k, v⟩ := kv; rw [clause_eq hc]; rfl

section parses
variable (fs : List (String × RSel)) (c : Covers fs)
variable {β : Type} (cb : Node → β)
variable (hcb : ∀ (l : Limit) (ln : Node), parsesLimitB l ln = true → cb ln = cb (encLimit l))
include c hcb
set_option linter.unusedSectionVars false

/-- the walk did not abort and handed the visit callback nodes it treats like the canonical
    limit nodes of `s` -/
def Good (r : Res) (ls : List Limit) : Prop :=
  r.aborted = false ∧ r.matched.map cb = ls.map fun l => cb (encLimit l)

omit c hcb in
theorem Good.seq {r1 r2 : Res} {l1 l2 : List Limit} (h1 : Good cb r1 l1) (h2 : Good cb r2 l2) :
    Good cb (Res.seq r1 r2) (l1 ++ l2) := by
  unfold Good at *
  simp [Res.seq, h1.1, h2.1, h1.2, h2.2]

omit c hcb in
theorem Good.empty : Good cb Res.empty [] := by simp [Good, Res.empty]

mutual
theorem walk_parses : ∀ (s : Sel) (n : Node), parsesB s n = true → Good cb (walk (Vof fs) n) (limits s)
  | .matcher sub, n, h => by
    unfold parsesB at h
    cases hb : bodyOf "." n with
    | none => simp [hb] at h
    | some kvs =>
      rw [bodyOf_eq hb, walk_V_single fs c.nodup]
      simp [childStep, explore_V, c.matcher_, limits, Good, Res.empty]
  | .edge, n, h => by
    unfold parsesB at h
    cases hb : bodyOf "@" n with
    | none => simp [hb] at h
    | some kvs =>
      rw [bodyOf_eq hb, walk_V_single fs c.nodup]
      simp [childStep, explore_V, c.edge_, limits, Good, Res.empty]
  | .all s', n, h => by
    unfold parsesB at h
    cases hb : bodyOf "a" n with
    | none => simp [hb] at h
    | some kvs =>
      simp only [hb] at h
      cases hl : lookupNode ">" kvs with
      | none => simp [hl] at h
      | some n' =>
        simp only [hl] at h
        rw [bodyOf_eq hb, step_next fs c "a" c.all_ kvs n' hl (parsesB_isLink s' n' h), limits]
        exact walk_parses s' n' h
  | .index i s', n, h => by
    unfold parsesB at h
    cases hb : bodyOf "i" n with
    | none => simp [hb] at h
    | some kvs =>
      simp only [hb] at h
      cases hl : lookupNode ">" kvs with
      | none => cases hi : lookupNode "i" kvs <;> simp [hl, hi] at h
      | some n' =>
        have h' : parsesB s' n' = true := by
          cases hi : lookupNode "i" kvs with
          | none => simp [hl, hi] at h
          | some iv => cases iv <;> simp [hl, hi] at h <;> exact h.2
        rw [bodyOf_eq hb, step_next fs c "i" c.index_ kvs n' hl (parsesB_isLink s' n' h'), limits]
        exact walk_parses s' n' h'
  | .range a b s', n, h => by
    unfold parsesB at h
    cases hb : bodyOf "r" n with
    | none => simp [hb] at h
    | some kvs =>
      simp only [hb] at h
      cases hl : lookupNode ">" kvs with
      | none => cases h1 : lookupNode "^" kvs <;> cases h2 : lookupNode "$" kvs <;> simp [hl, h1, h2] at h
      | some n' =>
        have h' : parsesB s' n' = true := by
          cases h1 : lookupNode "^" kvs with
          | none => simp [hl, h1] at h
          | some v1 =>
            cases h2 : lookupNode "$" kvs with
            | none => cases v1 <;> simp [hl, h1, h2] at h
            | some v2 => cases v1 <;> cases v2 <;> simp [hl, h1, h2] at h <;> exact h.2
        rw [bodyOf_eq hb, step_next fs c "r" c.range_ kvs n' hl (parsesB_isLink s' n' h'), limits]
        exact walk_parses s' n' h'
  | .interpretAs adl s', n, h => by
    unfold parsesB at h
    cases hb : bodyOf "~" n with
    | none => simp [hb] at h
    | some kvs =>
      simp only [hb] at h
      cases hl : lookupNode ">" kvs with
      | none => cases h1 : lookupNode "as" kvs <;> simp [hl, h1] at h
      | some n' =>
        have h' : parsesB s' n' = true := by
          cases h1 : lookupNode "as" kvs with
          | none => simp [hl, h1] at h
          | some v1 => cases v1 <;> simp [hl, h1] at h <;> exact h.2
        rw [bodyOf_eq hb, step_next fs c "~" c.interpretAs_ kvs n' hl (parsesB_isLink s' n' h'), limits]
        exact walk_parses s' n' h'
  | .recursive l seq st, n, h => by
    unfold parsesB at h
    cases hb : bodyOf "R" n with
    | none => simp [hb] at h
    | some kvs =>
      simp only [hb] at h
      cases h1 : lookupNode "l" kvs with
      | none => simp [h1] at h
      | some ln =>
        cases h2 : lookupNode ":>" kvs with
        | none => simp [h1, h2] at h
        | some sn =>
          simp only [h1, h2, Bool.and_eq_true] at h
          have hlim := h.1.1
          have hseq := h.2
          rw [bodyOf_eq hb, walk_V_single fs c.nodup]
          have : explore (Vof fs) "R" = some (.recursive (.fields fs) (.fields [("l", .matcher), (":>", .edge)]) .none) := by
            simp [explore_V, c.recursive_, hasEdge]
          simp only [childStep, this, Node.isLink]
          rw [walk_rec_clause_any _ kvs ln sn h1 (parsesLimitB_isLink hlim) h2 (parsesB_isLink seq sn hseq)]
          have ih := walk_parses seq sn hseq
          unfold Vof at ih
          have hone : Good cb ⟨[ln], false⟩ [l] := by simp [Good, hcb l ln hlim]
          have := Good.seq cb hone ih
          simpa [limits] using this
  | .fields fs', n, h => by
    unfold parsesB at h
    cases hb : bodyOf "f" n with
    | none => simp [hb] at h
    | some kvs =>
      simp only [hb] at h
      cases hf : lookupNode "f>" kvs with
      | none => simp [hf] at h
      | some fn =>
        cases fn with
        | map fkvs =>
          simp only [hf] at h
          rw [bodyOf_eq hb, walk_V_single fs c.nodup]
          have h1 : explore (Vof fs) "f" = some (.recursive (.fields fs) (.fields [("f>", .all .edge)]) .none) := by
            simp [explore_V, c.fields_, hasEdge]
          have h2 : explore (.recursive (.fields fs) (.fields [("f>", .all .edge)]) .none) "f>"
              = some (.recursive (.fields fs) (.all .edge) .none) := by
            simp [explore_rec_fields, lookupSel, hasEdge]
          simp only [childStep, h1, Node.isLink]
          rw [walk]
          simp only [visit, isMatch, interests, List.map, Res.seqAll, walkLookup_eq, hf,
            childStep, h2, Node.isLink, Res.seq_empty_left, Res.seq_empty_right, Bool.false_eq_true, if_false]
          rw [walk]
          simp only [visit, isMatch, interests, Bool.false_eq_true, if_false, Res.seq_empty_left, limits]
          exact walk_parsesFields fs' fkvs h
        | _ => simp [hf] at h
  | .union ms, n, h => by
    unfold parsesB at h
    cases hc : clause n with
    | none => simp [hc] at h
    | some kv =>
      obtain ⟨k, v⟩ := kv
      cases v with
      | list xs =>
        simp only [hc, Bool.and_eq_true, beq_iff_eq] at h
        rw [clause_eq hc, h.1, walk_V_single fs c.nodup]
        have h1 : explore (Vof fs) "|" = some (.recursive (.fields fs) (.all .edge) .none) := by
          simp [explore_V, c.union_, hasEdge]
        simp only [childStep, h1, Node.isLink]
        rw [walk]
        simp only [visit, isMatch, interests, Bool.false_eq_true, if_false, Res.seq_empty_left, limits]
        exact walk_parsesList ms xs 0 h.2
      | _ => simp [hc] at h
theorem walk_parsesFields : ∀ (fs' : List (String × Sel)) (kvs : List (String × Node)),
    parsesFieldsB fs' kvs = true →
    Good cb (walkEntries (.recursive (.fields fs) (.all .edge) .none) kvs) (limitsFields fs')
  | [], [], _ => by simp [walkEntries, limitsFields, Good, Res.empty]
  | [], _ :: _, h => by simp [parsesFieldsB] at h
  | _ :: _, [], h => by simp [parsesFieldsB] at h
  | (k, s) :: rest, (k', n) :: ns, h => by
    simp only [parsesFieldsB, Bool.and_eq_true] at h
    have ih1 := walk_parses s n h.1.2
    have ih2 := walk_parsesFields rest ns h.2
    unfold Vof at ih1
    have := Good.seq cb ih1 ih2
    simpa [walkEntries, childStep, explore_rec_all_edge, parsesB_isLink s n h.1.2, limitsFields] using this
theorem walk_parsesList : ∀ (ms : List Sel) (xs : List Node) (i : Nat),
    parsesListB ms xs = true →
    Good cb (walkElems (.recursive (.fields fs) (.all .edge) .none) i xs) (limitsList ms)
  | [], [], _, _ => by simp [walkElems, limitsList, Good, Res.empty]
  | [], _ :: _, _, h => by simp [parsesListB] at h
  | _ :: _, [], _, h => by simp [parsesListB] at h
  | s :: rest, n :: ns, i, h => by
    simp only [parsesListB, Bool.and_eq_true] at h
    have ih1 := walk_parses s n h.1
    have ih2 := walk_parsesList rest ns (i + 1) h.2
    unfold Vof at ih1
    have := Good.seq cb ih1 ih2
    simpa [walkElems, childStep, explore_rec_all_edge, parsesB_isLink s n h.1, limitsList] using this
end

end parses

/-- the canonical encoding is one of the nodes ParseSelector reads as `s` -/
theorem parsesLimitB_enc (l : Limit) : parsesLimitB l (encLimit l) = true := by
  cases l <;> simp [parsesLimitB, encLimit, clause]

mutual
theorem parsesB_enc : ∀ s : Sel, parsesB s (enc s) = true
  | .matcher none => by simp [parsesB, enc, bodyOf, clause, parsesSubsetB, lookupNode]
  | .matcher (some (a, b)) => by simp [parsesB, enc, bodyOf, clause, parsesSubsetB, lookupNode]
  | .edge => by simp [parsesB, enc, bodyOf, clause]
  | .all n => by simp [parsesB, enc, bodyOf, clause, lookupNode, parsesB_enc n]
  | .index i n => by simp [parsesB, enc, bodyOf, clause, lookupNode, parsesB_enc n]
  | .range a b n => by simp [parsesB, enc, bodyOf, clause, lookupNode, parsesB_enc n]
  | .interpretAs adl n => by simp [parsesB, enc, bodyOf, clause, lookupNode, parsesB_enc n]
  | .recursive l seq none => by
    simp [parsesB, enc, bodyOf, clause, lookupNode, parsesB_enc seq, parsesLimitB_enc, parsesStopB]
  | .recursive l seq (some st) => by
    simp [parsesB, enc, bodyOf, clause, lookupNode, parsesB_enc seq, parsesLimitB_enc, parsesStopB]
  | .fields fs => by simp [parsesB, enc, bodyOf, clause, lookupNode, parsesFieldsB_enc fs]
  | .union ms => by simp [parsesB, enc, clause, parsesListB_enc ms]
theorem parsesFieldsB_enc : ∀ fs : List (String × Sel), parsesFieldsB fs (encFields fs) = true
  | [] => by simp [parsesFieldsB, encFields]
  | (k, s) :: rest => by simp [parsesFieldsB, encFields, parsesB_enc s, parsesFieldsB_enc rest]
theorem parsesListB_enc : ∀ ms : List Sel, parsesListB ms (encList ms) = true
  | [] => by simp [parsesListB, encList]
  | s :: rest => by simp [parsesListB, encList, parsesB_enc s, parsesListB_enc rest]
end

/-! ### what `limits` collects: the limit of every ExploreRecursive clause occurring in `s` -/

/-- `Occurs t s`: the clause `t` occurs in the selector specification `s`, at any depth, under
    any kind of clause -/
inductive Occurs : Sel → Sel → Prop where
  | here (s : Sel) : Occurs s s
  | all {t n : Sel} : Occurs t n → Occurs t (.all n)
  | fields {t s' : Sel} {k : String} {fs : List (String × Sel)} : (k, s') ∈ fs → Occurs t s' → Occurs t (.fields fs)
  | index {t n : Sel} {i : Int} : Occurs t n → Occurs t (.index i n)
  | range {t n : Sel} {a b : Int} : Occurs t n → Occurs t (.range a b n)
  | recursive {t seq : Sel} {l : Limit} {st : Option Nat} : Occurs t seq → Occurs t (.recursive l seq st)
  | union {t m : Sel} {ms : List Sel} : m ∈ ms → Occurs t m → Occurs t (.union ms)
  | interpretAs {t n : Sel} {adl : String} : Occurs t n → Occurs t (.interpretAs adl n)

theorem mem_limitsFields {l : Limit} : ∀ {fs : List (String × Sel)} {k : String} {s' : Sel},
    (k, s') ∈ fs → l ∈ limits s' → l ∈ limitsFields fs
  | (k0, s0) :: rest, k, s', hm, hl => by
    simp only [limitsFields, List.mem_append]
    cases hm with
    | head => exact Or.inl hl
    | tail _ h => exact Or.inr (mem_limitsFields h hl)

theorem mem_limitsList {l : Limit} : ∀ {ms : List Sel} {m : Sel},
    m ∈ ms → l ∈ limits m → l ∈ limitsList ms
  | m0 :: rest, m, hm, hl => by
    simp only [limitsList, List.mem_append]
    cases hm with
    | head => exact Or.inl hl
    | tail _ h => exact Or.inr (mem_limitsList h hl)

theorem mem_limits_of_occurs {t s : Sel} (h : Occurs t s) :
    ∀ {l : Limit} {seq : Sel} {st : Option Nat}, t = .recursive l seq st → l ∈ limits s := by
  induction h with
  | here => intro l seq st e; subst e; simp [limits]
  | all _ ih => intro l seq st e; simpa [limits] using ih e
  | fields hm _ ih => intro l seq st e; simpa [limits] using mem_limitsFields hm (ih e)
  | index _ ih => intro l seq st e; simpa [limits] using ih e
  | range _ ih => intro l seq st e; simpa [limits] using ih e
  | recursive _ ih => intro l seq st e; simp only [limits, List.mem_cons]; exact Or.inr (ih e)
  | union hm _ ih => intro l seq st e; simpa [limits] using mem_limitsList hm (ih e)
  | interpretAs _ ih => intro l seq st e; simpa [limits] using ih e

mutual
theorem occurs_of_mem_limits : ∀ (s : Sel) (l : Limit), l ∈ limits s →
    ∃ seq st, Occurs (.recursive l seq st) s
  | .matcher _, l, h => by simp [limits] at h
  | .edge, l, h => by simp [limits] at h
  | .all n, l, h => by
    obtain ⟨seq, st, o⟩ := occurs_of_mem_limits n l (by simpa [limits] using h)
    exact ⟨seq, st, .all o⟩
  | .index i n, l, h => by
    obtain ⟨seq, st, o⟩ := occurs_of_mem_limits n l (by simpa [limits] using h)
    exact ⟨seq, st, .index o⟩
  | .range a b n, l, h => by
    obtain ⟨seq, st, o⟩ := occurs_of_mem_limits n l (by simpa [limits] using h)
    exact ⟨seq, st, .range o⟩
  | .interpretAs adl n, l, h => by
    obtain ⟨seq, st, o⟩ := occurs_of_mem_limits n l (by simpa [limits] using h)
    exact ⟨seq, st, .interpretAs o⟩
  | .recursive l0 seq0 st0, l, h => by
    simp only [limits, List.mem_cons] at h
    cases h with
    | inl e => subst e; exact ⟨seq0, st0, .here _⟩
    | inr h =>
      obtain ⟨seq, st, o⟩ := occurs_of_mem_limits seq0 l h
      exact ⟨seq, st, .recursive o⟩
  | .fields fs, l, h => by
    obtain ⟨k, s', seq, st, hm, o⟩ := occurs_of_mem_limitsFields fs l (by simpa [limits] using h)
    exact ⟨seq, st, .fields hm o⟩
  | .union ms, l, h => by
    obtain ⟨m, seq, st, hm, o⟩ := occurs_of_mem_limitsList ms l (by simpa [limits] using h)
    exact ⟨seq, st, .union hm o⟩
theorem occurs_of_mem_limitsFields : ∀ (fs : List (String × Sel)) (l : Limit), l ∈ limitsFields fs →
    ∃ k s' seq st, (k, s') ∈ fs ∧ Occurs (.recursive l seq st) s'
  | [], l, h => by simp [limitsFields] at h
  | (k0, s0) :: rest, l, h => by
    simp only [limitsFields, List.mem_append] at h
    cases h with
    | inl h =>
      obtain ⟨seq, st, o⟩ := occurs_of_mem_limits s0 l h
      exact ⟨k0, s0, seq, st, List.mem_cons_self, o⟩
    | inr h =>
      obtain ⟨k, s', seq, st, hm, o⟩ := occurs_of_mem_limitsFields rest l h
      exact ⟨k, s', seq, st, List.mem_cons_of_mem _ hm, o⟩
theorem occurs_of_mem_limitsList : ∀ (ms : List Sel) (l : Limit), l ∈ limitsList ms →
    ∃ m seq st, m ∈ ms ∧ Occurs (.recursive l seq st) m
  | [], l, h => by simp [limitsList] at h
  | m0 :: rest, l, h => by
    simp only [limitsList, List.mem_append] at h
    cases h with
    | inl h =>
      obtain ⟨seq, st, o⟩ := occurs_of_mem_limits m0 l h
      exact ⟨m0, seq, st, List.mem_cons_self, o⟩
    | inr h =>
      obtain ⟨m, seq, st, hm, o⟩ := occurs_of_mem_limitsList rest l h
      exact ⟨m, seq, st, List.mem_cons_of_mem _ hm, o⟩
end

/-- `limits s` = the limits of exactly the ExploreRecursive clauses occurring anywhere in `s` -/
theorem mem_limits_iff (s : Sel) (l : Limit) :
    l ∈ limits s ↔ ∃ seq st, Occurs (.recursive l seq st) s :=
  ⟨occurs_of_mem_limits s l, fun ⟨_, _, o⟩ => mem_limits_of_occurs o rfl⟩

end GS.Sel
