import GS.Model.ReqMgr
import GSProofs.Lemmas.ReqMgr
/-!
# C09 — Responses from other peers cannot affect a request

Property sentence: *messages from any peer other than the one a request was sent to have no effect
on that request: they deliver no data, change no status, reach none of the requestor's response or
block hooks for it, and cannot cancel it or cause messages to be sent on its behalf.*

Model: `GS.ReqMgr` (GS/Model/ReqMgr.lean).  `processResponses q rs` is the fold of the stage list
`GS.Generated.ReqPipeline.stages`, which translate/reqpipeline regenerates from
requestmanager/server.go on every check; the two filtering stages evaluate the comparison terms
`ReqPipeline.dropCond` / `ReqPipeline.filterCond` extracted from the source.  The theorems are
proved for *every* stage list that satisfies `Guarded` and instantiated with the generated one
(`pipeline_guarded`, `drop_compares_peer`, `filter_compares_peer`, all by `decide`).

## Full statement, and what is proved

FULL (not provable, see `ended_request_counterexample`): *for every request r that was ever sent
to p — in progress or already ended — a message from q ≠ p carrying r's ID produces no hook call
and no outgoing message for r.*

Since e8dd457 (follow-up of 33dbc69) the first stage of `processResponses` drops exactly the
responses whose request is IN PROGRESS with another peer; a response whose request is not (or no
longer) in the table passes on to the response hooks, whoever sent it, as in the original code
(existing users wait for the hook to see the final response of a request that has already
completed locally; once the entry is gone the manager does not know whom the request belonged to).

PROVED (`_partial`: the request is in progress = has a table entry): `noninterference_partial`,
`noninterference_run_partial`.  For an ended request only the hook call and the update a hook may
send back to the sender remain (`ended_request_counterexample`; a hook error has no effect because
there is no entry left): known finding `hook-after-request-ended`.

What "the request" consists of in the model: its table entry (peer, state, terminal error, context
cancelled, last response as seen by block hooks, loader online flag and loader queue `ingested`,
waiting CancelRequest callers, pending pause) and every output event that names it (response-hook
calls, outgoing messages, connection protect/unprotect, values sent on and closing of its channels,
task-queue operations).
-/
namespace GS.C09
open GS.ReqMgr GS.Generated

/-- Every effectful stage of the response pipeline runs after a stage that removes the responses
    addressed to requests in progress with another peer.  The translator guarantees linear data flow
    (each stage consumes what the previous one kept), so this is: the first stage is the
    drop-foreign stage or the full peer filter. -/
def Guarded : List StageOp → Bool
  | [] => true
  | op :: _ => op == .dropForeignLive || op == .filterForPeer

/-- A response is *foreign* for a message from `q` if its request is in progress with another peer:
    the situation of the property for a live request. -/
def ForeignLive (t : Table) (q : Peer) (x : Resp) : Prop := ∃ e, t.get x.id = some e ∧ e.peer ≠ q

instance (t : Table) (q : Peer) (x : Resp) : Decidable (ForeignLive t q x) := by
  unfold ForeignLive
  cases h : t.get x.id with
  | none => exact isFalse (by simp)
  | some e =>
    by_cases hp : e.peer = q
    · exact isFalse (by simp [hp])
    · exact isTrue ⟨e, rfl, hp⟩

/-- the pipeline extracted from today's `processResponses` is guarded (depends on the Go source) -/
theorem pipeline_guarded : Guarded ReqPipeline.stages = true := by decide

/-- the comparison inside the full peer filter, as extracted from the source, is "entry's peer ≠ sender" -/
theorem filter_compares_peer : GoodFilter ReqPipeline.filterCond = true := by decide

/-- the comparison inside the drop-foreign stage, as extracted from the source, is "entry's peer ≠ sender" -/
theorem drop_compares_peer : GoodFilter ReqPipeline.dropCond = true := by decide

/-- what the full filter keeps was sent to the sender -/
theorem keeps_peer (t : Table) (q : Peer) (x : Resp) (h : keeps t q x = true) :
    ∃ e, t.get x.id = some e ∧ e.peer = q := by
  unfold keeps at h
  split at h
  · rename_i e he
    rw [filterKeeps_good _ filter_compares_peer] at h
    exact ⟨e, he, by simpa using h⟩
  · cases h

/-- what the drop-foreign stage lets pass is not in progress with another peer -/
theorem passes_peer (t : Table) (q : Peer) (x : Resp) (e : Entry) (h : passes t q x = true)
    (he : t.get x.id = some e) : e.peer = q := by
  unfold passes at h
  rw [he] at h
  simp only [filterKeeps_good _ drop_compares_peer] at h
  simpa using h

theorem foreignLive_dropped (t : Table) (q : Peer) (x : Resp) (h : ForeignLive t q x) :
    passes t q x = false ∧ keeps t q x = false := by
  obtain ⟨e, he, hp⟩ := h
  constructor
  · unfold passes; rw [he]; simp only [filterKeeps_good _ drop_compares_peer]; simpa using hp
  · unfold keeps; rw [he]; simp only [filterKeeps_good _ filter_compares_peer]; simpa using hp

/-! ## single step -/

/-- General form of the step theorem: with a guarded pipeline, a message from `q` — whatever
    responses (any status, metadata, extensions, blocks, hook outcomes) it carries — leaves the entry
    of every request in progress with another peer exactly as it was, and produces no event that
    names that request. -/
theorem noninterference_of_guarded (stages : List StageOp) (hg : Guarded stages = true)
    (t : Table) (r : ReqId) (st : Entry) (q : Peer) (rs : List Resp)
    (hr : t.get r = some st) (hq : q ≠ st.peer) :
    (runStages stages q t rs).1.get r = some st ∧ ∀ ev ∈ (runStages stages q t rs).2, ev.req ≠ r := by
  cases stages with
  | nil => simp [runStages, hr]
  | cons op rest =>
    have hop : op = .dropForeignLive ∨ op = .filterForPeer := by
      simpa [Guarded] using hg
    -- in both cases the first stage leaves the table alone and keeps no response for r
    have key : ∀ (kept : List Resp), (∀ x ∈ kept, x.id ≠ r) →
        (runStages rest q t kept).1.get r = some st ∧ ∀ ev ∈ (runStages rest q t kept).2, ev.req ≠ r := by
      intro kept hk
      obtain ⟨f1, f2⟩ := runStages_frame rest q r t kept hk
      exact ⟨by rw [f1, hr], f2⟩
    rcases hop with h | h <;> subst h
    · simp only [runStages, runStage_drop, List.nil_append]
      apply key
      intro x hx hid
      have hk : passes t q x = true := (List.mem_filter.mp hx).2
      exact hq (passes_peer t q x st hk (by rw [hid, hr])).symm
    · simp only [runStages, runStage_filter, List.nil_append]
      apply key
      intro x hx hid
      obtain ⟨e, he, hpe⟩ := keeps_peer t q x (List.mem_filter.mp hx).2
      rw [hid, hr] at he
      cases he
      exact hq hpe.symm

/-- **C09, one step (`_partial`: the request is in progress).**  For every state `s`, request `r`
    with table entry `st`, peer `q ≠ st.peer` and ANY responses `rs`: handling
    `processResponses q rs` leaves `r`'s table entry (status, loader queue, channel-related fields,
    …) unchanged, leaves the task queue unchanged, and emits no hook event, no outgoing message, no
    channel event and no other event that mentions `r`.  (No reachability hypothesis is needed.) -/
theorem noninterference_partial (s : State) (r : ReqId) (st : Entry) (q : Peer) (rs : List Resp)
    (hr : s.table.get r = some st) (hq : q ≠ st.peer) :
    (step s (.resp q rs)).1.table.get r = some st
    ∧ (step s (.resp q rs)).1.pending = s.pending
    ∧ (step s (.resp q rs)).1.active = s.active
    ∧ ∀ ev ∈ (step s (.resp q rs)).2.1, ev.req ≠ r := by
  have h := noninterference_of_guarded ReqPipeline.stages pipeline_guarded s.table r st q rs hr hq
  exact ⟨h.1, rfl, rfl, h.2⟩

/-! ## whole histories -/

/-- With a guarded pipeline a response for a request in progress with another peer can be deleted
    from a message without changing anything: the resulting table and the complete event list are
    identical. -/
theorem erase_foreign_of_guarded (stages : List StageOp) (hg : Guarded stages = true)
    (t : Table) (q : Peer) (pre post : List Resp) (x : Resp) (hx : ForeignLive t q x) :
    runStages stages q t (pre ++ x :: post) = runStages stages q t (pre ++ post) := by
  obtain ⟨hpass, hkeep⟩ := foreignLive_dropped t q x hx
  cases stages with
  | nil => simp [runStages]
  | cons op rest =>
    have hop : op = .dropForeignLive ∨ op = .filterForPeer := by
      simpa [Guarded] using hg
    rcases hop with h | h <;> subst h
    · simp only [runStages, runStage_drop]
      have : (pre ++ x :: post).filter (passes t q) = (pre ++ post).filter (passes t q) := by
        simp [List.filter_append, hpass]
      rw [this]
    · simp only [runStages, runStage_filter]
      have : (pre ++ x :: post).filter (keeps t q) = (pre ++ post).filter (keeps t q) := by
        simp [List.filter_append, hkeep]
      rw [this]

theorem step_erase_foreign (s : State) (q : Peer) (pre post : List Resp) (x : Resp)
    (hx : ForeignLive s.table q x) :
    step s (.resp q (pre ++ x :: post)) = step s (.resp q (pre ++ post)) := by
  simp only [step, processResponses]
  rw [erase_foreign_of_guarded ReqPipeline.stages pipeline_guarded s.table q pre post x hx]

/-- `ErasedFrom s h h'`: history `h'` is history `h` run from state `s` with some foreign responses
    deleted — each one addressed to a request that is in progress with another peer in the state in
    which its message is handled.  Any number of deletions, anywhere, interleaved with arbitrary
    other operations (the genuine exchange, local API calls, executor steps). -/
inductive ErasedFrom : State → List Op → List Op → Prop
  | nil (s : State) : ErasedFrom s [] []
  | keep (s : State) (op : Op) (ops ops' : List Op) :
      ErasedFrom (step s op).1 ops ops' → ErasedFrom s (op :: ops) (op :: ops')
  | erase (s : State) (q : Peer) (pre post : List Resp) (x : Resp) (ops ops' : List Op) :
      ForeignLive s.table q x →
      ErasedFrom s (Op.resp q (pre ++ post) :: ops) ops' →
      ErasedFrom s (Op.resp q (pre ++ x :: post) :: ops) ops'

/-- **C09 over histories (`_partial`: the requests are in progress).**  Running any history gives
    exactly the same final state and the same outputs at every step as running it with the foreign
    responses deleted: responses from other peers carrying the ID of a live request are no-ops,
    however they are interleaved with the genuine exchange.  By induction on the history. -/
theorem noninterference_run_partial (s : State) (h h' : List Op) (he : ErasedFrom s h h') :
    run s h = run s h' := by
  induction he with
  | nil s => rfl
  | keep s op ops ops' _ ih => simp only [run, ih]
  | erase s q pre post x ops ops' hx _ ih =>
    rw [← ih]
    simp only [run, step_erase_foreign s q pre post x hx]

/-! ## the excluded region: a request that has already ended -/

/-- request 1 was sent to peer 0, ran and has completed: its entry is gone -/
def sEnded : State := (run {} [.newRequest 1 0, .start 1, .release 1 .ok]).1

/-- **counterexample for the full statement** (known finding `hook-after-request-ended`): a
    response from peer 2 carrying the ID of the ended request 1 reaches the response hook, and the
    update the hook asks for is sent to peer 2.  Nothing else happens (the hook's error has no
    effect: there is no entry to cancel). -/
theorem ended_request_counterexample :
    sEnded.table.get 1 = none
    ∧ (step sEnded (.resp 2 [{ id := 1, status := 14, hookExt := true, hookErr := true }])).2.1
        = [Ev.hook 2 1 14, Ev.out 2 .update 1] := by
  decide

/-! ## the pre-fix order is refuted (why `Guarded` is needed) -/

/-- the stage order of `processResponses` before commit 33dbc69 -/
def stagesBeforeFix : List StageOp := [.extensions, .filterForPeer, .updateLast, .ingest, .terminations]

/-- request 1 was sent to peer 0 and is queued -/
def tableEx : Table := [(1, { peer := 0 })]

/-- a response from peer 2 carrying request 1's ID, for which the response hook asks for an update
    and then fails -/
def evilResp : Resp := { id := 1, status := 14, hookExt := true, hookErr := true }

/-- **counterexample for the old order**: the third peer's response reaches the response hook, and the
    hook's error terminates the genuine request: its entry is deleted, the error is delivered on its
    error channel, its channels are closed and its connection is unprotected.  (The update sent to
    the third peer and the cancel sent to the genuine responder are in the event list too; they are
    not mentioned here so that the statement does not depend on the generated message targets.) -/
theorem unguarded_counterexample :
    (runStages stagesBeforeFix 2 tableEx [evilResp]).1.get 1 = none
    ∧ Ev.hook 2 1 14 ∈ (runStages stagesBeforeFix 2 tableEx [evilResp]).2
    ∧ Ev.errSent 1 .hook ∈ (runStages stagesBeforeFix 2 tableEx [evilResp]).2
    ∧ Ev.unprotect 0 1 ∈ (runStages stagesBeforeFix 2 tableEx [evilResp]).2
    ∧ Ev.closed 1 ∈ (runStages stagesBeforeFix 2 tableEx [evilResp]).2 := by
  decide

/-- the same input on today's pipeline: nothing happens (non-vacuity of `noninterference_partial`:
    its hypotheses are met by `tableEx`, request 1, peer 2) -/
example : processResponses 2 [evilResp] tableEx = (tableEx, []) := by decide

example : ∃ st, tableEx.get 1 = some st ∧ (2 : Peer) ≠ st.peer := ⟨{ peer := 0 }, by decide, by decide⟩

/-- non-vacuity of `noninterference_run_partial`: a history in which a third-peer response (with a
    failing hook) arrives between the genuine responses of a running request -/
example : ErasedFrom {}
    [.newRequest 1 0, .start 1, .resp 2 ([] ++ evilResp :: []), .resp 0 [{ id := 1, status := 20, count := 1 }], .release 1 .ok]
    [.newRequest 1 0, .start 1, .resp 2 ([] ++ []), .resp 0 [{ id := 1, status := 20, count := 1 }], .release 1 .ok] := by
  apply ErasedFrom.keep; apply ErasedFrom.keep
  apply ErasedFrom.erase
  · decide
  · apply ErasedFrom.keep; apply ErasedFrom.keep; apply ErasedFrom.keep; exact ErasedFrom.nil _

end GS.C09
