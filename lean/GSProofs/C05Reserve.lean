import GSProofs.C05PendingFull
import GSProofs.Lemmas.RespLifeReserveMgr
/-!
# C05 — no waiting allocator reservation belongs to a retired request

Invariant `WI` (Lemmas/RespLifeReserve*.lean), every `ReachableDrained` state: a waiting reservation (`State.waiting`)
of party `worker w` ⇒ worker `w` exists and is in phase `blockedTx … false` (blocked in that very reservation), and no
two waiting reservations belong to the same worker.  (`ReachableDrained` is only used for the lifecycle invariant:
a StartTask / FinishTask message is handled for a worker in `waitStart` / `waitFinish`, which therefore does not wait.)
With `hw` (the task workers of `r` have returned) and the manager half (`no_manager_reservation_after_outcome`):
`no_reservation_after_outcome`.
-/
namespace GS.C05
open GS.RespLife

theorem noEntry_of_kind {s : State} (h : WI s) {w : Nat}
    (hk : (acc s).kindAt w = some .waitStart ∨ (acc s).kindAt w = some .waitFinish) : noEntry s w := by
  intro x hx hp
  obtain ⟨wk, o, kk, h1, h2⟩ := h.2 x hx w hp
  have hwa := wk_acc (s := s) (w := w) (wk := wk) h1
  have hkind : (acc s).kindAt w = some (wkind wk.phase) := by simp [Acc.kindAt, hwa]
  rw [h2] at hkind
  rw [hkind] at hk
  cases kk <;> simp [wkind] at hk

theorem wi_mgrStep {s s' : State} (h : WI s) (hi : LInv (acc s)) (hs : mgrStep s = some s') : WI s' := by
  unfold mgrStep at hs
  split at hs
  · rename_i pk _
    split at hs
    · cases hs; exact wi_resumeMgr h pk
    · cases hs
  · split at hs
    · cases hs
    · rename_i m rest hm
      cases hs
      apply wi_handle (s := { s with mailbox := rest, handled := s.handled + 1 }) h m
      · intro w hmw
        subst hmw
        have hwf : w ∈ (acc s).starts := by
          show w ∈ starts s.mailbox
          rw [hm]; simp [starts]
        exact noEntry_of_kind h (Or.inl ((hi.startsIff w).1 hwf))
      · intro w e hmw
        subst hmw
        have hwf : w ∈ (acc s).fins := by
          show w ∈ fins s.mailbox
          rw [hm]; simp [fins]
        exact noEntry_of_kind h (Or.inr ((hi.finsIff w).1 hwf))

theorem wi_release {X : State} (h : WI X) (p : Peer) (n : Nat) : WI (release X p n) := h.wr (wr_release X p n h.1)

theorem wi_eq {s X : State} (h : WI s) (hw : X.waiting = s.waiting) (hk : X.workers = s.workers) : WI X :=
  h.wr (WR.of_eq hw hk)

theorem wi_step {s s' : State} {a : Action} (h : WI s) (hi : LInv (acc s)) (hs : step s a = some s') : WI s' := by
  cases a with
  | recv p r => simp only [step, Option.some.injEq] at hs; subst hs; exact h.wr (WR.of_eq rfl rfl)
  | api c => simp only [step, Option.some.injEq] at hs; subst hs; exact h.wr (WR.of_eq rfl rfl)
  | mgr => exact wi_mgrStep h hi hs
  | pop p id =>
    have h' : popTask s p id = some s' := hs
    unfold popTask at h'
    simp only at h'
    split at h'
    · cases h'
      refine ⟨h.1, fun x hx w hp => ?_⟩
      obtain ⟨wk, o, kk, h1, h2⟩ := h.2 x hx w hp
      refine ⟨wk, o, kk, ?_, h2⟩
      show (s.workers ++ [_])[w]? = some wk
      rw [List.getElem?_append_left (List.getElem?_eq_some_iff.1 h1).1]; exact h1
    · cases h'
  | reap p =>
    have h' : reap s p = some s' := hs
    unfold reap at h'
    split at h'
    · split at h'
      · cases h'; exact h.wr (WR.of_eq rfl rfl)
      · cases h'
    · cases h'
  | wstep w pick => exact wi_wstep h hs
  | extract p =>
    have h' : extract s p = some s' := hs
    unfold extract at h'
    simp only at h'
    split at h'
    · split at h'
      · cases h'
      · cases h'; exact h.wr (WR.of_eq rfl rfl)
    · cases h'
  | net p ok =>
    have h' : netResolve s p ok = some s' := hs
    unfold netResolve at h'
    simp only at h'
    split at h'
    · cases h'
    · split at h'
      · cases h'
        exact h.wr ((WR.of_eq (s' := setMQ s _) rfl rfl).trans (wr_release _ p _ h.1))
      · cases h'
        apply wi_release
        split
        · apply wi_release; exact wi_eq h rfl rfl
        · exact wi_eq h rfl rfl
  | pub p =>
    have h' : pubStep s p = some s' := hs
    unfold pubStep at h'
    simp only at h'
    split at h'
    · cases h'
    · split at h'
      · cases h'
      · rename_i st rest _
        cases st <;> simp only [Option.some.injEq] at h' <;> subst h' <;> exact h.wr (WR.of_eq rfl rfl)
  | primer p => simp only [step, Option.some.injEq] at hs; subst hs; exact h.wr (WR.of_eq rfl rfl)
  | thaw => simp only [step, Option.some.injEq] at hs; subst hs; exact h.wr (WR.of_eq rfl rfl)

theorem wi_reachable {c : Cfg} {s : State} (h : ReachableDrained c s) : WI s := by
  induction h with
  | init => exact ⟨List.Pairwise.nil, fun x hx => by simp [init] at hx⟩
  | step hr _ hs ih => exact wi_step ih (linv_reachable hr).1 hs

/-- **C05.waiting_worker_is_blocked**: a waiting allocator reservation of a task worker belongs to a worker that is
    blocked in exactly that reservation (phase `blockedTx … false`). -/
theorem waiting_worker_is_blocked {c : Cfg} {s : State} (h : ReachableDrained c s) (x : Waiting) (hx : x ∈ s.waiting)
    (w : Nat) (hp : x.party = .worker w) :
    ∃ wk ops k, s.workers[w]? = some wk ∧ wk.phase = .blockedTx ops k false :=
  (wi_reachable h).2 x hx w hp

/-- **C05.no_reservation_after_outcome**: after the outcome of an id registered at most once whose task workers have
    returned, no waiting allocator reservation belongs to it: a worker's reservation belongs to a worker of ANOTHER
    id, and the manager is not parked on a transaction of `r`. -/
theorem no_reservation_after_outcome {c : Cfg} {s : State} (h : ReachableDrained c s) (r : Id)
    (hreg : registrations s r ≤ 1) (hout : 1 ≤ completedCount s r + cancelledCount s r)
    (hw : ∀ w ∈ s.workers, w.id = r → w.phase = .done) :
    ∀ x ∈ s.waiting,
      (∀ w, x.party = .worker w → ∃ wk, s.workers[w]? = some wk ∧ wk.id ≠ r) ∧
      (x.party = .mgr → ∀ pk, s.park = some pk → pk.id ≠ r) := by
  intro x hx
  refine ⟨fun w hp => ?_, fun _ => no_manager_reservation_after_outcome h r hreg hout⟩
  obtain ⟨wk, o, kk, h1, h2⟩ := waiting_worker_is_blocked h x hx w hp
  refine ⟨wk, h1, fun hid => ?_⟩
  have := hw wk (List.mem_of_getElem? h1) hid
  rw [h2] at this; cases this

-- ------------------------------------------------------------------ non-vacuity (tests)
/-- per-peer limit 100: the second 88-byte block of request 1 does not fit, its executor waits in the allocator —
    after request 0 of the same peer was cancelled -/
def reserveScript : List Action :=
  cancelScript ++ [.thaw, .thaw, .recv 0 (.new 1 (cfgA 3)), .mgr, .pop 0 1, .mgr, .wstep 0 0, .wstep 0 0, .wstep 0 0]

/-- the hypotheses of `no_reservation_after_outcome` hold for id 0 in a state WITH a waiting reservation (of the
    worker of id 1), and that worker is blocked -/
example : ∃ s, ReachableDrained { limit := 100 } s ∧ registrations s 0 ≤ 1 ∧
    1 ≤ completedCount s 0 + cancelledCount s 0 ∧ (∀ w ∈ s.workers, w.id = 0 → w.phase = .done) ∧
    s.waiting = [{ party := .worker 0, peer := 0, size := 88 }] ∧ (s.workers.map (·.id)) = [1] :=
  ⟨run (init { limit := 100 }) reserveScript, reachableDrained_run ReachableDrained.init _ (by decide), by decide,
   by decide, by decide, by decide, by decide⟩

end GS.C05
