import GSProofs.C16
import GSProofs.Lemmas.MsgQueueTied2
/-!
# C16 — the Error that excuses an attached subscriber is tied to the subscriber's request

AUDIT_4 item 6 (AUDIT_3 item 9): the escape disjunct of `GS.C16.eventually_attached` /
`closed_build_rejected`, `ErrSeen r u n0 s := r ∈ s.closedStreams ∧ n0 < errCount u s.log`, is two
untied facts — request `r` closed at ANY time, and ANY later Error to `u` (for any topic / request).
The code fact is stronger: when a message carrying a response stream of `r` fails, `publishError`
closes `r`'s stream, scrubs `r`'s queued content, and delivers `Error` to the subscribers of THAT
message, in one critical section.

The model's log has `Event.notify sub topic kind` and `Event.streamClosed r`, but its `built` event
does not carry the request id, so "topic `t'` carried content of request `r`" cannot be read off a
`notify` event alone.  The tie that IS expressible, and that is proved here, is through the
`streamClosed r` event, which only `publishError` of a message `m` with `r ∈ m.streams` emits:

`ErrFor r u n0 s` (Lemmas/MsgQueueTied1.lean) :=
  `r ∈ s.closedStreams` and the log is `pre ++ streamClosed r :: mid ++ notify u t' Error :: post`
  with `n0 ≤ errCount u pre` (the block lies after `u`'s first `n0` Errors, i.e. after the
  attachment) and every event of `mid` is a `streamClosed _`, an allocator event, or
  `notify _ t' Error` (the SAME `publishError` block, of the one failed message `t'`).

`ErrFor r u n0 s → ErrSeen r u n0 s` (`ErrFor.errSeen`), so the tied theorems imply the untied ones.
-/
namespace GS.C16
open GS.MQ GS.Alloc

open GS.Temporal in
/-- **(S2) eventually, for attached subscribers, with the Error tied to the request** (assumption: one
    subscriber per request id).  Same hypotheses as `eventually_attached`.  On every weakly fair
    execution, a subscriber `u` attached to queued message `t` through request `r`, at a moment when it
    has been delivered `n0` Errors in all, eventually has a COMPLETE sequence for that message, or
    `ErrFor r u n0`: some message `t'` carrying a response stream of the SAME request `r` has failed
    after that moment, and the `publishError` that closed `r`'s stream (log event `streamClosed r`)
    delivered `Error` on `t'` to `u` in the same block. -/
theorem eventually_attached_tied {pick : Pick} {f : Req → Sub} {peer mr mt mp : Nat} {σ : Nat → MQ.State}
    (h0 : σ 0 = init peer mr mt mp) (hex : Exec (LSysF pick f) σ) (hwf : WFAll (LSysF pick f) fairAct σ)
    (u : Sub) (t : Nat) (r : Req) (n0 : Nat) :
    LeadsTo σ (fun s => AttQ u t r s ∧ errCount u s.log = n0)
      (fun s => Complete (seqOf u t s.log) ∨ ErrFor r u n0 s) := by
  have hex' : Exec (LSys pick) σ := by
    intro i
    rcases hex i with h | ⟨a, h⟩
    · exact Or.inl h
    · exact Or.inr ⟨a, (lsysF_step h).1⟩
  have hwf' : WFAll (LSys pick) fairAct σ := by
    intro i hen
    have hen' : ∀ j, i ≤ j → ∃ a, fairAct a ∧ (LSysF pick f).enabled a (σ j) := by
      intro j hj
      obtain ⟨a, hfa, he⟩ := hen j hj
      refine ⟨a, hfa, ?_⟩
      cases a with
      | build tx => exact absurd hfa (fun x => x)
      | run pw => exact he
      | ack ok => exact he
      | wake w => exact he
      | shutdown => exact he
      | env op => exact he
    obtain ⟨j, hij, a, hfa, hs⟩ := hwf i hen'
    exact ⟨j, hij, a, hfa, (lsysF_step hs).1⟩
  have hinv : ∀ i, J (σ i) ∧ AI f (σ i) := by
    intro i
    induction i with
    | zero => rw [h0]; exact ⟨init_J peer mr mt mp, init_AI f peer mr mt mp⟩
    | succ i ih =>
      rcases hex i with h | ⟨a, h⟩
      · rw [h]; exact ih
      · obtain ⟨h1, h2⟩ := lsysF_step h
        rw [lsys_step_eq h1]
        exact ⟨step_J pick ih.1 a, (step_stepOK pick f ih.1 ih.2 a h2).1⟩
  have hW : ∀ i d, WT u t r n0 (σ i) → WT u t r n0 (σ (i + d)) := by
    intro i d hw
    induction d with
    | zero => exact hw
    | succ d ih =>
      rcases hex (i + d) with h | ⟨a, h⟩
      · have : σ (i + (d + 1)) = σ (i + d) := h
        rw [this]; exact ih
      · obtain ⟨h1, h2⟩ := lsysF_step h
        have : σ (i + (d + 1)) = MQ.step pick (σ (i + d)) a := lsys_step_eq h1
        rw [this]
        exact step_stepT pick f (hinv (i + d)).1 (hinv (i + d)).2 a h2 u t r n0 ih
  intro i ⟨hatt, hn0⟩
  have hpend : Pend t (σ i) := by
    obtain ⟨b, hb, ha⟩ := hatt
    exact Or.inl ⟨b, hb, ha.1, ha.nonempty⟩
  obtain ⟨j, hij, hq, hdone⟩ := eventually h0 hex' hwf' t i hpend
  refine ⟨j, hij, ?_⟩
  obtain ⟨d, rfl⟩ := Nat.exists_eq_add_of_le hij
  rcases hW i d (Or.inl ⟨hatt, Nat.le_of_eq hn0.symm⟩) with ⟨⟨b, hb, ha⟩, _⟩ | hne | herr
  · exact absurd (Or.inl ⟨b, hb, ha.1, ha.nonempty⟩) hq
  · left
    rcases hdone u with h | h | h | h
    · exact absurd h hne
    · exact Or.inl h
    · exact Or.inr (Or.inl h)
    · exact Or.inr (Or.inr h)
  · exact Or.inr herr

/-- the tied conclusion implies the one of `eventually_attached` -/
theorem tied_implies_untied {u : Sub} {t : Nat} {r : Req} {n0 : Nat} {s : MQ.State}
    (h : Complete (seqOf u t s.log) ∨ ErrFor r u n0 s) : Complete (seqOf u t s.log) ∨ ErrSeen r u n0 s :=
  h.imp id ErrFor.errSeen

/-- what the tied escape says, spelled out: the stream of `r` is closed; the log has a `streamClosed r`
    event followed — with only `streamClosed`, allocator and `notify _ t' Error` events in between — by
    `notify u t' Error`; that Error is at least the `(n0+1)`-th delivered to `u`. -/
theorem errFor_spelled_out {r : Req} {u : Sub} {n0 : Nat} {s : MQ.State} (h : ErrFor r u n0 s) :
    r ∈ s.closedStreams ∧
    (∃ (t' : Topic) (pre mid post : List MQ.Event),
      s.log = pre ++ (MQ.Event.streamClosed r :: (mid ++ (MQ.Event.notify u t' Kind.error :: post))) ∧
      n0 ≤ errCount u pre ∧
      ∀ e ∈ mid, (∃ r', e = MQ.Event.streamClosed r') ∨ (∃ a, e = MQ.Event.mem a) ∨
        (∃ u', e = MQ.Event.notify u' t' Kind.error)) ∧
    n0 < errCount u s.log := by
  refine ⟨h.1, ?_, h.2.count⟩
  obtain ⟨t', pre, mid, post, e, hn, hm⟩ := h.2
  refine ⟨t', pre, mid, post, e, hn, ?_⟩
  intro e he
  have hb := hm e he
  cases e with
  | streamClosed r' => exact Or.inl ⟨r', rfl⟩
  | mem a => exact Or.inr (Or.inl ⟨a, rfl⟩)
  | notify u' t2 k =>
    simp only [blk, Bool.and_eq_true, beq_iff_eq] at hb
    right; right; exact ⟨u', by rw [hb.1, hb.2]⟩
  | wire _ _ => simp [blk] at hb
  | built _ _ _ _ => simp [blk] at hb
  | dropped _ => simp [blk] at hb
  | senderClosed => simp [blk] at hb
  | exitCallback => simp [blk] at hb

/-- non-vacuity of `eventually_attached_tied`, second disjunct (the scenario of the example after
    `eventually_attached`): subscriber 0 is attached to queued message 1 through request 0 (no Error
    so far, `ErrFor` false); message 0 of request 0 fails after the retries; message 1 is scrubbed:
    subscriber 0 has been told nothing about message 1, and the log ends with the block
    `streamClosed 0, released…, notify 0 0 Error` — the Error for message 0, which carried request 0. -/
example : ∃ s s', Reachable pickMin 0 1 (2^30) (2^30) s ∧ AttQ 0 1 0 s ∧ errCount 0 s.log = 0 ∧
    ¬ ErrFor 0 0 0 s ∧
    s' = runActs pickMin s [.ack false, .ack true, .ack false] ∧
    seqOf 0 1 s'.log = [] ∧ ErrFor 0 0 0 s' ∧ errCount 0 s'.log = 1 ∧ s'.builders = [] :=
  ⟨runActs pickMin (init 0 1 (2^30) (2^30))
      [.build { who := .response, req := 0, sub := 0, items := [.block 1 1000 true] }, .run true, .ack true,
       .build { who := .response, req := 0, sub := 0, items := [.block 2 600000 true] }],
    _, ⟨_, rfl⟩, ⟨_, List.mem_cons_self, by decide, by decide, Or.inl (by decide)⟩, by decide,
    (fun h => absurd h.1 (by decide)), rfl, by decide,
    ⟨by decide, 0,
      [.mem (.granted 0 0 1000), .built 0 0 1000 1000, .notify 0 0 .queued, .wire 0 0,
       .mem (.granted 0 1 600000), .built 1 1 600000 600000],
      [.mem (.released 0 600000)], [.mem (.released 0 1000), .notify 0 0 .close],
      by decide, Nat.zero_le _, by decide⟩,
    by decide, by decide⟩

/-- **(S2) for a transaction that arrives after the queue has stopped sending, tied**: as
    `closed_build_rejected`, with the escape `ErrFor`: nothing is queued at the end of the step and `u`
    has a complete sequence for `t`, or a message carrying request `r` was failed during this step by a
    `publishError` that closed `r`'s stream and told `u`. -/
theorem closed_build_rejected_tied {pick : Pick} {f : Req → Sub} {s : MQ.State} (hj : J s) (hcn : CN s) (hai : AI f s)
    (hc : s.closed = true) (ticket : Nat) (tx : Tx) (size : Nat) (hf : tx.sub = f tx.req) (u : Sub) (t : Nat) (r : Req)
    (hatt : AttQ u t r (s.buildMessage pick ticket tx size)) :
    (s.buildMsg pick ticket tx size).builders = [] ∧
    (Complete (seqOf u t (s.buildMsg pick ticket tx size).log) ∨
      ErrFor r u (errCount u s.log) (s.buildMsg pick ticket tx size)) := by
  have hn : NInv s := hj
  have hnil := buildMsg_closed_nil pick s ticket tx size hc (hcn hc)
  refine ⟨hnil, ?_⟩
  have o := buildMessage_out pick f s ticket tx size hf
  have hi := (closed_idle hn hc).quiet (buildMessage_quiet pick s ticket tx size)
  have ow := drain_WT pick f 1 _ hi
  have hw1 : WT u t r (errCount u s.log) (s.buildMessage pick ticket tx size) :=
    Or.inl ⟨hatt, errCount_mono o.log u⟩
  have hw2 := ow.w (o.att hai.bfun).1 u t r _ hw1
  have heq : s.buildMsg pick ticket tx size = State.drain pick 1 (s.buildMessage pick ticket tx size) := by
    unfold State.buildMsg; rw [if_pos hc]
  have hn' : NInv (s.buildMsg pick ticket tx size) := buildMsg_ninv pick hn ticket tx size
  have hc' : (s.buildMsg pick ticket tx size).closed = true := by
    rw [closed_pc (buildMsg_pc pick s ticket tx size)]; exact hc
  have hdone := (closed_idle hn' hc').done t u
  rw [← heq] at hw2
  rcases hw2 with ⟨⟨b, hb, _⟩, _⟩ | hne | herr
  · rw [hnil] at hb; cases hb
  · left
    rcases hdone with h | h | h | h
    · exact absurd h hne
    · exact Or.inl h
    · exact Or.inr (Or.inl h)
    · exact Or.inr (Or.inr h)
  · exact Or.inr herr

/-! ### non-vacuity of `closed_build_rejected` (the example AUDIT_4 item 6 found missing)

`sClosed` is reachable: `Shutdown`, then the queue goroutine takes the `done` branch (`pc = exiting`,
`closed = true`).  The response assembler then builds a transaction of request 0 with subscriber 7.
All hypotheses of `closed_build_rejected` hold together — in particular `hc` and `hatt`: on the
intermediate state right after `buildMessage` subscriber 7 IS attached to queued message 0 through
request 0 — and the conclusion is the first disjunct with `[Error, close]`.  The tied escape holds as
well: the block `streamClosed 0, notify 7 0 Error`. -/

/-- the queue after `Shutdown` and the goroutine's `done` branch -/
def sClosed : MQ.State := runActs pickMin (init 0 1 (2^30) (2^30)) [.shutdown, .run true]

/-- a response transaction of request 0 whose subscriber is 7 -/
def txLate : Tx := { who := .response, req := 0, sub := 7, items := [.block 1 1000 true] }

theorem sClosed_hyps : Reachable pickMin 0 1 (2^30) (2^30) sClosed ∧ J sClosed ∧ CN sClosed ∧
    AI (fun _ => 7) sClosed ∧ sClosed.closed = true ∧ txLate.sub = (fun _ => 7) txLate.req ∧
    AttQ 7 0 0 (sClosed.buildMessage pickMin 0 txLate 1000) := by
  have hb : sClosed.builders = [] := by decide
  have hw : sClosed.waiters = [] := by decide
  have hp : sClosed.pc.inflight = none := by decide
  refine ⟨⟨_, rfl⟩, Reachable.inv ⟨_, rfl⟩, fun _ => hb, ⟨?_, ?_, ?_⟩, by decide, rfl, ?_⟩
  · intro b h; rw [hb] at h; cases h
  · intro w h; rw [hw] at h; cases h
  · intro m h; rw [hp] at h; cases h
  · exact ⟨_, List.mem_cons_self, by decide, by decide, Or.inl (by decide)⟩

/-- `closed_build_rejected` applied to `sClosed` / `txLate`: every hypothesis discharged, conclusion
    evaluated (`[Error, close]`, nothing queued, stream of request 0 closed) -/
example :
    (sClosed.buildMsg pickMin 0 txLate 1000).builders = [] ∧
    (Complete (seqOf 7 0 (sClosed.buildMsg pickMin 0 txLate 1000).log) ∨
      ErrSeen 0 7 (errCount 7 sClosed.log) (sClosed.buildMsg pickMin 0 txLate 1000)) ∧
    seqOf 7 0 (sClosed.buildMsg pickMin 0 txLate 1000).log = [.error, .close] ∧
    errCount 7 sClosed.log = 0 ∧ 0 ∈ (sClosed.buildMsg pickMin 0 txLate 1000).closedStreams := by
  obtain ⟨_, hj, hcn, hai, hc, hf, hatt⟩ := sClosed_hyps
  obtain ⟨h1, h2⟩ := closed_build_rejected hj hcn hai hc 0 txLate 1000 hf 7 0 0 hatt
  exact ⟨h1, h2, by decide, by decide, by decide⟩

/-- the same for `closed_build_rejected_tied`; here BOTH disjuncts hold, the second one by the block
    `streamClosed 0, notify 7 0 Error` of the drain's `publishError` -/
example :
    (Complete (seqOf 7 0 (sClosed.buildMsg pickMin 0 txLate 1000).log) ∨
      ErrFor 0 7 (errCount 7 sClosed.log) (sClosed.buildMsg pickMin 0 txLate 1000)) ∧
    ErrFor 0 7 0 (sClosed.buildMsg pickMin 0 txLate 1000) := by
  obtain ⟨_, hj, hcn, hai, hc, hf, hatt⟩ := sClosed_hyps
  refine ⟨(closed_build_rejected_tied hj hcn hai hc 0 txLate 1000 hf 7 0 0 hatt).2, by decide, 0,
    [.built 0 0 1000 1000], [], [.mem .errNoPeer, .notify 7 0 .close], by decide, Nat.zero_le _, by decide⟩

/-- **the untied escape is strictly weaker** (the auditor's scenario, AUDIT_4 item 6: "`u` may serve `r'`
    too … plus `r` closed at any time").  Subscriber 0 serves requests 5 and 6.  Response 5 failed long
    ago (stream 5 closed, one Error to 0).  THEN the outgoing request 5 is queued as message 2 with
    subscriber 0 attached (`n0 = 1`), behind message 1 of request 6.  Message 1 fails: Error to 0 for
    request 6.  Now `ErrSeen 5 0 1` holds — `eventually_attached`'s conclusion is satisfied — although
    message 2 is STILL QUEUED with subscriber 0 attached and told nothing; `ErrFor 5 0 1` does not hold
    (no `streamClosed 5` after the attachment), so `eventually_attached_tied` is not discharged by
    this state: it promises a later one (message 2 complete). -/
theorem untied_escape_strictly_weaker :
    ∃ s s', Reachable pickMin 0 1 (2^30) (2^30) s ∧ AttQ 0 2 5 s ∧ errCount 0 s.log = 1 ∧
      s' = runActs pickMin s [.ack true, .ack false, .ack true, .ack false] ∧
      AttQ 0 2 5 s' ∧ seqOf 0 2 s'.log = [] ∧ ¬ Complete (seqOf 0 2 s'.log) ∧
      ErrSeen 5 0 1 s' ∧ ¬ ErrFor 5 0 1 s' :=
  ⟨runActs pickMin (init 0 1 (2^30) (2^30))
      [.build { who := .response, req := 5, sub := 0, items := [.block 1 1000 true] }, .run true, .ack true,
       .ack false, .ack true, .ack false,
       .build { who := .response, req := 6, sub := 0, items := [.block 2 1000 true] }, .run true,
       .build { who := .request, req := 5, sub := 0, items := [] }],
    _, ⟨_, rfl⟩, ⟨_, List.mem_cons_self, by decide, by decide, Or.inr (by decide)⟩, by decide, rfl,
    ⟨_, List.mem_cons_self, by decide, by decide, Or.inr (by decide)⟩, by decide,
    (fun h => by rcases h with h | h | h <;> exact absurd h (by decide)),
    ⟨by decide, by decide⟩, (fun h => absurd h.2.closedAfter (by decide))⟩

end GS.C16
