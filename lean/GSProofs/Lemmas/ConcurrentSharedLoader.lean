import GS.Model.Requestor
/-!
The reconciled loader over a block store that other requests write to (property C20, shared default
store).  Two chains of lemmas over every function of `GS.Loader`:

* (P) `LOK rem L`: every block in the store, and every block waiting in the remote queue, is a block the
  responder holds (`rem`); preserved by every loader operation when the ingested block map is one;
* (S) the loader over a LARGER store (`withStore s S1`, `Sub s.store S1`, `RemOK rem S1`) does exactly what
  the loader over the smaller store does — same outcome (up to the bytes of a local hit), same state
  up to the store, stores still related — unless the run over the smaller store answers a load with
  `RemoteMissingBlockErr` for a block the responder holds (`Dirty`).
-/
namespace GS.C20
open GS.Loader

/-- block `c` is in the store -/
def Has (st : List (Cid × Blk)) (c : Cid) : Prop := (storeGet st c).isSome = true

/-- every block of `S2` is a block of `S1` -/
def Sub (S2 S1 : List (Cid × Blk)) : Prop := ∀ c, Has S2 c → Has S1 c

/-- every block of the store is held by the responder -/
def RemOK (rem : List Cid) (S : List (Cid × Blk)) : Prop := ∀ c, Has S c → c ∈ rem

def withStore (s : Loader.State) (st : List (Cid × Blk)) : Loader.State := { s with store := st }

theorem storeGet_cons (c : Cid) (b : Blk) (S : List (Cid × Blk)) (c' : Cid) :
    storeGet ((c, b) :: S) c' = if c = c' then some b else storeGet S c' := by
  unfold storeGet
  by_cases h : c = c'
  · simp [h]
  · simp [h]

theorem Has_cons (c : Cid) (b : Blk) (S : List (Cid × Blk)) (c' : Cid) :
    Has ((c, b) :: S) c' ↔ (c = c' ∨ Has S c') := by
  unfold Has
  rw [storeGet_cons]
  by_cases h : c = c' <;> simp [h]

theorem Sub.refl (S : List (Cid × Blk)) : Sub S S := fun _ h => h

theorem Sub.cons {S2 S1 : List (Cid × Blk)} (h : Sub S2 S1) (c : Cid) (b : Blk) : Sub ((c, b) :: S2) ((c, b) :: S1) := by
  intro c' hc
  rw [Has_cons] at hc ⊢
  rcases hc with hc | hc
  · exact Or.inl hc
  · exact Or.inr (h c' hc)

theorem RemOK.cons {rem : List Cid} {S : List (Cid × Blk)} (h : RemOK rem S) (c : Cid) (b : Blk) (hc : c ∈ rem) :
    RemOK rem ((c, b) :: S) := by
  intro c' h'
  rw [Has_cons] at h'
  rcases h' with h' | h'
  · subst h'; exact hc
  · exact h c' h'

/-! ## (P) blocks come from the responder -/

/-- the items waiting in the remote queue that carry bytes are blocks the responder holds; the
    re-queueable last item carries none -/
def QOK (rem : List Cid) (rq : RQ) : Prop :=
  (∀ it ∈ rq.q, it.block.isSome = true → it.link ∈ rem) ∧ (∀ x, rq.last = some x → x.block = none)

def LOK (rem : List Cid) (L : Loader.State) : Prop := RemOK rem L.store ∧ QOK rem L.rq

theorem QOK_empty (rem : List Cid) : QOK rem {} := by
  constructor
  · intro it h; cases h
  · intro x h; cases h

theorem QOK_consume (rem : List Cid) (rq : RQ) (h : QOK rem rq) : QOK rem rq.consume := by
  unfold RQ.consume
  cases hq : rq.q with
  | nil => simpa [hq] using h
  | cons x rest =>
    simp only
    constructor
    · intro it hit hb
      exact h.1 it (by rw [hq]; exact List.mem_cons_of_mem _ hit) hb
    · intro y hy
      simp only [Option.some.injEq] at hy
      subst hy; rfl

theorem QOK_retryLast (rem : List Cid) (rq : RQ) (h : QOK rem rq) : QOK rem rq.retryLast := by
  unfold RQ.retryLast
  cases hl : rq.last with
  | none => simpa [hl] using h
  | some x =>
    have hx := h.2 x hl
    simp only
    split
    · constructor
      · intro it hit hb
        simp only [List.mem_cons] at hit
        rcases hit with rfl | hit
        · rw [hx] at hb; cases hb
        · exact h.1 it hit hb
      · intro y hy; cases hy
    · split
      · constructor
        · intro it hit hb
          simp only [List.mem_singleton] at hit
          subst hit; rw [hx] at hb; cases hb
        · intro y hy; cases hy
      · constructor
        · intro it hit hb
          simp only [List.mem_singleton] at hit
          subst hit; rw [hx] at hb; cases hb
        · intro y hy; cases hy

theorem QOK_push (rem : List Cid) (rq : RQ) (it : Item) (h : QOK rem rq) (hit : it.block.isSome = true → it.link ∈ rem) :
    QOK rem (rq.push it) := by
  unfold RQ.push
  split
  · constructor
    · intro x hx hb
      simp only [List.mem_singleton] at hx
      subst hx; exact hit hb
    · exact h.2
  · split
    · constructor
      · intro x hx hb
        simp only [List.mem_append, List.mem_singleton] at hx
        rcases hx with hx | rfl
        · exact h.1 x hx hb
        · exact hit hb
      · exact h.2
    · exact h

theorem QOK_queue (rem : List Cid) : ∀ (items : List Item) (rq : RQ), QOK rem rq →
    (∀ it ∈ items, it.block.isSome = true → it.link ∈ rem) → QOK rem (rq.queue items)
  | [], rq, h, _ => h
  | it :: rest, rq, h, hi => by
    unfold RQ.queue
    simp only [List.foldl_cons]
    exact QOK_queue rem rest (rq.push it) (QOK_push rem rq it h (hi it List.mem_cons_self))
      (fun x hx => hi x (List.mem_cons_of_mem _ hx))

theorem buildItems_go_ok (blocks : List (Cid × Blk)) : ∀ (md : List (Cid × Action)) (dups : List Cid),
    ∀ it ∈ buildItems.go blocks md dups, it.block.isSome = true → Has blocks it.link
  | [], _ => by intro it h; simp [buildItems.go] at h
  | (l, a) :: rest, dups => by
    intro it h hb
    unfold buildItems.go at h
    split at h
    · simp only [List.mem_cons] at h
      rcases h with rfl | h
      · exact hb
      · exact buildItems_go_ok blocks rest _ it h hb
    · simp only [List.mem_cons] at h
      rcases h with rfl | h
      · cases hb
      · exact buildItems_go_ok blocks rest _ it h hb

theorem LOK_ingest (rem : List Cid) (L : Loader.State) (md : List (Cid × Action)) (bl : List (Cid × Blk))
    (h : LOK rem L) (hb : RemOK rem bl) : LOK rem (Loader.ingest L md bl) := by
  unfold Loader.ingest
  split
  · exact h
  · split
    · exact h
    · refine ⟨h.1, QOK_queue rem _ _ h.2 ?_⟩
      intro it hit hs
      exact hb _ (buildItems_go_ok bl md [] it hit hs)

theorem LOK_setOnline (rem : List Cid) (L : Loader.State) (b : Bool) (h : LOK rem L) : LOK rem (Loader.setOnline L b) := by
  unfold Loader.setOnline
  simp only
  split
  · exact ⟨h.1, QOK_empty rem⟩
  · exact h

theorem LOK_cleanup (rem : List Cid) (L : Loader.State) (h : LOK rem L) : LOK rem (Loader.cleanup L) :=
  ⟨h.1, QOK_empty rem⟩

theorem recordRemoteAttempt_fields (s : Loader.State) (p : Path) (a : Action) :
    (recordRemoteAttempt s p a).store = s.store ∧ (recordRemoteAttempt s p a).rq = s.rq := by
  unfold recordRemoteAttempt
  split <;> exact ⟨rfl, rfl⟩

theorem LOK_waitRemote (rem : List Cid) : ∀ (f : Nat) (s : Loader.State), LOK rem s → LOK rem (waitRemote f s).1
  | 0, s, h => h
  | f + 1, s, h => by
    unfold waitRemote
    cases hq : s.rq.q with
    | nil =>
      simp only
      split <;> exact h
    | cons head rest =>
      simp only
      split
      · exact h
      · have h1 : LOK rem { s with rq := s.rq.consume } := ⟨h.1, QOK_consume rem _ h.2⟩
        split
        · exact h1
        · apply LOK_waitRemote rem f
          obtain ⟨e1, e2⟩ := recordRemoteAttempt_fields
            { s with rq := s.rq.consume, ver := some ‹Ver› } (verPath s.record (s.ver.getD none)) head.action
          exact ⟨by rw [e1]; exact h1.1, by rw [e2]; exact h1.2⟩

theorem stillOnUnfollowed_fields (s : Loader.State) (p : Path) :
    (stillOnUnfollowed s p).1.store = s.store ∧ (stillOnUnfollowed s p).1.rq = s.rq := by
  unfold stillOnUnfollowed
  split
  · exact ⟨rfl, rfl⟩
  · split <;> exact ⟨rfl, rfl⟩

theorem LOK_run (rem : List Cid) (s : Loader.State) (p : Path) (c : Cid) (h : LOK rem s) : LOK rem (run s p c).1 := by
  have hw := LOK_waitRemote rem (s.rq.q.length + 1) s h
  unfold run
  generalize waitRemote (s.rq.q.length + 1) s = wr at hw
  obtain ⟨s1, w⟩ := wr
  simp only at hw
  cases w with
  | blocked => exact hw
  | err e => exact hw
  | offline => exact hw
  | remote =>
    simp only
    obtain ⟨e1, e2⟩ := stillOnUnfollowed_fields s1 p
    generalize stillOnUnfollowed s1 p = su at e1 e2
    obtain ⟨s2, still⟩ := su
    simp only at e1 e2
    have h2 : LOK rem s2 := ⟨by rw [e1]; exact hw.1, by rw [e2]; exact hw.2⟩
    simp only
    split
    · exact h2
    · cases hq : s2.rq.q with
      | nil => exact h2
      | cons head rest =>
        simp only
        have h3 : LOK rem { s2 with rq := s2.rq.consume } := ⟨h2.1, QOK_consume rem _ h2.2⟩
        split
        · exact h3
        · rename_i hlink
          obtain ⟨f1, f2⟩ := recordRemoteAttempt_fields { s2 with rq := s2.rq.consume } p head.action
          have h4 : LOK rem (recordRemoteAttempt { s2 with rq := s2.rq.consume } p head.action) :=
            ⟨by rw [f1]; exact h3.1, by rw [f2]; exact h3.2⟩
          cases hb : head.block with
          | none => exact h4
          | some b =>
            simp only
            refine ⟨RemOK.cons h4.1 c b ?_, h4.2⟩
            have hl : head.link = c := by simpa using hlink
            rw [← hl]
            exact h2.2.1 head (by rw [hq]; exact List.mem_cons_self) (by rw [hb]; rfl)

theorem LOK_load (rem : List Cid) (s : Loader.State) (p : Path) (c : Cid) (h : LOK rem s) : LOK rem (Loader.load s p c).1 := by
  unfold Loader.load
  apply LOK_run
  split <;> exact h

theorem LOK_retry (rem : List Cid) (s : Loader.State) (h : LOK rem s) : LOK rem (Loader.retry s).1 := by
  unfold Loader.retry
  split
  · exact h
  · apply LOK_load
    simp only
    split
    · exact ⟨h.1, QOK_retryLast rem _ h.2⟩
    · exact h

theorem LOK_wake (rem : List Cid) (s : Loader.State) (h : LOK rem s) : LOK rem (Loader.wake s).1 := by
  unfold Loader.wake
  split
  · exact h
  · rename_i p c _
    have := LOK_run rem s p c h
    split <;> simp_all

/-! ## (S) the loader over a larger store -/

theorem recordRemoteAttempt_ws (s : Loader.State) (st) (p : Path) (a : Action) :
    recordRemoteAttempt (withStore s st) p a = withStore (recordRemoteAttempt s p a) st := by
  unfold recordRemoteAttempt
  split <;> rfl

theorem waitRemote_ws (st : List (Cid × Blk)) : ∀ (f : Nat) (s : Loader.State),
    waitRemote f (withStore s st) = (withStore (waitRemote f s).1 st, (waitRemote f s).2)
  | 0, s => rfl
  | f + 1, s => by
    unfold waitRemote
    cases hq : s.rq.q with
    | nil =>
      have : (withStore s st).rq.q = [] := hq
      simp only [this]
      have e : (withStore s st).isOpen = s.isOpen := rfl
      rw [e]
      split <;> rfl
    | cons head rest =>
      have : (withStore s st).rq.q = head :: rest := hq
      simp only [this]
      have e : (withStore s st).verifierDone = s.verifierDone := rfl
      rw [e]
      split
      · rfl
      · have e2 : (withStore s st).record = s.record := rfl
        have e3 : (withStore s st).ver = s.ver := rfl
        rw [e2, e3]
        split
        · rfl
        · rename_i v' _
          exact (congrArg _ (recordRemoteAttempt_ws { s with rq := s.rq.consume, ver := some v' } st _ _)).trans
            (waitRemote_ws st f _)

theorem waitRemote_store : ∀ (f : Nat) (s : Loader.State), (waitRemote f s).1.store = s.store
  | 0, s => rfl
  | f + 1, s => by
    unfold waitRemote
    cases hq : s.rq.q with
    | nil =>
      simp only
      split <;> rfl
    | cons head rest =>
      simp only
      split
      · rfl
      · split
        · rfl
        · rw [waitRemote_store f]
          exact (recordRemoteAttempt_fields _ _ _).1

/-- equal results up to the bytes handed over -/
def REq (r1 r2 : Result) : Prop := r1.err = r2.err ∧ r1.loc = r2.loc ∧ r1.write = r2.write

inductive OutEq : Out → Out → Prop
  | blocked : OutEq .blocked .blocked
  | done {r1 r2 : Result} : REq r1 r2 → OutEq (.done r1) (.done r2)

/-- a load answered "missing" although the responder holds the block -/
def DirtyR (rem : List Cid) (r : Result) : Prop := ∃ c p, r.err = some (.missing c p) ∧ c ∈ rem

def Dirty (rem : List Cid) (o : Out) : Prop := ∃ r, o = .done r ∧ DirtyR rem r

/-- loader `s1` is loader `s2` over a larger store -/
def Fol (s1 s2 : Loader.State) : Prop := s1 = withStore s2 s1.store ∧ Sub s2.store s1.store

theorem Fol.mk' (s : Loader.State) (S1 : List (Cid × Blk)) (h : Sub s.store S1) : Fol (withStore s S1) s := ⟨rfl, h⟩

theorem loadLocal_sim (rem : List Cid) (s : Loader.State) (S1 : List (Cid × Blk)) (p : Path) (c : Cid)
    (hsub : Sub s.store S1) (hrem : RemOK rem S1) :
    REq (loadLocal (withStore s S1) p c) (loadLocal s p c) ∨ DirtyR rem (loadLocal s p c) := by
  unfold loadLocal
  cases h2 : storeGet s.store c with
  | some b =>
    have : Has S1 c := hsub c (by unfold Has; rw [h2]; rfl)
    unfold Has at this
    cases h1 : storeGet S1 c with
    | none => rw [h1] at this; cases this
    | some b' =>
      left
      have e : (withStore s S1).store = S1 := rfl
      simp only [e, h1]
      exact ⟨rfl, rfl, rfl⟩
  | none =>
    by_cases hc : c ∈ rem
    · right; exact ⟨c, p, rfl, hc⟩
    · left
      have e : (withStore s S1).store = S1 := rfl
      cases h1 : storeGet S1 c with
      | none => simp only [e, h1]; exact ⟨rfl, rfl, rfl⟩
      | some b' => exact absurd (hrem c (by unfold Has; rw [h1]; rfl)) hc

theorem stillOnUnfollowed_ws (s : Loader.State) (st : List (Cid × Blk)) (p : Path) :
    stillOnUnfollowed (withStore s st) p = (withStore (stillOnUnfollowed s p).1 st, (stillOnUnfollowed s p).2) := by
  unfold stillOnUnfollowed
  have e : (withStore s st).unfollowed = s.unfollowed := rfl
  rw [e]
  split
  · rfl
  · split <;> rfl

/-- what `run_sim` concludes -/
def SimOut (rem : List Cid) (o1 o2 : Loader.State × Out) : Prop :=
  (OutEq o1.2 o2.2 ∧ Fol o1.1 o2.1) ∨ Dirty rem o2.2

theorem fin_sim (rem : List Cid) (c : Cid) (p : Path) (s : Loader.State) (S1 : List (Cid × Blk)) (used : Bool) (r1 r2 : Result)
    (hsub : Sub s.store S1) (h : REq r1 r2 ∨ DirtyR rem r2) :
    SimOut rem
      (({ (withStore s S1) with mra := some ⟨c, p, r1.err.isNone, used⟩, pending := none } : Loader.State), Out.done r1)
      (({ s with mra := some ⟨c, p, r2.err.isNone, used⟩, pending := none } : Loader.State), Out.done r2) := by
  rcases h with h | h
  · left
    refine ⟨OutEq.done h, ?_, hsub⟩
    rw [h.1]; rfl
  · right; exact ⟨r2, rfl, h⟩

theorem run_sim (rem : List Cid) (s : Loader.State) (S1 : List (Cid × Blk)) (p : Path) (c : Cid)
    (hsub : Sub s.store S1) (hrem : RemOK rem S1) :
    SimOut rem (run (withStore s S1) p c) (run s p c) := by
  unfold run
  have e0 : (withStore s S1).rq = s.rq := rfl
  rw [e0, waitRemote_ws]
  have hst : (waitRemote (s.rq.q.length + 1) s).1.store = s.store := waitRemote_store _ s
  generalize waitRemote (s.rq.q.length + 1) s = wr at hst
  obtain ⟨s1, w⟩ := wr
  simp only at hst
  have hsub1 : Sub s1.store S1 := by rw [hst]; exact hsub
  cases w with
  | blocked => left; exact ⟨OutEq.blocked, rfl, hsub1⟩
  | err e => exact fin_sim rem c p s1 S1 false _ _ hsub1 (Or.inl ⟨rfl, rfl, rfl⟩)
  | offline => exact fin_sim rem c p s1 S1 false _ _ hsub1 (loadLocal_sim rem s1 S1 p c hsub1 hrem)
  | remote =>
    simp only
    rw [stillOnUnfollowed_ws]
    obtain ⟨e1, _⟩ := stillOnUnfollowed_fields s1 p
    generalize stillOnUnfollowed s1 p = su at e1
    obtain ⟨s2, still⟩ := su
    simp only at e1
    have hsub2 : Sub s2.store S1 := by rw [e1]; exact hsub1
    simp only
    cases still with
    | true => exact fin_sim rem c p s2 S1 true _ _ hsub2 (loadLocal_sim rem s2 S1 p c hsub2 hrem)
    | false =>
      simp only [Bool.false_eq_true, if_false]
      have e2 : (withStore s2 S1).rq = s2.rq := rfl
      rw [e2]
      cases hq : s2.rq.q with
      | nil => exact fin_sim rem c p s2 S1 true _ _ hsub2 (loadLocal_sim rem s2 S1 p c hsub2 hrem)
      | cons head rest =>
        simp only
        split
        · exact fin_sim rem c p { s2 with rq := s2.rq.consume } S1 true _ _ hsub2 (Or.inl ⟨rfl, rfl, rfl⟩)
        · have e3 : recordRemoteAttempt { (withStore s2 S1) with rq := s2.rq.consume } p head.action
              = withStore (recordRemoteAttempt { s2 with rq := s2.rq.consume } p head.action) S1 :=
            recordRemoteAttempt_ws { s2 with rq := s2.rq.consume } S1 p head.action
          rw [e3]
          obtain ⟨f1, _⟩ := recordRemoteAttempt_fields { s2 with rq := s2.rq.consume } p head.action
          generalize recordRemoteAttempt { s2 with rq := s2.rq.consume } p head.action = s4 at f1
          have hsub4 : Sub s4.store S1 := by rw [f1]; exact hsub2
          cases hb : head.block with
          | none => exact fin_sim rem c p s4 S1 true _ _ hsub4 (loadLocal_sim rem s4 S1 p c hsub4 hrem)
          | some b =>
            simp only
            left
            refine ⟨OutEq.done ⟨rfl, rfl, rfl⟩, rfl, ?_⟩
            exact Sub.cons hsub4 c b

theorem load_sim (rem : List Cid) (s : Loader.State) (S1 : List (Cid × Blk)) (p : Path) (c : Cid)
    (hsub : Sub s.store S1) (hrem : RemOK rem S1) :
    SimOut rem (Loader.load (withStore s S1) p c) (Loader.load s p c) := by
  unfold Loader.load
  have e : (withStore s S1).mra = s.mra := rfl
  rw [e]
  cases hm : s.mra with
  | none => exact run_sim rem s S1 p c hsub hrem
  | some a =>
    exact run_sim rem { s with record := s.record.record a.path a.link a.successful, mra := none } S1 p c hsub hrem

theorem retry_sim (rem : List Cid) (s : Loader.State) (S1 : List (Cid × Blk))
    (hsub : Sub s.store S1) (hrem : RemOK rem S1) :
    SimOut rem (Loader.retry (withStore s S1)) (Loader.retry s) := by
  unfold Loader.retry
  have e : (withStore s S1).mra = s.mra := rfl
  rw [e]
  cases hm : s.mra with
  | none => left; exact ⟨OutEq.done ⟨rfl, rfl, rfl⟩, rfl, hsub⟩
  | some a =>
    simp only
    cases a.usedRemote with
    | true => exact load_sim rem { s with mra := none, rq := s.rq.retryLast } S1 a.path a.link hsub hrem
    | false => exact load_sim rem { s with mra := none } S1 a.path a.link hsub hrem

/-- what `wake_sim` concludes -/
def SimW (rem : List Cid) (o1 o2 : Loader.State × Option Result) : Prop :=
  (Fol o1.1 o2.1 ∧ ((o1.2 = none ∧ o2.2 = none) ∨ ∃ r1 r2, o1.2 = some r1 ∧ o2.2 = some r2 ∧ REq r1 r2)) ∨
  ∃ r, o2.2 = some r ∧ DirtyR rem r

theorem wake_sim (rem : List Cid) (s : Loader.State) (S1 : List (Cid × Blk))
    (hsub : Sub s.store S1) (hrem : RemOK rem S1) :
    SimW rem (Loader.wake (withStore s S1)) (Loader.wake s) := by
  unfold Loader.wake
  have e : (withStore s S1).pending = s.pending := rfl
  rw [e]
  cases hp : s.pending with
  | none => left; exact ⟨⟨rfl, hsub⟩, Or.inl ⟨rfl, rfl⟩⟩
  | some pc =>
    obtain ⟨p, c⟩ := pc
    simp only
    have h := run_sim rem s S1 p c hsub hrem
    generalize run (withStore s S1) p c = o1 at h
    generalize run s p c = o2 at h
    obtain ⟨a1, b1⟩ := o1
    obtain ⟨a2, b2⟩ := o2
    rcases h with ⟨ho, hf⟩ | ⟨r, hr, hd⟩
    · simp only at ho hf
      cases ho with
      | blocked => left; exact ⟨hf, Or.inl ⟨rfl, rfl⟩⟩
      | done hre => left; exact ⟨hf, Or.inr ⟨_, _, rfl, rfl, hre⟩⟩
    · simp only at hr
      subst hr
      right; exact ⟨r, rfl, hd⟩

theorem setOnline_ws (s : Loader.State) (st : List (Cid × Blk)) (b : Bool) :
    Loader.setOnline (withStore s st) b = withStore (Loader.setOnline s b) st := by
  unfold Loader.setOnline
  have e : (withStore s st).isOpen = s.isOpen := rfl
  simp only [e]
  split <;> rfl

theorem ingest_ws (s : Loader.State) (st : List (Cid × Blk)) (md : List (Cid × Action)) (bl : List (Cid × Blk)) :
    Loader.ingest (withStore s st) md bl = withStore (Loader.ingest s md bl) st := by
  unfold Loader.ingest
  have e : (withStore s st).isOpen = s.isOpen := rfl
  simp only [e]
  split
  · rfl
  · split <;> rfl

theorem cleanup_ws (s : Loader.State) (st : List (Cid × Blk)) :
    Loader.cleanup (withStore s st) = withStore (Loader.cleanup s) st := rfl

theorem setOnline_store (s : Loader.State) (b : Bool) : (Loader.setOnline s b).store = s.store := by
  unfold Loader.setOnline
  simp only
  split <;> rfl

theorem ingest_store (s : Loader.State) (md : List (Cid × Action)) (bl : List (Cid × Blk)) :
    (Loader.ingest s md bl).store = s.store := by
  unfold Loader.ingest
  split
  · rfl
  · split <;> rfl
end GS.C20
