import GSProofs.C15
import GSProofs.Lemmas.MsgQueueOverlap3
/-!
# C15 while two queues of one peer overlap — the ledger modulo the other queue's bytes

`GS.C15.SoloReachable` (C15.lean) forbids EVERY allocator call on the queue's own peer by another
queue (`soloFrom`).  The known finding `overlap-release-wipes-successor` only needs one of them
excluded: the other queue's `ReleasePeerMemory(p)` (AUDIT_3 #8, AUDIT_4 #11).  This file states and proves
the ledger under the weaker assumption: the other queue may `alloc` and `release` (its own reservations)
on `p`'s allocator entry at any time.

Ghost `o` = bytes the OTHER queue currently holds on `p`'s allocator entry.  The model's `Act.env op`
does not say who owns a ticket, so ownership is by ticket range: this queue's tickets are
`0 … nextTicket-1`, the other queue's `AllocateBlockMemory` calls carry tickets `≥ B` for a bound
`B ≥ nextTicket` (in Go a ticket is the call's response channel: disjoint by construction).
`o` is replayed from the allocator events (`otherAct`): `+ amount` for each `granted p t amount` with
`t ≥ B` — whichever call triggered the grant —, `- n` for each `ReleaseBlockMemory(p, n)` by the other
queue, and `0` after THIS queue's own exit (its `ReleasePeerMemory(p)` wipes the other queue's
bytes: the finding seen from the other side).

Full statement (S'), for every schedule `acts` with `overlapFrom` (own-peer `env` calls are
`alloc` with a ticket `≥ B` or `release n` with `n ≤ o`; never `releasePeer p`) and `cleanFrom`:
    `AllocatedForPeer p = heldBuilders + heldInFlight + heldGranted + o`,  idle ⇒ `AllocatedForPeer p = o`.

Proved here ((S') in full; "partial" = under the schedule assumptions `overlapFrom` and `cleanFrom` just named):
* `exactly_once_overlap_partial` — (S') for EVERY schedule with `overlapFrom` + `cleanFrom`, from
  `messagequeue.New` with a fresh allocator: this queue's own steps (`build`, `wake`, `run`, `ack`,
  `shutdown`), other peers, and the other queue's `alloc` / `release` on `p` interleaved in any order.
  `idle_other_only_partial` (idle ⇒ `AllocatedForPeer p = o`), `exit_zero_overlap_partial`,
  `closed_queue_empty_overlap_partial`.  With no own-peer `env` call at all this is `exactly_once_partial`.
* the invariant is `OInv B s o` (= `LInv` modulo `o`, `Coupled` restricted to this queue's tickets);
  `ownSteps` = every step of this queue preserves it (Lemmas/MsgQueueOverlap2/3.lean: the step lemmas of
  MsgQueueLedger*.lean re-done with the slack), `overlap_env_step` = every allowed `Act.env` does.
* one step of the other queue in detail: `overlap_alloc_own` (an `alloc` moves `AllocatedForPeer p` and
  `o` by the same amount — `n` if granted at once, `0` if it has to wait — and leaves `held` unchanged),
  `overlap_release_own` (a `release n` takes exactly `n` from the entry and from `o`; reservations it
  lets through go to `o` (the other queue's tickets) or to this queue's `heldGranted`).
* `overlap_episode_partial`, `overlap_idle_partial`, `overlap_then_solo_partial`: the special case
  solo history ++ episode of the other queue ++ solo history, stated on `SoloReachable` (so that the
  theorems of C15.lean/C16/C17 that start from `I` resume once the other queue is gone).
* counterexamples for the two exclusions that remain besides C15.lean `successor_wiped_counterexample`
  (`releasePeer p` by the other queue): `other_over_release_counterexample` (`n > o`),
  `own_exit_wipes_other` (this queue's exit while `o > 0`: why the ghost restarts at 0).
-/
namespace GS.C15
open GS.MQ GS.Alloc

/-- the allocator events of one step, read off the log -/
def newMem (pick : Pick) (s : MQ.State) (a : Act) : List Alloc.Event :=
  (memOf (step pick s a).log).drop (memOf s.log).length

/-- the ghost `o` after one act -/
def otherAct (B : Nat) (pick : Pick) (s : MQ.State) (o : Nat) : Act → Nat
  | .env op => otherEnv B pick s o op
  | .ack ok => if s.pc == .exiting then 0 else o + amounts (forT B (grantsOf s.peer (newMem pick s (.ack ok))))
  | a => o + amounts (forT B (grantsOf s.peer (newMem pick s a)))

def otherRun (B : Nat) (pick : Pick) : MQ.State → Nat → List Act → Nat
  | _, o, [] => o
  | s, o, a :: r => otherRun B pick (step pick s a) (otherAct B pick s o a) r

/-- the weaker schedule assumption: on this queue's own peer somebody else may allocate (tickets
    `≥ B`) and release what the other queue holds, but not `ReleasePeerMemory`; this queue's own
    tickets stay below `B` -/
def overlapAct (B : Nat) (s : MQ.State) (o : Nat) : Act → Bool
  | .env op => overlapOp B s o op
  | .build _ => decide (s.nextTicket < B)
  | _ => true

def overlapFrom (B : Nat) (pick : Pick) : MQ.State → Nat → List Act → Bool
  | _, _, [] => true
  | s, o, a :: r => overlapAct B s o a && overlapFrom B pick (step pick s a) (otherAct B pick s o a) r

/-! ## the other queue's steps -/

section
variable {pick : Pick} (hp : Admissible pick)
include hp

/-- **One step of the other queue / of another peer.**  From any state with
    `AllocatedForPeer p = held + o` (`OInv`), an allowed `Act.env op` leads to a state with
    `AllocatedForPeer p = held' + o'`, `o'` replayed from the step's events; this queue's builders and
    message in flight are untouched. -/
theorem overlap_env_step {B : Nat} {s : MQ.State} {o : Nat} (h : OInv B s o) (op : Alloc.Op)
    (hop : overlapOp B s o op = true) :
    OInv B (step pick s (.env op)) (otherAct B pick s o (.env op)) ∧
    allocatedFor (step pick s (.env op)).alloc s.peer
      = heldBuilders s + heldInFlight s + heldGranted (step pick s (.env op)) + otherAct B pick s o (.env op) := by
  obtain ⟨e1, e2, e3, e4⟩ := env_oinv hp h op hop
  refine ⟨e1, ?_⟩
  have := e1.ledger_held
  rw [e4] at this
  rw [this]
  unfold held heldBuilders heldInFlight
  rw [e2, e3]
  rfl

/-- **The other queue reserves** (`AllocateBlockMemory(p, n)` with one of its tickets): whether it is
    granted at once or has to wait, `AllocatedForPeer p` and `o` move by the same amount and nothing
    this queue holds changes. -/
theorem overlap_alloc_own {B : Nat} {s : MQ.State} {o : Nat} (h : OInv B s o) (n t : Nat) (ht : B ≤ t) :
    held (step pick s (.env (.alloc s.peer n t))) = held s ∧
    allocatedFor (step pick s (.env (.alloc s.peer n t))).alloc s.peer + o
      = allocatedFor s.alloc s.peer + otherAct B pick s o (.env (.alloc s.peer n t)) ∧
    (otherAct B pick s o (.env (.alloc s.peer n t)) = o ∨ otherAct B pick s o (.env (.alloc s.peer n t)) = o + n) := by
  have hop : overlapOp B s o (.alloc s.peer n t) = true := by simp [overlapOp, ht]
  obtain ⟨e1, e2, e3, e4⟩ := env_oinv hp h (.alloc s.peer n t) hop
  have hw : (step pick s (.env (.alloc s.peer n t))).waiters = s.waiters := by
    show answerWaiters s.peer s.waiters (Alloc.step pick s.alloc (.alloc s.peer n t)).2 = s.waiters
    rw [answerWaiters_dropF B s.peer _ s.waiters h.cpl.tickets]
    rcases alloc_own (pick := pick) h.cpl.ainv s.peer n t with ⟨he, _⟩ | ⟨he, _⟩
    · rw [he, dropF_granted, if_pos ⟨rfl, ht⟩]; rfl
    · rw [he]; rfl
  have hh : held (step pick s (.env (.alloc s.peer n t))) = held s := by
    unfold held heldBuilders heldInFlight heldGranted
    rw [e2, e3, hw]
  have l1 := e1.ledger_held
  have l0 := h.ledger_held
  rw [e4, hh] at l1
  have hoe : otherAct B pick s o (.env (.alloc s.peer n t)) = otherEnv B pick s o (.alloc s.peer n t) := rfl
  refine ⟨hh, by omega, ?_⟩
  show otherEnv B pick s o (.alloc s.peer n t) = o ∨ otherEnv B pick s o (.alloc s.peer n t) = o + n
  unfold otherEnv
  have hf : forT B [(t, n)] = [(t, n)] := by
    unfold forT; rw [List.filter_cons_of_pos (by simp; omega)]; rfl
  rcases alloc_own (pick := pick) h.cpl.ainv s.peer n t with ⟨he, _⟩ | ⟨he, _⟩
  · right; rw [he]; simp only [grantsOf, if_true, hf, releasedSum]; rfl
  · left; rw [he]; rfl

/-- **The other queue releases** `n ≤ o` of its bytes (`ReleaseBlockMemory(p, n)`: a message of its
    own was sent, failed, or was scrubbed): exactly `n` bytes leave the entry and `o`; reservations
    the release lets through go to `o` (the other queue's tickets) or to this queue's granted callers. -/
theorem overlap_release_own {B : Nat} {s : MQ.State} {o : Nat} (h : OInv B s o) (n : Nat) (hn : n ≤ o) :
    releasedSum s.peer (Alloc.step pick s.alloc (.release s.peer n)).2 = n ∧
    otherAct B pick s o (.env (.release s.peer n))
      = o - n + amounts (forT B (grantsOf s.peer (Alloc.step pick s.alloc (.release s.peer n)).2)) ∧
    allocatedFor (step pick s (.env (.release s.peer n))).alloc s.peer
      = held (step pick s (.env (.release s.peer n))) + otherAct B pick s o (.env (.release s.peer n)) := by
  have hop : overlapOp B s o (.release s.peer n) = true := by simp [overlapOp, hn]
  have ho : o ≤ tot s.alloc s.peer := by have := h.ledger; omega
  obtain ⟨_, _, hr⟩ := overlap_view hp h.cpl (.release s.peer n) hop ho
  simp only [if_true] at hr
  obtain ⟨e1, _, _, e4⟩ := env_oinv hp h (.release s.peer n) hop
  refine ⟨hr, ?_, ?_⟩
  · show otherEnv B pick s o (.release s.peer n) = _
    unfold otherEnv; rw [hr]; omega
  · have := e1.ledger_held; rw [e4] at this; exact this

end

/-! ## whole schedules -/

section
variable {pick : Pick} (hp : Admissible pick) {peer mr mt mp : Nat} (ht : mt < W) (hm : mp < W)
include hp ht hm

/-- **(S') after an episode of the other queue** — partial: this queue takes no step of its own during
    the episode.  After ANY solo history, let the other queue of the same peer (and other peers)
    perform any allowed sequence of allocator calls (`overlapOps`: on `p`, allocations with tickets
    `≥ B` and releases of at most what the other queue holds; no `ReleasePeerMemory(p)`).  Then
    `AllocatedForPeer p` = this queue's builders + message in flight + granted callers + the other
    queue's bytes, where builders and message in flight are those before the episode. -/
theorem overlap_episode_partial {B : Nat} {s : MQ.State} (h : SoloReachable pick peer mr mt mp s)
    (hB : s.nextTicket ≤ B) (ops : List Alloc.Op) (hops : overlapOps B pick s 0 ops = true) :
    allocatedFor (runActs pick s (ops.map Act.env)).alloc s.peer
      = heldBuilders s + heldInFlight s + heldGranted (runActs pick s (ops.map Act.env))
        + otherOps B pick s 0 ops ∧
    OInv B (runActs pick s (ops.map Act.env)) (otherOps B pick s 0 ops) := by
  have h0 : OInv B s 0 := (h.inv hp ht hm).1.toO hB
  obtain ⟨i1, i2, i3, i4⟩ := envs_oinv hp ops h0 hops
  refine ⟨?_, i1⟩
  have := i1.ledger_held
  rw [i4] at this
  rw [this]
  unfold held heldBuilders heldInFlight
  rw [i2, i3]

/-- **Idle ⇒ only the other queue's bytes** (partial as above): if after the episode nothing is
    queued, nothing is in flight and no caller of this queue holds a granted reservation, then
    `AllocatedForPeer p` is exactly what the other queue holds. -/
theorem overlap_idle_partial {B : Nat} {s : MQ.State} (h : SoloReachable pick peer mr mt mp s)
    (hB : s.nextTicket ≤ B) (ops : List Alloc.Op) (hops : overlapOps B pick s 0 ops = true)
    (hpc : s.pc = .idle) (hb0 : ∀ b ∈ s.builders, b.empty = true)
    (hw : ∀ w ∈ (runActs pick s (ops.map Act.env)).waiters, w.answer ≠ some true) :
    allocatedFor (runActs pick s (ops.map Act.env)).alloc s.peer = otherOps B pick s 0 ops := by
  obtain ⟨hl, _⟩ := overlap_episode_partial hp ht hm h hB ops hops
  have h' := (h.inv hp ht hm).1
  have h1 : heldBuilders s = 0 := by
    rw [heldBuilders_eq]
    have : ∀ (bs : List Builder), (∀ b ∈ bs, BInv b) → (∀ b ∈ bs, b.empty = true) → hb bs = 0 := by
      intro bs
      induction bs with
      | nil => intros; rfl
      | cons b r ih =>
        intro hi he
        rw [hb_cons, empty_accounted (hi b (by simp)) (he b (by simp)),
          ih (fun x hx => hi x (List.mem_cons_of_mem _ hx)) (fun x hx => he x (List.mem_cons_of_mem _ hx))]
    exact this _ h'.binv hb0
  have h2 : heldInFlight s = 0 := heldInFlight_idle hpc
  have h3 : heldGranted (runActs pick s (ops.map Act.env)) = 0 := by
    unfold heldGranted
    have : (runActs pick s (ops.map Act.env)).waiters.filter (·.answer == some true) = [] := by
      apply List.filter_eq_nil_iff.mpr
      intro w hw'
      have := hw w hw'
      simpa using this
    rw [this]; rfl
  omega

/-- **After the overlap** (partial as above): once the other queue holds nothing (`o = 0`) and none of
    its reservations is waiting, the solo invariant holds again, and with it — for every further solo
    history `acts` — the exact ledger `AllocatedForPeer p = held` of `exactly_once_partial`. -/
theorem overlap_then_solo_partial {B : Nat} {s : MQ.State} (h : SoloReachable pick peer mr mt mp s)
    (hB : s.nextTicket ≤ B) (ops : List Alloc.Op) (hops : overlapOps B pick s 0 ops = true)
    (ho : otherOps B pick s 0 ops = 0)
    (hf : forT B (pendTA (runActs pick s (ops.map Act.env)).alloc s.peer) = [])
    (acts : List Act) (hs : soloFrom pick (runActs pick s (ops.map Act.env)) acts = true)
    (hc : cleanFrom pick (runActs pick s (ops.map Act.env)) acts = true) :
    let s' := runActs pick (runActs pick s (ops.map Act.env)) acts
    allocatedFor s'.alloc s'.peer = heldBuilders s' + heldInFlight s' + heldGranted s' := by
  obtain ⟨_, i1⟩ := overlap_episode_partial hp ht hm h hB ops hops
  obtain ⟨_, _, _, i4⟩ := envs_oinv hp ops ((h.inv hp ht hm).1.toO hB) hops
  rw [ho] at i1
  have hl : LInv (runActs pick s (ops.map Act.env)) := i1.toSolo (by rw [i4]; exact hf)
  have hcn : CN (runActs pick s (ops.map Act.env)) := by
    have : ∀ (l : List Act) (x : MQ.State), CN x → CN (runActs pick x l) := by
      intro l
      induction l with
      | nil => intro x hx; exact hx
      | cons a r ih => intro x hx; exact ih _ (step_cn pick hx a)
    exact this _ _ (h.inv hp ht hm).2
  exact (runActs_I hp ⟨hl, hcn⟩ acts hs hc).1.ledger

end

/-! ## this queue's own steps, and (S') for all schedules -/

/-- every step of this queue itself — `build`, `wake`, `run`, `ack`, `shutdown` — preserves `OInv`, the
    ghost replayed by `otherAct` (it grows by the grants to the other queue's tickets caused by this
    queue's releases; this queue's exit resets it to 0) -/
def OwnSteps (B : Nat) (pick : Pick) : Prop :=
  ∀ (s : MQ.State) (o : Nat) (a : Act), OInv B s o → CN s → (∀ op, a ≠ .env op) →
    overlapAct B s o a = true → cleanAct s a = true → OInv B (step pick s a) (otherAct B pick s o a)

theorem ownSteps {pick : Pick} (hp : Admissible pick) (B : Nat) : OwnSteps B pick := by
  intro s o a h hcn hne hov hcl
  have hB : ∀ tx, a = .build tx → s.nextTicket < B := by
    intro tx he; subst he; simpa [overlapAct] using hov
  by_cases hex : s.pc = .exiting ∧ ∃ ok, a = .ack ok
  · obtain ⟨hpc, ok, rfl⟩ := hex
    have hg : heldGranted s = 0 := by
      simp only [cleanAct, hpc, beq_self_eq_true, Bool.not_true, Bool.false_or, beq_iff_eq] at hcl
      exact hcl
    have : otherAct B pick s o (.ack ok) = 0 := by simp [otherAct, hpc]
    rw [this]
    exact exit_oinv hp h hcn hpc hg ok
  · have hpc : s.pc ≠ .exiting ∨ ∀ ok, a ≠ .ack ok := by
      by_cases h1 : s.pc = .exiting
      · right; intro ok he; exact hex ⟨h1, ok, he⟩
      · left; exact h1
    have key := own_step_oinv hp h hcn a hne hB hpc
    have : otherAct B pick s o a
        = o + amounts (forT B (grantsOf s.peer ((memOf (step pick s a).log).drop (memOf s.log).length))) := by
      cases a with
      | env op => exact absurd rfl (hne op)
      | ack ok =>
        have h1 : s.pc ≠ .exiting := by
          rcases hpc with h1 | h1
          · exact h1
          · exact absurd rfl (h1 ok)
        have : (s.pc == Pc.exiting) = false := by simpa using h1
        simp only [otherAct, this, Bool.false_eq_true, if_false, newMem]
      | build tx => rfl
      | wake t => rfl
      | run pw => rfl
      | shutdown => rfl
    rw [this]; exact key

/-- (S') along a schedule, from any state with the invariant -/
theorem overlap_full_of_ownSteps {pick : Pick} (hp : Admissible pick) {B : Nat} (hown : OwnSteps B pick) :
    ∀ (acts : List Act) (s : MQ.State) (o : Nat), OInv B s o → CN s →
      overlapFrom B pick s o acts = true → cleanFrom pick s acts = true →
      OInv B (runActs pick s acts) (otherRun B pick s o acts) ∧ CN (runActs pick s acts)
  | [], s, o, h, hcn, _, _ => ⟨h, hcn⟩
  | a :: r, s, o, h, hcn, hov, hcl => by
    simp only [overlapFrom, cleanFrom, Bool.and_eq_true] at hov hcl
    have hstep : OInv B (step pick s a) (otherAct B pick s o a) := by
      cases a with
      | env op => exact (env_oinv hp h op hov.1).1
      | build tx => exact hown s o _ h hcn (fun op he => by cases he) hov.1 hcl.1
      | wake t => exact hown s o _ h hcn (fun op he => by cases he) hov.1 hcl.1
      | run pw => exact hown s o _ h hcn (fun op he => by cases he) hov.1 hcl.1
      | ack ok => exact hown s o _ h hcn (fun op he => by cases he) hov.1 hcl.1
      | shutdown => exact hown s o _ h hcn (fun op he => by cases he) hov.1 hcl.1
    exact overlap_full_of_ownSteps hp hown r _ _ hstep (step_cn pick hcn a) hov.2 hcl.2

/-- states reachable, with the ghost `o`, by a schedule in which the other queue of the same peer never
    calls `ReleasePeerMemory(p)`, releases only what it holds, uses tickets `≥ B` (`overlapFrom`), and this
    queue's exit finds no granted caller (`cleanFrom`) -/
def OverlapReachable (B : Nat) (pick : Pick) (peer mr mt mp : Nat) (s : MQ.State) (o : Nat) : Prop :=
  ∃ acts : List Act, overlapFrom B pick (init peer mr mt mp) 0 acts = true ∧
    cleanFrom pick (init peer mr mt mp) acts = true ∧
    s = runActs pick (init peer mr mt mp) acts ∧ o = otherRun B pick (init peer mr mt mp) 0 acts

section
variable {pick : Pick} (hp : Admissible pick) {peer mr mt mp : Nat} (ht : mt < W) (hm : mp < W)
include hp ht hm

theorem OverlapReachable.inv {B : Nat} {s : MQ.State} {o : Nat} (h : OverlapReachable B pick peer mr mt mp s o) :
    OInv B s o ∧ CN s := by
  obtain ⟨acts, hov, hcl, rfl, rfl⟩ := h
  exact overlap_full_of_ownSteps hp (ownSteps hp B) acts _ _ ((init_LInv ht hm).toO (Nat.zero_le _))
    (fun _ => rfl) hov hcl

/-- **(S') Exactly once, with a second queue of the same peer alive** — partial only in `overlapFrom`
    (the other queue does not call `ReleasePeerMemory(p)` and releases only its own bytes) and `cleanFrom`.
    In every reachable state the bytes the allocator accounts to the peer are the bytes THIS queue holds
    (queued builders, message in flight, granted-not-yet-built) plus the bytes the OTHER queue holds. -/
theorem exactly_once_overlap_partial {B : Nat} {s : MQ.State} {o : Nat}
    (h : OverlapReachable B pick peer mr mt mp s o) :
    allocatedFor s.alloc s.peer = heldBuilders s + heldInFlight s + heldGranted s + o :=
  (h.inv hp ht hm).1.ledger

theorem closed_queue_empty_overlap_partial {B : Nat} {s : MQ.State} {o : Nat}
    (h : OverlapReachable B pick peer mr mt mp s o) (hc : s.closed = true) : s.builders = [] :=
  (h.inv hp ht hm).2 hc

/-- **Idle ⇒ only the other queue's bytes.** -/
theorem idle_other_only_partial {B : Nat} {s : MQ.State} {o : Nat}
    (h : OverlapReachable B pick peer mr mt mp s o) (hpc : s.pc = .idle)
    (hb0 : ∀ b ∈ s.builders, b.empty = true) (hw : ∀ w ∈ s.waiters, w.answer ≠ some true) :
    allocatedFor s.alloc s.peer = o := by
  have h' := (h.inv hp ht hm).1
  have hl := h'.ledger
  have h1 : hb s.builders = 0 := by
    have : ∀ (bs : List Builder), (∀ b ∈ bs, BInv b) → (∀ b ∈ bs, b.empty = true) → hb bs = 0 := by
      intro bs
      induction bs with
      | nil => intros; rfl
      | cons b r ih =>
        intro hi he
        rw [hb_cons, empty_accounted (hi b (by simp)) (he b (by simp)),
          ih (fun x hx => hi x (List.mem_cons_of_mem _ hx)) (fun x hx => he x (List.mem_cons_of_mem _ hx))]
    exact this _ h'.binv hb0
  have h2 : heldInFlight s = 0 := heldInFlight_idle hpc
  have h3 : grantedBytes s.waiters = 0 := by
    unfold grantedBytes
    have : s.waiters.filter (·.answer == some true) = [] := by
      apply List.filter_eq_nil_iff.mpr
      intro w hw'
      have := hw w hw'
      simpa using this
    rw [this]; rfl
  show tot s.alloc s.peer = o
  omega

/-- **Exit ⇒ zero** (and the other queue's bytes are gone with it: `own_exit_wipes_other`). -/
theorem exit_zero_overlap_partial {B : Nat} {s : MQ.State} {o : Nat}
    (h : OverlapReachable B pick peer mr mt mp s o) (hpc : s.pc = .exiting) (ok : Bool) :
    allocatedFor (s.ack pick ok).alloc s.peer = 0 ∧ (s.ack pick ok).pc = .exited := by
  have hinv : Alloc.Inv s.alloc := (h.inv hp ht hm).1.cpl.ainv
  unfold State.ack
  rw [hpc]
  simp only
  refine ⟨?_, trivial⟩
  show allocatedFor ((s.allocStep pick (.releasePeer s.peer)).1.emit [Event.exitCallback]).alloc s.peer = 0
  exact (releasePeer_own hp hinv s.peer).2.2.2

end

/-! ## the exclusions that remain are necessary -/

/-- **`n ≤ o` is needed**: the other queue holds 1000 bytes and releases 1500 (more than it holds —
    e.g. the over-release of finding `dead-queue-over-release` happening in the other queue): the
    excess is taken from THIS queue's reservation, 2000 bytes in flight but 1500 accounted. -/
theorem other_over_release_counterexample :
    ∃ s, Reachable pickMin 0 1 (2^30) (2^30) s ∧ s.pc ≠ .exited ∧ heldInFlight s = 2000 ∧
      allocatedFor s.alloc s.peer = 1500 ∧
      overlapFrom 100 pickMin (init 0 1 (2^30) (2^30)) 0
        [.env (.alloc 0 1000 100),
         .build { who := .response, req := 0, sub := 0, items := [.block 1 2000 true] }, .run true, .ack true] = true :=
  ⟨runActs pickMin (init 0 1 (2^30) (2^30))
      [.env (.alloc 0 1000 100),
       .build { who := .response, req := 0, sub := 0, items := [.block 1 2000 true] }, .run true, .ack true,
       .env (.release 0 1500)],
    ⟨_, rfl⟩, by decide, by decide, by decide, by decide⟩

/-- **This queue's own exit wipes the other queue's bytes** (`overlap-release-wipes-successor` seen from
    the stopping queue): the other queue holds 1000 bytes; this queue is shut down and exits; its
    deferred `ReleasePeerMemory(p)` leaves 0 accounted — which is why `otherAct` resets the ghost at
    the exit step, and why (S') is a statement about ONE queue's view up to its own exit. -/
theorem own_exit_wipes_other :
    ∃ s, Reachable pickMin 0 1 (2^30) (2^30) s ∧ s.pc = .exited ∧ allocatedFor s.alloc s.peer = 0 ∧ held s = 0 ∧
      otherRun 100 pickMin (init 0 1 (2^30) (2^30)) 0 [.env (.alloc 0 1000 100), .shutdown, .run false] = 1000 ∧
      otherRun 100 pickMin (init 0 1 (2^30) (2^30)) 0 [.env (.alloc 0 1000 100), .shutdown, .run false, .ack true] = 0 :=
  ⟨runActs pickMin (init 0 1 (2^30) (2^30)) [.env (.alloc 0 1000 100), .shutdown, .run false, .ack true],
    ⟨_, rfl⟩, by decide, by decide, by decide, by decide, by decide⟩

/-! ## non-vacuity and tests -/

/-- non-vacuity of `overlap_episode_partial` / `overlap_idle_partial`: peer limit 3000; this queue has
    1000 bytes in flight; the other queue reserves 1200 (granted) and 2000 (has to wait:
    1000 + 1200 + 2000 > 3000), another peer allocates, the other queue releases its 1200 and the
    release lets its waiting 2000 through: 3000 accounted = 1000 (this queue) + 2000 (the other). -/
example : ∃ s ops, SoloReachable pickMin 0 1 (2^30) 3000 s ∧ s.nextTicket ≤ 100 ∧
    overlapOps 100 pickMin s 0 ops = true ∧ heldInFlight s = 1000 ∧
    otherOps 100 pickMin s 0 (ops.take 3) = 1200 ∧
    forT 100 (pendTA (runActs pickMin s ((ops.take 3).map Act.env)).alloc 0) = [(101, 2000)] ∧
    otherOps 100 pickMin s 0 ops = 2000 ∧
    allocatedFor (runActs pickMin s (ops.map Act.env)).alloc 0 = 3000 :=
  ⟨runActs pickMin (init 0 1 (2^30) 3000)
      [.build { who := .response, req := 0, sub := 0, items := [.block 1 1000 true] }, .run true, .ack true],
    [.alloc 0 1200 100, .alloc 7 10 3, .alloc 0 2000 101, .release 0 1200],
    ⟨_, by decide, by decide, rfl⟩, by decide, by decide, by decide, by decide, by decide, by decide, by decide⟩

/-- non-vacuity of `overlap_then_solo_partial`: the same episode, then the other queue releases its 2000
    bytes too (`o = 0`, nothing of it waits); this queue's message is sent and a new one is built. -/
example : ∃ s ops acts, SoloReachable pickMin 0 1 (2^30) 3000 s ∧ s.nextTicket ≤ 100 ∧
    overlapOps 100 pickMin s 0 ops = true ∧ otherOps 100 pickMin s 0 ops = 0 ∧
    forT 100 (pendTA (runActs pickMin s (ops.map Act.env)).alloc 0) = [] ∧
    soloFrom pickMin (runActs pickMin s (ops.map Act.env)) acts = true ∧
    cleanFrom pickMin (runActs pickMin s (ops.map Act.env)) acts = true ∧
    allocatedFor (runActs pickMin (runActs pickMin s (ops.map Act.env)) acts).alloc 0 = 700 :=
  ⟨runActs pickMin (init 0 1 (2^30) 3000)
      [.build { who := .response, req := 0, sub := 0, items := [.block 1 1000 true] }, .run true, .ack true],
    [.alloc 0 1200 100, .alloc 7 10 3, .alloc 0 2000 101, .release 0 1200, .release 0 2000],
    [.ack true, .build { who := .response, req := 1, sub := 1, items := [.block 2 700 true] }],
    ⟨_, by decide, by decide, rfl⟩, by decide, by decide, by decide, by decide, by decide, by decide, by decide⟩

/-- TEST (two sample runs; the theorem is `exactly_once_overlap_partial`): this queue's own steps interleaved
    with the other queue's; after every prefix `AllocatedForPeer p = held + o` with the replayed ghost. -/
def ledgerTrace (B : Nat) (pick : Pick) : MQ.State → Nat → List Act → List Bool
  | s, o, [] => [allocatedFor s.alloc s.peer == held s + o]
  | s, o, a :: r => (allocatedFor s.alloc s.peer == held s + o) :: ledgerTrace B pick (step pick s a) (otherAct B pick s o a) r

def sampleTx (r sz : Nat) : Tx := { who := .response, req := r, sub := r, items := [.block (r + 1) sz true] }

def sampleRun1 : List Act :=
  [.build (sampleTx 0 1000), .env (.alloc 0 1500 100), .run true, .ack true, .build (sampleTx 1 1000),
   .env (.alloc 0 800 101), .ack true, .wake 1, .env (.release 0 1500), .run true, .ack true, .ack true,
   .env (.release 0 800), .shutdown, .run false, .ack true]

def sampleRun2 : List Act :=
  [.env (.alloc 0 2500 100), .build (sampleTx 0 1000), .env (.alloc 0 400 101), .env (.alloc 1 5 7),
   .env (.release 0 2500), .wake 0, .run true, .ack true, .ack true, .build (sampleTx 1 2900),
   .env (.alloc 0 200 102), .ack true, .ack false, .shutdown, .run false, .ack true]

example : (ledgerTrace 100 pickMin (init 0 1 (2^30) 3000) 0 sampleRun1).all id = true ∧
    overlapFrom 100 pickMin (init 0 1 (2^30) 3000) 0 sampleRun1 = true ∧
    (ledgerTrace 100 pickMin (init 0 1 (2^30) 3000) 0 sampleRun2).all id = true ∧
    overlapFrom 100 pickMin (init 0 1 (2^30) 3000) 0 sampleRun2 = true := by
  refine ⟨by decide, by decide, by decide, by decide⟩

/-- non-vacuity of `exactly_once_overlap_partial`: a prefix of `sampleRun1` — this queue has a message in
    flight (1000) and a caller waiting, the other queue holds 1500 and has 800 waiting: 2500 = 1000 + 1500;
    and the whole run (this queue's exit included) satisfies the schedule assumptions. -/
example : ∃ s o, OverlapReachable 100 pickMin 0 1 (2^30) 3000 s o ∧ s.pc ≠ .exited ∧ heldInFlight s = 1000 ∧
    s.waiters.length = 1 ∧ o = 1500 ∧ allocatedFor s.alloc s.peer = 2500 :=
  ⟨runActs pickMin (init 0 1 (2^30) 3000) (sampleRun1.take 6),
    otherRun 100 pickMin (init 0 1 (2^30) 3000) 0 (sampleRun1.take 6),
    ⟨_, by decide, by decide, rfl, rfl⟩, by decide, by decide, by decide, by decide, by decide⟩

example : ∃ s o, OverlapReachable 100 pickMin 0 1 (2^30) 3000 s o ∧ s.pc = .exited ∧ o = 0 :=
  ⟨_, _, ⟨sampleRun1, by decide, by decide, rfl, rfl⟩, by decide, by decide⟩

/-- the new assumption is weaker than `SoloReachable`'s (sample): the solo run of C15.lean's non-vacuity
    example satisfies `overlapFrom` for any `B` above its number of builds, with ghost 0 -/
example : soloFrom pickMin (init 0 1 (2^30) 700000)
      [.build (sampleTx 0 1000), .run true, .ack true, .build (sampleTx 1 600000), .build (sampleTx 0 300000)] = true ∧
    overlapFrom 3 pickMin (init 0 1 (2^30) 700000) 0
      [.build (sampleTx 0 1000), .run true, .ack true, .build (sampleTx 1 600000), .build (sampleTx 0 300000)] = true ∧
    otherRun 3 pickMin (init 0 1 (2^30) 700000) 0
      [.build (sampleTx 0 1000), .run true, .ack true, .build (sampleTx 1 600000), .build (sampleTx 0 300000)] = 0 := by
  refine ⟨by decide, by decide, by decide⟩

end GS.C15
