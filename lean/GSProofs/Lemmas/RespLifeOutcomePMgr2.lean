import GSProofs.Lemmas.RespLifeOutcomePMgr
/-!
Outcome accounting, part 3: `Places` under registration, StartTask / FinishTask / GetUpdates, the publisher's
calls, the parked manager and every step.
-/
namespace GS.RespLife

variable {r : Id} {okP : Peer → Prop} {okI : Nat → Prop}

-- ------------------------------------------------------------------ `nextInc` only changes at `insertResp`
theorem nextInc_grantTo (s : State) (party : Party) : (grantTo s party).nextInc = s.nextInc := by
  cases party <;> rfl

theorem nextInc_grantLoop (fuel : Nat) (s : State) (p : Peer) : (grantLoop fuel s p).nextInc = s.nextInc := by
  induction fuel generalizing s with
  | zero => rfl
  | succ n ih =>
    unfold grantLoop
    split
    · rfl
    · split
      · rw [ih, nextInc_grantTo]; rfl
      · rfl

theorem nextInc_release (s : State) (p : Peer) (n : Nat) : (release s p n).nextInc = s.nextInc := by
  unfold release
  simp only
  rw [nextInc_grantLoop]; rfl

theorem nextInc_buildNow (s : State) (party : Party) (p : Peer) (id : Id) (ops : List TxOp) :
    (buildNow s party p id ops).nextInc = s.nextInc := by
  unfold buildNow
  simp only
  split
  · split
    · exact nextInc_release s p _
    · rfl
  · rfl

theorem nextInc_execTx (s : State) (party : Party) (p : Peer) (id : Id) (ops : List TxOp) :
    (execTx s party p id ops).1.nextInc = s.nextInc := by
  unfold execTx
  split
  · rfl
  · simp only
    split
    · exact nextInc_buildNow s party p id ops
    · unfold tryAlloc
      split
      · simp only [if_true]; rw [nextInc_buildNow]; rfl
      · rfl

-- ------------------------------------------------------------------ registration
theorem pl_newReqFinish {s : State} (h : Places r okP okI s) (p : Peer) (id : Id) (cfg : ReqCfg) (hp : s.park = none)
    (hreg : id = r → okP p ∧ okI s.nextInc) : Places r okP okI (newReqFinish s p id cfg) := by
  unfold newReqFinish
  split
  · exact h.onInsertResp _ hp hreg
  · exact h.onInsertResp _ hp hreg
  · exact h.onInsertResp _ hp hreg
  · have hpp : (pushTask s p id cfg.pri).park = none := by rw [park_pushTask]; exact hp
    refine (pl_pushTask h p id cfg.pri (fun e => (hreg e).1)).onInsertResp _ hpp ?_
    have : (pushTask s p id cfg.pri).nextInc = s.nextInc := by
      unfold pushTask; simp only; split
      · rfl
      · split <;> rfl
    rw [this]; exact hreg

theorem pl_newRequest {s : State} (h : Places r okP okI s) (p : Peer) (id : Id) (cfg : ReqCfg) (hp : s.park = none)
    (hreg : id = r → okP p ∧ okI s.nextInc ∧ lookup s r = none) : Places r okP okI (newRequest s p id cfg) := by
  unfold newRequest
  simp only
  have h2 : Places r okP okI (openStream (protect s p id) id) := h.of_same rfl rfl rfl rfl rfl rfl
  have hp2 : (openStream (protect s p id) id).park = none := hp
  have hx := h2.execTx .mgr p id (prepareOps cfg.hook) (by
    intro hid
    obtain ⟨a, b, c⟩ := hreg hid
    have hl : lookup (openStream (protect s p id) id) id = none := by rw [hid]; exact c
    rw [incOf_mgr_none hl]
    exact ⟨a, b⟩)
  have hpx := park_execTx_none hp2 .mgr p id (prepareOps cfg.hook)
  have hnx : (execTx (openStream (protect s p id) id) .mgr p id (prepareOps cfg.hook)).1.nextInc = s.nextInc :=
    nextInc_execTx _ _ _ _ _
  have htx : (execTx (openStream (protect s p id) id) .mgr p id (prepareOps cfg.hook)).1.table = s.table :=
    table_execTx _ _ _ _ _
  generalize execTx (openStream (protect s p id) id) .mgr p id (prepareOps cfg.hook) = pr at hx hpx hnx htx
  obtain ⟨s3, ok⟩ := pr
  simp only at hx hpx hnx htx ⊢
  split
  · exact pl_newReqFinish hx p id cfg hpx (fun e => by rw [hnx]; exact ⟨(hreg e).1, (hreg e).2.1⟩)
  · apply hx.onParkMgr
    · intro hid hn
      subst hid
      exact absurd rfl (hn p cfg)
    · intro p' cfg' e
      simp only [MgrCont.newReq.injEq] at e
      obtain ⟨e1, e2, e3⟩ := e
      subst e1; subst e2
      obtain ⟨a, b, c⟩ := hreg rfl
      exact ⟨rfl, rfl, a, by rw [hnx]; exact b, by rw [lookup_of_table htx]; exact c⟩

-- ------------------------------------------------------------------ StartTask / FinishTask / GetUpdates
theorem pl_retireWorker {s : State} (h : Places r okP okI s) (w : Nat) (p : Peer) (id : Id) :
    Places r okP okI (setPhase (taskDone s p id) w .done) := by
  refine Places.onSetWorker (pl_taskDone h p id) w _ ?_ ?_
  · intro _; exact ⟨rfl, rfl⟩
  · intro x _ _ _ hd
    exact absurd rfl hd

theorem pl_startTask {s : State} (h : Places r okP okI s) (w : Nat) : Places r okP okI (startTask s w) := by
  unfold startTask
  split
  · exact h
  · rename_i wk hw
    split
    · exact pl_retireWorker h w _ _
    · rename_i x hl
      have hxid : x.id = wk.id := (lookup_some hl).2
      split
      · exact pl_retireWorker h w _ _
      · simp only
        generalize hs1 : (if x.aux.started = true then s else emit s (.proc x.id)) = s1
        have hc1 : Places r okP okI s1 := by
          rw [← hs1]; split
          · exact h
          · exact pl_emit h _
        have hw1 : s1.workers = s.workers := by rw [← hs1]; split <;> rfl
        refine Places.onSetWorker ((hc1.onModAux x.id _).onSetState x.id .running) w _ ?_ ?_
        · intro _; exact ⟨rfl, rfl⟩
        · intro y hy hid _ _
          show okI x.inc
          have hy' : s.workers[w]? = some y := by rw [← hw1]; exact hy
          unfold workerOf at hw
          rw [hw] at hy'
          simp only [Option.some.injEq] at hy'
          subst hy'
          exact (h.tbl x (by rw [← hid]; exact hl)).2

theorem pl_finishTask {s : State} (h : Places r okP okI s) (w : Nat) (err : Option WErr) (hp : s.park = none) :
    Places r okP okI (finishTask s w err) := by
  unfold finishTask
  split
  · exact h
  · rename_i wk hw
    have h1 := pl_retireWorker h w wk.peer wk.id
    have hp1 : (setPhase (taskDone s wk.peer wk.id) w .done).park = none := by rw [park_retire]; exact hp
    simp only
    generalize setPhase (taskDone s wk.peer wk.id) w .done = s1 at h1 hp1
    split
    · exact h1
    · rename_i x hl
      have hxid : x.id = wk.id := (lookup_some hl).2
      rw [← hxid] at hl
      split
      · split
        · exact pl_pushTask h1 x.peer x.id _ (fun e => (okP_of_lookup h1 hl e).1)
        · exact h1
      · split
        · exact pl_terminate h1 x.id hp1
        · split
          · exact h1.onSetState _ _
          · split
            · exact pl_terminate (pl_emit h1 _) x.id hp1
            · split
              · exact pl_terminate h1 x.id hp1
              · exact h1.onSetState _ _

theorem pl_getUpdates {s : State} (h : Places r okP okI s) (w : Nat) : Places r okP okI (getUpdates s w) := by
  unfold getUpdates
  split
  · exact h
  · rename_i wk hw
    have hwsg : wsg s w = some (wk.id, wk.peer, wk.inc) := by
      unfold workerOf at hw; simp [wsg, hw]
    split
    · rename_i ops present hph
      have hok : wk.id = r → okI wk.inc := by
        intro hid
        unfold workerOf at hw
        exact (h.wk w wk hw hid).2 (by rw [hph]; simp) (by rw [hph]; simp)
      split
      · exact h.setPhaseW w _ hwsg hok
      · rename_i x hl
        exact (h.onModAux x.id _).setPhaseW w _ hwsg hok
    · exact h

-- ------------------------------------------------------------------ publisher calls
theorem pl_clearPubWait {s : State} (h : Places r okP okI s) (p : Peer) : Places r okP okI (clearPubWait s p) := by
  unfold clearPubWait
  simp only
  exact h.updMQ_same p (fun q => { q with pubWait := false }) (fun _ => rfl) (fun _ => rfl) (fun _ => rfl) (fun _ => rfl)

theorem pl_dropNerr {s : State} (h : Places r okP okI s) (p : Peer) (id : Id) : Places r okP okI (dropNerr s p id) := by
  unfold dropNerr
  simp only
  apply h.onSetMQ
  · intro e he hid
    show okP (getMQ s p).peer ∧ _
    rw [getMQ_peer]
    exact h.bld p e he hid
  · intro st hst hid
    show okP (getMQ s p).peer ∧ _
    rw [getMQ_peer]
    exact h.pub p st (List.mem_of_mem_erase hst) hid

-- ------------------------------------------------------------------ one mailbox message
theorem pl_handle {s : State} (h : Places r okP okI s) (m : Msg) (hp : s.park = none)
    (hnew : ∀ p id cfg, m = .processRequests p (.new id cfg) → foreign s p id = false → id = r →
      okP p ∧ okI s.nextInc ∧ lookup s r = none) : Places r okP okI (handle s m) := by
  cases m with
  | processRequests p q =>
    show Places r okP okI (if foreign s p q.id = true then s else processRequest s p q)
    split
    · exact h
    · rename_i hf
      cases q with
      | new id cfg => exact pl_newRequest h p id cfg hp (hnew p id cfg rfl (by simpa [ReqMsg.id] using hf))
      | cancel id => exact pl_abortRequest h id .ctxCancel hp
      | update id plan => exact pl_processUpdate h id plan hp
  | api c =>
    cases c with
    | pause id =>
      show Places r okP okI (emit (pauseRequest s id).1 _)
      exact pl_emit (pl_pauseRequest h id) _
    | unpause id ext =>
      show Places r okP okI (if (unpauseRequest s id ext).2.2 = true then (unpauseRequest s id ext).1
        else emit (unpauseRequest s id ext).1 _)
      split
      · exact pl_unpauseRequest h id ext hp
      · exact pl_emit (pl_unpauseRequest h id ext hp) _
    | cancel id =>
      show Places r okP okI (emit (abortRequest s id .cancelCmd).1 _)
      exact pl_emit (pl_abortRequest h id .cancelCmd hp) _
    | update id ext =>
      show Places r okP okI (if (updateRequest s id ext).2.2 = true then (updateRequest s id ext).1
        else emit (updateRequest s id ext).1 _)
      split
      · exact pl_updateRequest h id ext
      · exact pl_emit (pl_updateRequest h id ext) _
  | startTask w => exact pl_startTask h w
  | getUpdates w => exact pl_getUpdates h w
  | finishTask w err => exact pl_finishTask h w err hp
  | closeNetErr id inc pub =>
    rw [handle_closeNetErr]
    split
    · split
      · exact pl_clearPubWait (pl_abortRequest h id .network hp) pub
      · exact pl_dropNerr (pl_clearPubWait (pl_abortRequest h id .network hp) pub) pub id
    · exact pl_dropNerr (pl_clearPubWait h pub) pub id
  | terminate id inc pub =>
    rw [handle_terminate]
    split
    · exact pl_clearPubWait (pl_terminate h id hp) pub
    · exact pl_clearPubWait h pub

-- ------------------------------------------------------------------ the parked manager continues
theorem pl_resumeMgr {s : State} (h : Places r okP okI s) (pk : MgrPark) (hpk : s.park = some pk) :
    Places r okP okI (resumeMgr s pk) := by
  unfold resumeMgr
  simp only
  obtain ⟨hk1, hk2⟩ := h.park pk hpk
  have h0 : Places r okP okI { s with park := none } := h.unpark
  have hb := h0.buildNow .mgr pk.peer pk.id pk.ops (by
    intro hid
    by_cases hn : ∀ p cfg, pk.cont ≠ .newReq p r cfg
    · obtain ⟨a, b⟩ := hk1 hid hn
      cases hl : lookup s r with
      | none => rw [hl] at b; cases b
      | some x =>
        have hl' : lookup ({ s with park := none } : State) pk.id = some x := by rw [hid]; exact hl
        rw [incOf_mgr_some hl']
        exact ⟨a, (h.tbl x hl).2⟩
    · have hn' : ∃ p cfg, pk.cont = .newReq p r cfg := by
        apply Classical.byContradiction
        intro hc
        exact hn (fun p cfg e => hc ⟨p, cfg, e⟩)
      obtain ⟨p, cfg, hc⟩ := hn'
      obtain ⟨_, hpp, a, b, c⟩ := hk2 p cfg hc
      have hl' : lookup ({ s with park := none } : State) pk.id = none := by rw [hid]; exact c
      rw [incOf_mgr_none hl', hpp]
      exact ⟨a, b⟩)
  have hp1 : (buildNow { s with park := none } .mgr pk.peer pk.id pk.ops).park = none :=
    pcore_none_of_pi_eq (pi_buildNow _ _ _ _ _) rfl
  have hn1 : (buildNow { s with park := none } .mgr pk.peer pk.id pk.ops).nextInc = s.nextInc :=
    nextInc_buildNow _ _ _ _ _
  generalize buildNow { s with park := none } .mgr pk.peer pk.id pk.ops = s1 at hb hp1 hn1
  cases hc : pk.cont with
  | newReq p id cfg =>
    simp only
    apply pl_newReqFinish hb p id cfg hp1
    intro hid
    subst hid
    rw [hn1]
    obtain ⟨_, _, a, b, _⟩ := hk2 p cfg hc
    exact ⟨a, b⟩
  | procUpdate id plan => exact pl_procUpdateFinish hb id plan hp1
  | unpause id ext => exact pl_emit (pl_unpauseFinish hb id) _
  | update id ext => exact pl_emit hb _

end GS.RespLife
