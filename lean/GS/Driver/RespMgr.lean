import GS.Model.RespMgr
import GS.Driver.Proto
/-! line-protocol driver for the response-manager model (component `respmgr`, property C10).

ops:   msg <q> <tok>…        tok = n:<id>:<total>:<rh ok|pa|rj|er>:<bh n|x<i>|p<i>|e<i>>  |  c:<id>  |  u:<id>:<uh n|x|e|u>
       start <p> <id> | step <p> <id> | pause <id> | unpause <id> | cancelresp <id> | updateresp <id>
       sent <p> <j> | neterr <p> <j>      (j-th stream created for peer p)
       neterrw <p> <j> <q> <tok>…   network error; a message from q arrives between the subscriber's CloseWithNetworkError and TerminateRequest
output (one line per op):
       <res> tx=[p#j:op,…] cm=[±p.id,…] hk=[rq.p.id|up.p.id|bk.p.id.i,…] ls=[pr.p.id|ca.p.id|co.p.id.code|ne.p.id,…]
       q=[+p.id|-p.id|xp.id,…] st=[p{id=s,…} … pend=[p.id,…] act=[p.id,…]]
-/
namespace GS.Driver.RespMgr
open GS.Proto GS.RespMgr

def npeers : Nat := 3

def resStr : Res → String
  | .ok => "ok" | .notFound => "notfound" | .notPaused => "notpaused" | .alreadyPaused => "alreadypaused"
  | .noTask => "notask" | .emptyTask => "empty" | .running => "run" | .noExec => "noexec"
  | .atGate => "gate" | .finished => "fin"

def txStr : TxOp → String
  | .blk i => s!"b{i}" | .ext => "x" | .upd => "u" | .fin c => s!"f{c}" | .pause => "p" | .clear => "clr"

def stateStr : RState → String
  | .queued => "q" | .running => "r" | .paused => "p" | .completing => "c"

def sortPairs (xs : List (Nat × String)) : List (Nat × String) :=
  xs.foldl (fun acc x =>
    let (a, b) := acc.span (fun y => y.1 ≤ x.1)
    a ++ x :: b) []

def render (s : State) (evs : List Ev) (res : Res) : String :=
  let ordinal (p k : Nat) : Nat := ((streamsOf s p).takeWhile (· != k)).length
  let tx := evs.filterMap fun | .tx k p _ op => some s!"{p}#{ordinal p k}:{txStr op}" | _ => none
  let cm := evs.filterMap fun | .protect p r => some s!"+{p}.{r}" | .unprotect p r => some s!"-{p}.{r}" | _ => none
  let hk := evs.filterMap fun
    | .hookReq p r => some s!"rq.{p}.{r}" | .hookUpd p r => some s!"up.{p}.{r}" | .hookBlk p r i => some s!"bk.{p}.{r}.{i}" | _ => none
  let ls := evs.filterMap fun
    | .lProcessing p r => some s!"pr.{p}.{r}" | .lCancelled p r => some s!"ca.{p}.{r}"
    | .lCompleted p r c => some s!"co.{p}.{r}.{c}" | .lNetErr p r => some s!"ne.{p}.{r}" | _ => none
  let q := evs.filterMap fun
    | .push p r => some s!"+{p}.{r}" | .taskDone p r => some s!"-{p}.{r}" | .remove p r => some s!"x{p}.{r}" | _ => none
  let peers := (List.range npeers).map fun p =>
    let rs := sortPairs ((peerState s p).map fun x => (x.1, stateStr x.2))
    s!"{p}\{{joinWith "," (rs.map fun x => s!"{x.1}={x.2}")}}"
  let pend := s.pending.map fun x => s!"{x.1}.{x.2}"
  let act := s.active.map fun x => s!"{x.1}.{x.2}"
  s!"{resStr res} tx=[{joinWith "," tx}] cm=[{joinWith "," cm}] hk=[{joinWith "," hk}] ls=[{joinWith "," ls}] q=[{joinWith "," q}] st=[{joinWith " " peers} pend=[{joinWith "," pend}] act=[{joinWith "," act}]]"

def parseBh (t : String) : Option BlkHook :=
  if t == "n" then some .none
  else
    let k := t.take 1
    match (t.drop 1).toNat? with
    | some i =>
      if k == "x" then some (.extAt i) else if k == "p" then some (.pauseAt i) else if k == "e" then some (.errAt i) else none
    | none => none

def parseReq (tok : String) : Option Request :=
  match tok.splitOn ":" with
  | ["n", id, total, rh, bh] =>
    match id.toNat?, total.toNat?, parseBh bh with
    | some id, some total, some bh =>
      let rh? : Option ReqHook :=
        if rh == "ok" then some .ok else if rh == "pa" then some .paused
        else if rh == "rj" then some .reject else if rh == "er" then some .err else none
      match rh? with
      | some rh => if total ≥ 1 then some { typ := .new, id, total, rh, bh } else none
      | none => none
    | _, _, _ => none
  | ["c", id] => id.toNat?.map fun id => { typ := .cancel, id }
  | ["u", id, uh] =>
    match id.toNat? with
    | some id =>
      let uh? : Option UpdHook :=
        if uh == "n" then some .none else if uh == "x" then some .ext
        else if uh == "e" then some .err else if uh == "u" then some .unpause else none
      uh?.map fun uh => { typ := .update, id, uh }
    | none => none
  | _ => none

def parseReqs : List String → Option (List Request)
  | [] => some []
  | t :: ts =>
    match parseReq t, parseReqs ts with
    | some r, some rs => some (r :: rs)
    | _, _ => none

def parseOp (t : Toks) : Option Op :=
  match t with
  | "msg" :: q :: rest =>
    match q.toNat?, parseReqs rest with
    | some q, some rs => if q < npeers then some (.msg q rs) else none
    | _, _ => none
  | ["start", p, id] => match p.toNat?, id.toNat? with
    | some p, some id => some (.start p id) | _, _ => none
  | ["step", p, id] => match p.toNat?, id.toNat? with
    | some p, some id => some (.step p id) | _, _ => none
  | ["pause", id] => id.toNat?.map .pauseResp
  | ["unpause", id] => id.toNat?.map .unpauseResp
  | ["cancelresp", id] => id.toNat?.map .cancelResp
  | ["updateresp", id] => id.toNat?.map .updateResp
  | ["sent", p, j] => match p.toNat?, j.toNat? with
    | some p, some j => some (.sent p j) | _, _ => none
  | ["neterr", p, j] => match p.toNat?, j.toNat? with
    | some p, some j => some (.neterr p j) | _, _ => none
  | "neterrw" :: p :: j :: q :: rest =>
    match p.toNat?, j.toNat?, q.toNat?, parseReqs rest with
    | some p, some j, some q, some rs => if q < npeers then some (.neterrInj p j q rs) else none
    | _, _, _, _ => none
  | _ => none

def handler (ops : List Toks) : List String :=
  let (_, outs) := ops.foldl (fun (acc : State × List String) t =>
    match parseOp t with
    | none => (acc.1, "bad-op" :: acc.2)
    | some op =>
      let r := step acc.1 op
      (r.1, render r.1 r.2.1 r.2.2 :: acc.2)) (({} : State), [])
  outs.reverse

end GS.Driver.RespMgr

def main : IO Unit := GS.Proto.runModel GS.Driver.RespMgr.handler
