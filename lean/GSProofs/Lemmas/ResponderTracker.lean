import GS.Model.Responder
/-!
Lemmas for C03, part 1: how the link tracker operations used by one request (`dedupKey`,
`ignoreBlocks`, `skipFirstBlocks`, `traverse`, `finishTracking`) act on that request's *view* of the
peer's tracker:

  cnt   p r   = blockSentCount[r]
  skipOf p r  = skipFirstBlocks[r]
  rcOf  p r c = BlockRefCount(c) in the tracker of r's dedup scope
  missOf p r  = r has a missingBlocks entry in that tracker
-/
namespace GS.C03L
open GS.LinkTrack GS.Responder

/-! ### association lists -/

theorem aget_aerase {β : Type} (m : List (Nat × β)) (k k' : Nat) :
    aget (aerase m k) k' = if k = k' then none else aget m k' := by
  induction m with
  | nil => simp [aerase, aget]
  | cons e t ih =>
    obtain ⟨a, v⟩ := e
    simp only [aerase, List.filter] at ih ⊢
    by_cases hak : a = k
    · subst hak
      simp only [bne_self_eq_false, aget]
      rw [ih]
      by_cases h : a = k' <;> simp [h]
    · have : (a != k) = true := by simp [hak]
      simp only [this, aget]
      rw [ih]
      by_cases h : a = k'
      · subst h
        simp [Ne.symm hak]
      · simp [h]

theorem aget_aset {β : Type} (m : List (Nat × β)) (k : Nat) (v : β) (k' : Nat) :
    aget (aset m k v) k' = if k = k' then some v else aget m k' := by
  simp only [aset, aget, aget_aerase]
  by_cases h : k = k' <;> simp [h]

/-! ### the view of one request -/

def cnt (p : PeerTracker) (r : Req) : Nat := (aget p.sentCount r).getD 0
def skipOf (p : PeerTracker) (r : Req) : Int := (aget p.skipFirst r).getD 0
def rcOf (p : PeerTracker) (r : Req) (c : Cid) : Nat := (p.trackerOf r).blockRefCount c
def missOf (p : PeerTracker) (r : Req) : Bool := (aget (p.trackerOf r).missing r).isSome

theorem trackerOf_setTracker (p : PeerTracker) (r : Req) (t : LinkTracker) :
    (p.setTracker r t).trackerOf r = t := by
  unfold PeerTracker.setTracker PeerTracker.trackerOf PeerTracker.setScopeTracker PeerTracker.scopeTracker
  cases h : aget p.dedupKeys r with
  | none => simp [h]
  | some k => simp [h, aget_aset]

theorem setTracker_dedupKeys (p : PeerTracker) (r : Req) (t : LinkTracker) :
    (p.setTracker r t).dedupKeys = p.dedupKeys := by
  unfold PeerTracker.setTracker PeerTracker.setScopeTracker
  cases aget p.dedupKeys r <;> rfl

theorem setTracker_sentCount (p : PeerTracker) (r : Req) (t : LinkTracker) :
    (p.setTracker r t).sentCount = p.sentCount := by
  unfold PeerTracker.setTracker PeerTracker.setScopeTracker
  cases aget p.dedupKeys r <;> rfl

theorem setTracker_skipFirst (p : PeerTracker) (r : Req) (t : LinkTracker) :
    (p.setTracker r t).skipFirst = p.skipFirst := by
  unfold PeerTracker.setTracker PeerTracker.setScopeTracker
  cases aget p.dedupKeys r <;> rfl

/-! ### LinkTracker.record -/

theorem record_refcount (t : LinkTracker) (r : Req) (l : Link) (b : Bool) (c : Cid) :
    (t.record r l b).blockRefCount c = t.blockRefCount c + (if b && c == l then 1 else 0) := by
  cases b with
  | false => simp [LinkTracker.record, LinkTracker.blockRefCount]
  | true =>
    simp only [LinkTracker.record, LinkTracker.blockRefCount, if_true, aget_aset, Bool.true_and]
    by_cases h : l = c
    · subst h; simp
    · have : (c == l) = false := by simp [Ne.symm h]
      simp [h, this]

theorem record_missing (t : LinkTracker) (r : Req) (l : Link) (b : Bool) :
    (aget (t.record r l b).missing r).isSome = ((aget t.missing r).isSome || !b) := by
  cases b with
  | true => simp [LinkTracker.record]
  | false => simp [LinkTracker.record, aget_aset]

/-! ### PeerTracker.traverse -/

section traverse
variable (p : PeerTracker) (r : Req) (c : Cid) (b : Bool)

theorem traverse_idx : (p.traverse r c b).2.2 = cnt p r + 1 := by
  simp [PeerTracker.traverse, cnt]

theorem traverse_send :
    (p.traverse r c b).2.1 = (b && decide (skipOf p r < ((cnt p r + 1 : Nat) : Int)) && (rcOf p r c == 0)) := by
  cases h : aget p.dedupKeys r <;>
    simp [PeerTracker.traverse, cnt, skipOf, rcOf, PeerTracker.trackerOf, PeerTracker.scopeTracker, h] <;> rfl

theorem traverse_dedupKeys : (p.traverse r c b).1.dedupKeys = p.dedupKeys := by
  simp [PeerTracker.traverse, setTracker_dedupKeys]

theorem traverse_cnt : cnt (p.traverse r c b).1 r = cnt p r + 1 := by
  simp [PeerTracker.traverse, cnt, setTracker_sentCount, aget_aset]

theorem traverse_skip : skipOf (p.traverse r c b).1 r = skipOf p r := by
  simp [PeerTracker.traverse, skipOf, setTracker_skipFirst]

theorem traverse_tracker :
    (p.traverse r c b).1.trackerOf r = (p.trackerOf r).record r c b := by
  simp only [PeerTracker.traverse]
  rw [trackerOf_setTracker]
  rfl

theorem traverse_rc (c' : Cid) :
    rcOf (p.traverse r c b).1 r c' = rcOf p r c' + (if b && c' == c then 1 else 0) := by
  simp only [rcOf, traverse_tracker, record_refcount]

theorem traverse_miss : missOf (p.traverse r c b).1 r = (missOf p r || !b) := by
  simp only [missOf, traverse_tracker, record_missing]

end traverse

/-! ### finishTracking -/

theorem finishTracking_all (p : PeerTracker) (r : Req) : (p.finishTracking r).2 = !missOf p r := by
  simp only [PeerTracker.finishTracking, missOf, LinkTracker.finishRequest]
  cases h : aget (p.trackerOf r).missing r <;>
    cases h2 : aget (p.trackerOf r).linksByReq r <;> simp

end GS.C03L
