import GSProofs.Lemmas.MsgQueueLive7
/-!
# Message queue: the goroutine ends (and runs `onShutdown`) in exactly one kind of step, at most once
-/
namespace GS.MQ
open GS.Alloc

theorem run_ne_exited (pick : Pick) (s : State) (pw : Bool) (h : s.pc ≠ .exited) : (s.run pick pw).pc ≠ .exited := by
  obtain ⟨peer, maxRetries, builders, nextTopic, token, done, sender, pc, closedStreams, waiters,
    nextTicket, topics, pubClosed, alloc, log⟩ := s
  cases pc with
  | idle =>
    unfold State.run
    simp only
    split
    · cases he : (⟨peer, maxRetries, builders, nextTopic, false, done, sender, .idle, closedStreams, waiters,
          nextTicket, topics, pubClosed, alloc, log⟩ : State).extract with
      | mk s1 om =>
        cases om with
        | none =>
          show s1.pc ≠ _
          rw [extract_pc he]; simp
        | some m =>
          show (if (s1.publish m.topic Kind.queued).sender = true then _ else _ : State).pc ≠ _
          split
          · rcases attempt_pc pick (s1.publish m.topic Kind.queued) m 0 with h1 | h1 <;> rw [h1] <;> simp
          · simp
    · split
      · simp
      · simp
  | opening m r => exact h
  | sending m i => exact h
  | resetting m i => exact h
  | exiting => exact h
  | exited => exact absurd rfl h

theorem ack_ne_exited (pick : Pick) (s : State) (ok : Bool) (h1 : s.pc ≠ .exited) (h2 : s.pc ≠ .exiting) :
    (s.ack pick ok).pc ≠ .exited := by
  unfold State.ack
  cases hp : s.pc with
  | idle => simp only; rw [hp]; simp
  | exited => exact absurd hp h1
  | exiting => exact absurd hp h2
  | opening m r =>
    cases r with
    | none =>
      simp only; split
      · rcases attempt_pc pick _ m 0 with h | h <;> rw [h] <;> simp
      · simp [State.finish]
    | some i =>
      simp only; split
      · rcases attempt_pc pick _ m (i + 1) with h | h <;> rw [h] <;> simp
      · simp [State.finish]
  | sending m i => simp only; split <;> simp [State.finish]
  | resetting m i => simp only; split <;> simp [State.finish]

/-- `exited` is absorbing -/
theorem exited_absorbing (pick : Pick) (s : State) (a : Act) (h : s.pc = .exited) : (step pick s a).pc = .exited := by
  cases a with
  | build tx => show (s.build pick tx).pc = _; rw [build_pc]; exact h
  | wake t => show (s.wake pick t).pc = _; rw [wake_pc]; exact h
  | run pw => show (s.run pick pw).pc = _; rw [run_exited _ _ _ h]; exact h
  | ack ok => show (s.ack pick ok).pc = _; rw [ack_exited _ _ _ h]; exact h
  | shutdown => exact h
  | env op => exact h

/-- the goroutine ends only in the deferred function of `runQueue` (the `ack` of `ReleasePeerMemory`
    at `exiting`), and that step runs the `onShutdown` callback: its last log entry is `exitCallback` -/
theorem exit_only_by_deferred (pick : Pick) (s : State) (a : Act) (h : s.pc ≠ .exited)
    (h' : (step pick s a).pc = .exited) :
    s.pc = .exiting ∧ (∃ ok, a = .ack ok) ∧ ∃ l, (step pick s a).log = l ++ [Event.exitCallback] := by
  cases a with
  | build tx => exact absurd ((build_pc pick s tx).symm.trans h') h
  | wake t => exact absurd ((wake_pc pick s t).symm.trans h') h
  | run pw => exact absurd h' (run_ne_exited pick s pw h)
  | shutdown => exact absurd h' h
  | env op => exact absurd h' h
  | ack ok =>
    by_cases he : s.pc = .exiting
    · refine ⟨he, ⟨ok, rfl⟩, ?_⟩
      show ∃ l, (s.ack pick ok).log = l ++ [Event.exitCallback]
      unfold State.ack; rw [he]
      exact ⟨_, rfl⟩
    · exact absurd h' (ack_ne_exited pick s ok h he)

/-- **callback at most once**: along any schedule the goroutine is in `exited` from the first step that
    enters it on; so the step of `exit_only_by_deferred` occurs at most once -/
theorem exited_forever (pick : Pick) (s : State) (acts : List Act) (h : s.pc = .exited) :
    (runActs pick s acts).pc = .exited := by
  unfold runActs
  induction acts generalizing s with
  | nil => exact h
  | cons a r ih => exact ih _ (exited_absorbing pick s a h)

end GS.MQ
