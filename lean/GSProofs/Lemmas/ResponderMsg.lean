import GS.Model.Responder
/-!
Lemmas for C03, part 3: the message builder.  For a list of response operations in which a block is
only ever sent with the *first* present entry of its cid (`Good`), reading any message built from a
contiguous group of the operations back off the wire (`Msg.annotate`) recovers exactly the
operations' (cid, present, send) triples — whatever the batching.
-/
namespace GS.C03L
open GS.Responder

/-- the (cid, present, send) triples of the block operations. -/
def itemsOf : List ROp → List Item
  | [] => []
  | .block c b s _ :: ops => ⟨c, b, s⟩ :: itemsOf ops
  | .status _ :: ops => itemsOf ops

def entriesOf : List ROp → List (Cid × Bool)
  | [] => []
  | .block c b _ _ :: ops => (c, b) :: entriesOf ops
  | .status _ :: ops => entriesOf ops

def sends (c : Cid) : ROp → Bool
  | .block c' _ s _ => s && c' == c
  | .status _ => false

/-- a block operation sends only present blocks, and after a present entry of a cid no later
operation sends that cid. -/
def Good : List ROp → Prop
  | [] => True
  | .status _ :: ops => Good ops
  | .block c b s _ :: ops => (s = true → b = true) ∧ (b = true → ∀ op ∈ ops, sends c op = false) ∧ Good ops

theorem itemsOf_append (a b : List ROp) : itemsOf (a ++ b) = itemsOf a ++ itemsOf b := by
  induction a with
  | nil => rfl
  | cons op ops ih => cases op <;> simp [itemsOf, ih]

theorem itemsOf_flatten (g : List (List ROp)) : itemsOf g.flatten = (g.map itemsOf).flatten := by
  induction g with
  | nil => rfl
  | cons a g ih => simp [itemsOf_append, ih]

theorem Good_append {a b : List ROp} (h : Good (a ++ b)) : Good a ∧ Good b := by
  induction a with
  | nil => exact ⟨trivial, h⟩
  | cons op ops ih =>
    cases op with
    | status s => exact ih h
    | block c bb s i =>
      obtain ⟨h1, h2, h3⟩ := h
      obtain ⟨ga, gb⟩ := ih h3
      exact ⟨⟨h1, fun hb op hop => h2 hb op (List.mem_append_left _ hop), ga⟩, gb⟩

theorem Good_of_mem_flatten {g : List (List ROp)} (h : Good g.flatten) : ∀ a ∈ g, Good a := by
  induction g with
  | nil => intro a ha; cases ha
  | cons x g ih =>
    intro a ha
    simp only [List.flatten_cons] at h
    obtain ⟨hx, hg⟩ := Good_append h
    rcases List.mem_cons.mp ha with rfl | ha
    · exact hx
    · exact ih hg a ha

/-! ### what a builder holds after a list of operations -/

theorem foldl_entries (ops : List ROp) : ∀ m : Msg,
    (ops.foldl applyOp m).entries = m.entries ++ entriesOf ops := by
  induction ops with
  | nil => intro m; simp [entriesOf]
  | cons op ops ih =>
    intro m
    cases op <;> simp [List.foldl, ih, applyOp, entriesOf]

theorem foldl_blocks (ops : List ROp) (c : Cid) : ∀ m : Msg,
    (ops.foldl applyOp m).blocks.contains c = (m.blocks.contains c || ops.any (sends c)) := by
  induction ops with
  | nil => intro m; simp
  | cons op ops ih =>
    intro m
    show (ops.foldl applyOp (applyOp m op)).blocks.contains c = _
    rw [ih]
    cases op with
    | status s => simp [applyOp, sends]
    | block c' b s i =>
      cases s with
      | false => simp [applyOp, sends]
      | true =>
        by_cases hm : c' ∈ m.blocks
        · by_cases hcc : c' = c
          · subst hcc; simp [applyOp, sends, hm]
          · have hb : (c' == c) = false := by simp [hcc]
            simp [applyOp, sends, hm, hb]
        · by_cases hcc : c' = c
          · subst hcc; simp [applyOp, sends, hm]
          · have hcc' : ¬ c = c' := fun h => hcc h.symm
            have hb : (c' == c) = false := by simp [hcc]
            simp [applyOp, sends, hm, hb, hcc']

/-! ### reading a message back -/

theorem annotate_ops (bl : List Cid) (ops : List ROp) : ∀ seen : List Cid,
    (∀ c, bl.contains c = true → (c ∈ seen ∨ ∃ op ∈ ops, sends c op = true)) →
    (∀ op ∈ ops, ∀ c, sends c op = true → bl.contains c = true) →
    (∀ c ∈ seen, ∀ op ∈ ops, sends c op = false) →
    Good ops →
    annotateFrom bl seen (entriesOf ops) = itemsOf ops := by
  induction ops with
  | nil => intros; simp [entriesOf, itemsOf, annotateFrom]
  | cons op ops ih =>
    intro seen H1 H2 H3 H4
    cases op with
    | status st =>
      simp only [entriesOf, itemsOf]
      apply ih seen
      · intro c hc
        rcases H1 c hc with h | ⟨op, hop, hs⟩
        · exact Or.inl h
        · rcases List.mem_cons.mp hop with rfl | hop
          · simp [sends] at hs
          · exact Or.inr ⟨op, hop, hs⟩
      · exact fun op hop => H2 op (List.mem_cons_of_mem _ hop)
      · exact fun c hc op hop => H3 c hc op (List.mem_cons_of_mem _ hop)
      · exact H4
    | block c b s i =>
      obtain ⟨g1, g2, g3⟩ := H4
      cases b with
      | false =>
        have hs : s = false := by
          cases s with
          | false => rfl
          | true => exact absurd (g1 rfl) (by simp)
        subst hs
        simp only [entriesOf, itemsOf, annotateFrom]
        congr 1
        apply ih seen
        · intro c' hc
          rcases H1 c' hc with h | ⟨op, hop, hs⟩
          · exact Or.inl h
          · rcases List.mem_cons.mp hop with rfl | hop
            · simp [sends] at hs
            · exact Or.inr ⟨op, hop, hs⟩
        · exact fun op hop => H2 op (List.mem_cons_of_mem _ hop)
        · exact fun c hc op hop => H3 c hc op (List.mem_cons_of_mem _ hop)
        · exact g3
      | true =>
        simp only [entriesOf, itemsOf, annotateFrom]
        congr 1
        · -- the head item
          congr 1
          cases s with
          | true =>
            have hb : bl.contains c = true := H2 _ (List.mem_cons_self) c (by simp [sends])
            have hn : seen.contains c = false := by
              cases hsc : seen.contains c with
              | false => rfl
              | true =>
                have hmem : c ∈ seen := by simpa using hsc
                have := H3 c hmem _ (List.mem_cons_self)
                simp [sends] at this
            rw [hb, hn]; rfl
          | false =>
            cases hb : bl.contains c with
            | false => rfl
            | true =>
              rcases H1 c hb with h | ⟨op, hop, hs⟩
              · have : seen.contains c = true := by simpa using h
                rw [this]; rfl
              · rcases List.mem_cons.mp hop with rfl | hop
                · simp [sends] at hs
                · have := g2 rfl op hop
                  rw [this] at hs
                  cases hs
        · apply ih (c :: seen)
          · intro c' hc
            rcases H1 c' hc with h | ⟨op, hop, hs⟩
            · exact Or.inl (List.mem_cons_of_mem _ h)
            · rcases List.mem_cons.mp hop with rfl | hop
              · simp only [sends, Bool.and_eq_true, beq_iff_eq] at hs
                exact Or.inl (by rw [hs.2]; exact List.mem_cons_self)
              · exact Or.inr ⟨op, hop, hs⟩
          · exact fun op hop => H2 op (List.mem_cons_of_mem _ hop)
          · intro c' hc op hop
            rcases List.mem_cons.mp hc with rfl | hc
            · exact g2 rfl op hop
            · exact H3 c' hc op (List.mem_cons_of_mem _ hop)
          · exact g3

/-- one message: reading it back gives the operations' triples. -/
theorem annotate_buildMsg (g : List Txn) (h : Good g.flatten) :
    (buildMsg g).annotate = itemsOf g.flatten := by
  unfold Msg.annotate buildMsg
  rw [foldl_entries]
  simp only [List.nil_append]
  apply annotate_ops
  · intro c hc
    rw [foldl_blocks] at hc
    simp only [List.contains_nil, Bool.false_or, List.any_eq_true] at hc
    exact Or.inr hc
  · intro op hop c hs
    rw [foldl_blocks]
    simp only [List.contains_nil, Bool.false_or, List.any_eq_true]
    exact ⟨op, hop, hs⟩
  · intro c hc; cases hc
  · exact h

/-- every block of a message has a present entry in the same message. -/
theorem stray_buildMsg (g : List Txn) (h : Good g.flatten) : (buildMsg g).stray = [] := by
  unfold Msg.stray buildMsg
  rw [List.filter_eq_nil_iff]
  intro c hc
  have hc' : (g.flatten.foldl applyOp {}).blocks.contains c = true := by simpa using hc
  rw [foldl_blocks] at hc'
  simp only [List.contains_nil, Bool.false_or, List.any_eq_true] at hc'
  obtain ⟨op, hop, hs⟩ := hc'
  rw [foldl_entries]
  simp only [List.nil_append, Bool.not_eq_true']
  -- the sending operation is present and contributes the entry (c, true)
  have key : ∀ ops : List ROp, Good ops → op ∈ ops → (entriesOf ops).contains (c, true) = true := by
    intro ops
    induction ops with
    | nil => intro _ h; cases h
    | cons o ops ih =>
      intro hg hm
      cases o with
      | status st =>
        rcases List.mem_cons.mp hm with rfl | hm
        · simp [sends] at hs
        · simpa [entriesOf] using ih hg hm
      | block c' b s i =>
        obtain ⟨g1, _, g3⟩ := hg
        rcases List.mem_cons.mp hm with rfl | hm
        · simp only [sends, Bool.and_eq_true, beq_iff_eq] at hs
          obtain ⟨hs1, hs2⟩ := hs
          have := g1 hs1
          subst this; subst hs2
          simp [entriesOf]
        · have := ih g3 hm
          simp only [entriesOf, List.contains_cons, this, Bool.or_true]
  simpa using key g.flatten h hop

/-- any batching: the concatenation of the messages read back is the list of triples. -/
theorem annotate_groups (groups : List (List Txn)) (h : Good groups.flatten.flatten) :
    (groups.map buildMsg).flatMap Msg.annotate = itemsOf groups.flatten.flatten := by
  induction groups with
  | nil => rfl
  | cons g gs ih =>
    simp only [List.flatten_cons, List.flatten_append] at h
    obtain ⟨hg, hgs⟩ := Good_append h
    simp only [List.map_cons, List.flatMap_cons, List.flatten_cons, List.flatten_append, itemsOf_append]
    rw [annotate_buildMsg g hg, ih hgs]

end GS.C03L
