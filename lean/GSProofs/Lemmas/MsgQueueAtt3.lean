import GSProofs.Lemmas.MsgQueueAtt2
/-!
# Message queue: attachments — what each function keeps
-/
namespace GS.MQ
open GS.Alloc

/-- outcome of a function as far as attachments are concerned -/
structure Out (f : Req → Sub) (s s' : State) : Prop where
  att : (∀ b ∈ s.builders, BFun f b) →
    (∀ b ∈ s'.builders, BFun f b) ∧ (∀ u t r, AttQ u t r s → AttQ u t r s' ∨
      (r ∈ s'.closedStreams ∧ errCount u s.log < errCount u s'.log))
  closed : ∀ r ∈ s.closedStreams, r ∈ s'.closedStreams
  wcore : WCore s s'
  log : ∃ X, s'.log = s.log ++ X

theorem Out.refl (f : Req → Sub) (s : State) : Out f s s :=
  ⟨fun h => ⟨h, fun _ _ _ a => Or.inl a⟩, fun _ h => h, WCore.of_eq rfl, ⟨[], by simp⟩⟩

theorem Out.trans {f : Req → Sub} {a b c : State} (h1 : Out f a b) (h2 : Out f b c) : Out f a c := by
  obtain ⟨X, x⟩ := h1.log
  obtain ⟨Y, y⟩ := h2.log
  refine ⟨?_, fun r hr => h2.closed r (h1.closed r hr), h1.wcore.trans h2.wcore, ⟨X ++ Y, by rw [y, x, List.append_assoc]⟩⟩
  intro hb
  obtain ⟨b1, a1⟩ := h1.att hb
  obtain ⟨b2, a2⟩ := h2.att b1
  refine ⟨b2, ?_⟩
  intro u t r hatt
  rcases a1 u t r hatt with h | h
  · rcases a2 u t r h with h' | h'
    · exact Or.inl h'
    · exact Or.inr ⟨h'.1, Nat.lt_of_le_of_lt (errCount_mono h1.log u) h'.2⟩
  · exact Or.inr ⟨h2.closed r h.1, Nat.lt_of_lt_of_le h.2 (errCount_mono h2.log u)⟩

/-- builders, closed streams and waiters untouched, log extended -/
theorem Out.same (f : Req → Sub) {s s' : State} (hb : s'.builders = s.builders) (hc : s'.closedStreams = s.closedStreams)
    (hw : WCore s s') (hl : ∃ X, s'.log = s.log ++ X) : Out f s s' := by
  refine ⟨?_, fun r hr => by rw [hc]; exact hr, hw, hl⟩
  intro h
  refine ⟨by rw [hb]; exact h, ?_⟩
  intro u t r ⟨b, hbm, ha⟩
  exact Or.inl ⟨b, by rw [hb]; exact hbm, ha⟩

theorem frame_out (f : Req → Sub) {s s' : State} (fr : Frame s s') (hl : ∃ X, s'.log = s.log ++ X) : Out f s s' :=
  Out.same f fr.builders fr.closedStreams (WCore.of_eq fr.waiters) hl

theorem release_out (pick : Pick) (f : Req → Sub) (s : State) (n : Nat) : Out f s (s.release pick n) :=
  Out.same f rfl rfl (release_wcore pick s n) ⟨_, rfl⟩

theorem publish_out (f : Req → Sub) (s : State) (t : Topic) (k : Kind) : Out f s (s.publish t k) :=
  frame_out f (publish_frame s t k) (publish_ext pickMin s t k).mono

theorem closeTopic_out (f : Req → Sub) (s : State) (t : Topic) : Out f s (s.closeTopic t) :=
  frame_out f (closeTopic_frame s t) (closeTopic_ext pickMin s t).mono

theorem finish_out (f : Req → Sub) (s : State) (m : InFlight) : Out f s (s.finish m) := by
  unfold State.finish
  exact (closeTopic_out f s m.topic).trans (Out.same f rfl rfl (WCore.of_eq rfl) ⟨[], by simp⟩)

theorem publishSent_out (pick : Pick) (f : Req → Sub) (s : State) (m : InFlight) : Out f s (s.publishSent pick m) := by
  unfold State.publishSent
  exact (publish_out f s m.topic Kind.sent).trans (release_out pick f _ _)

theorem publishError_out (pick : Pick) (f : Req → Sub) {s : State} {m : InFlight} {U : List Sub} {σ : List Kind} {b : Bool}
    (hm : Mid s m U σ b) (hU : ∀ r ∈ m.streams, f r ∈ U) : Out f s (s.publishError pick m) := by
  have hcl := publishError_closed pick s m
  exact ⟨fun hb => publishError_att pick f hm hb hU, hcl.1, hcl.2.2.1, (publishError_ext pick s m).mono⟩

/-- `buildMessage` with a transaction whose subscriber is its request's -/
theorem buildMessage_out (pick : Pick) (f : Req → Sub) (s : State) (ticket : Nat) (tx : Tx) (size : Nat)
    (hf : tx.sub = f tx.req) : Out f s (s.buildMessage pick ticket tx size) := by
  have hl := (buildMessage_ext pick s ticket tx size).1.mono
  unfold State.buildMessage at hl ⊢
  generalize hs0 : (if shouldBegin s.builders size = true
      then { s with builders := s.builders ++ [{ topic := s.nextTopic }], nextTopic := s.nextTopic + 1 }
      else s) = s0 at hl ⊢
  have h0 : (∀ b ∈ s.builders, b ∈ s0.builders) ∧ ((∀ b ∈ s.builders, BFun f b) → ∀ b ∈ s0.builders, BFun f b) ∧
      s0.closedStreams = s.closedStreams ∧ s0.waiters = s.waiters := by
    subst hs0; split
    · refine ⟨fun b hb => List.mem_append_left _ hb, ?_, rfl, rfl⟩
      intro h b hb
      rcases List.mem_append.mp hb with hb | hb
      · exact h b hb
      · simp at hb; subst hb; exact BFun.new f _
    · exact ⟨fun b hb => hb, fun h => h, rfl, rfl⟩
  obtain ⟨h01, h02, h03, h04⟩ := h0
  simp only at hl ⊢
  cases hlast : s0.builders.getLast? with
  | none =>
    rw [hlast] at hl
    simp only at hl ⊢
    refine ⟨?_, fun r hr => by rw [h03]; exact hr, WCore.of_eq h04, hl⟩
    intro hb
    refine ⟨h02 hb, ?_⟩
    intro u t r ⟨b, hbm, ha⟩
    exact Or.inl ⟨b, h01 b hbm, ha⟩
  | some b =>
    rw [hlast] at hl
    simp only at hl ⊢
    have hrf := runFn_att f s0.closedStreams b tx hf
    generalize runFn s0.closedStreams b tx = b' at hrf hl ⊢
    -- the states after emit / release / signal all have builders = setLast …
    have key : ∀ s3 : State, s3.builders = setLast s0.builders b' → (∀ r ∈ s.closedStreams, r ∈ s3.closedStreams) →
        WCore s s3 → (∃ X, s3.log = s.log ++ X) → Out f s s3 := by
      intro s3 hb3 hc3 hw3 hl3
      refine ⟨?_, hc3, hw3, hl3⟩
      intro hb
      have hb0 := h02 hb
      have hbf : BFun f b := hb0 b (mem_of_getLast? hlast)
      obtain ⟨r1, r2⟩ := hrf hbf
      constructor
      · intro x hx
        rw [hb3] at hx
        rcases (setLast_spec s0.builders b b' hlast).2.1 x hx with rfl | hx
        · exact r1
        · exact hb0 x hx
      · intro u t r ⟨x, hx, ha⟩
        left
        rcases setLast_mem_old s0.builders b b' hlast x (h01 x hx) with h1 | h1
        · exact ⟨x, by rw [hb3]; exact h1, ha⟩
        · subst h1
          exact ⟨b', by rw [hb3]; exact setLast_mem_new _ _ _ hlast, r2 u t r ha⟩
    generalize hs1 : ({ s0 with builders := setLast s0.builders b' } : State).emit
        [Event.built ticket b.topic size (b'.accounted - b.accounted)] = s1 at hl ⊢
    have q1 : QFrame ({ s0 with builders := setLast s0.builders b' } : State) s1 := by subst hs1; exact (emit_frame _ _).q
    have w1 : s1.waiters = s.waiters := by subst hs1; exact h04
    generalize hs2 : (if b'.accounted ≥ b.accounted ∧ b'.accounted - b.accounted < size
          then s1.release pick (size - (b'.accounted - b.accounted)) else s1) = s2 at hl ⊢
    have q2 : QFrame s1 s2 ∧ WCore s1 s2 := by
      subst hs2; split
      · exact ⟨release_qframe _ _ _, release_wcore _ _ _⟩
      · exact ⟨QFrame.refl _, WCore.of_eq rfl⟩
    have q := q1.trans q2.1
    have wc : WCore s s2 := (WCore.of_eq w1).trans q2.2
    have hc2 : ∀ r ∈ s.closedStreams, r ∈ s2.closedStreams := by
      intro r hr; rw [q.closedStreams]; show r ∈ s0.closedStreams; rw [h03]; exact hr
    split
    · next hnb =>
      rw [if_pos hnb] at hl
      exact key _ q.builders hc2 wc hl
    · next hnb =>
      rw [if_neg hnb] at hl
      exact key _ q.builders hc2 wc hl

end GS.MQ
