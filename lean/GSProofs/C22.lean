import GS.Model.Panics
import GSProofs.Lemmas.PanicsRun
/-!
# C22 - A panic in per-request code fails only that request

Property sentence: *"A panic raised while executing one request, in a codec, node reifier, prototype
chooser, selector, or a storage read or write function, is turned into an error for that request and
passed to the configured panic callback; the process keeps running and other requests are
unaffected."*  Quantifier: *panics injected at any block of a request, in any of the listed
user-supplied functions, on the requestor or the responder.*

How the sentence is split:

* `sites` - about the **current source**: every call site of a listed kind of user function, on
  either side, lies under a recover frame.  The statement ranges over the generated table
  `GS.Generated.PanicSites.table` (translator `translate/panicsites`, regenerated from the Go source
  on every check run); `decide` over the whole finite table is a proof.
* `isolation` - about the **model** (`GS.Model.Panics`), for all request lists, scripts, schedules,
  injection points: given recover frames at all listed sites, turning any call of any request into a
  panic never kills the process, leaves what is observable of every other request exactly as in the
  fault-free run, and gives the faulted request the RecoveredPanicErr of that call plus exactly one
  panic-callback invocation (as soon as the schedule lets it reach the call).
* `isolation_table` - both together: `isolation` instantiated with the frames read off the
  generated table; no hypothesis about frames is left.
* `handler_total` - about the **current source** of `panics.MakeHandler` (statement list regenerated
  into `GS.Generated.PanicHandler.steps`, interpreted by `GS.Panics.runHandler`; the model's
  recovered-panic step `GS.Panics.handled` is defined through it): for EVERY non-nil panic value - of
  any type: string, error, runtime error, struct … - the handler calls the callback (when one is set)
  exactly once with that very value and returns a RecoveredPanicErr carrying that very value; for
  recover() = nil it returns nil and calls nothing.
* `unrecovered_counterexample` - the hypothesis of `isolation` is needed: in the model one site
  without a frame takes every request down.  (This was the state of go-graphsync before the fix
  recorded in known_findings.json: storage read/write functions ran on the task-worker goroutines
  without any recover frame.)

That the Go runtime behaves as the model says (recover semantics, process death) and that the table
is complete is the tie: translator + fault-injection correspondence (`harness/panics`), see
checks/C22.json.
-/
namespace GS.C22
open GS.Panics GS.Generated.PanicSites

/-- Bool form of `sites`, evaluated over the whole generated table. -/
def sitesOK (t : List Site) : Bool :=
  t.all (fun s => !(listedKinds.contains s.kind) || s.recovered)

/-- **Every call site of a listed user function is under a recover frame** - "a panic raised … in a
codec, node reifier, prototype chooser, selector, or a storage read or write function" can only be
raised at one of these sites, on the requestor or the responder.  The quantifier is the complete,
finite, generated table, so `decide` is a proof (not a sample). -/
theorem sites : ∀ s ∈ table, s.kind ∈ listedKinds → s.recovered = true := by
  have h : sitesOK table = true := by decide
  intro s hs hk
  have := (List.all_eq_true.mp h) s hs
  simp only [Bool.or_eq_true, Bool.not_eq_true'] at this
  rcases this with h1 | h1
  · have : listedKinds.contains s.kind = true := List.contains_iff_mem.mpr hk
    rw [this] at h1; cases h1
  · exact h1

/-- The table is not trivially empty: every listed kind has a site on the requestor, and every kind
that exists on the responder (no storage writes there) has one on the responder. -/
theorem sites_nonvacuous :
    (∀ k ∈ listedKinds, hasSite table .requestor k = true) ∧
    (∀ k ∈ [Kind.codec, .reifier, .chooser, .selector, .storageRead, .storageReadStream],
        hasSite table .responder k = true) := by decide

/-- **The panic handler treats every panic value alike** - "is turned into an error for that request
and passed to the configured panic callback", whatever was passed to `panic`.  Stated about the
statement list generated from `panics.MakeHandler`; `α` is the type of panic values, universally
quantified (the handler cannot look into the value), `cbSet` says whether a callback is configured.
Second part: no panic (recover() returned nil) is not turned into an error.  Third part: this is what
the request model uses for a recovered panic (`GS.Panics.handled`). -/
theorem handler_total :
    (∀ (α : Type) (cbSet : Bool) (v : α),
        runHandler cbSet (some v) = { ret := .recovered (some v), cbs := if cbSet then [some v] else [] }) ∧
    (∀ (α : Type) (cbSet : Bool), runHandler cbSet (none : Option α) = { ret := .nil, cbs := [] }) ∧
    (∀ sd k, handled sd k = (.panicErr sd k, .cb sd k)) :=
  ⟨fun _ cbSet v => runHandler_total cbSet v, fun _ cbSet => runHandler_nil cbSet, handled_eq⟩

/-- frames read off a table in which all listed sites are recovered cover all listed kinds -/
theorem framesOf_listed (t : List Site) (h : ∀ s ∈ t, s.kind ∈ listedKinds → s.recovered = true)
    (sd : Side) (k : Kind) (hk : k ∈ listedKinds) : framesOf t sd k = true := by
  unfold framesOf
  rw [List.all_eq_true]
  intro s hs
  by_cases hm : (sideEq s.side sd && kindEq s.kind k) = true
  · have hkk : s.kind = k := by
      simp only [Bool.and_eq_true, kindEq, decide_eq_true_eq] at hm; exact hm.2
    have := h s hs (by rw [hkk]; exact hk)
    simp [this]
  · simp [hm]

/-- **Isolation** (general theorem over the model): let the frames cover every listed kind.  Take any
list of requests whose calls are of listed kinds, any schedule, any request `i` and any position
`pos` in its script, and turn that call into a panic.  Then, compared with the unfaulted run under the
same schedule:

1. "the process keeps running": the system is not crashed;
2. "other requests are unaffected": what is observable of every other request `j` (its state and the
   panic callbacks concerning it) is identical;
3. "turned into an error for that request and passed to the configured panic callback": if the calls
   before `pos` return normally and the schedule gives request `i` more than `pos` steps, request `i`
   has terminated with the RecoveredPanicErr of exactly that call and the callback log holds exactly
   one entry for it. -/
theorem isolation (fr : Frames) (hfr : ∀ sd k, k ∈ listedKinds → fr sd k = true)
    (reqs : List Req) (hk : ∀ r ∈ reqs, ∀ c ∈ r.script, c.kind ∈ listedKinds)
    (sched : List Nat) (i pos : Nat) (r : Req) (hi : reqs[i]? = some r) :
    let faulty := reqs.set i (injectReq r pos)
    (run fr (init faulty) sched).crashed = false ∧
    (run fr (init reqs) sched).crashed = false ∧
    (∀ j, j ≠ i → view (run fr (init faulty) sched) j = view (run fr (init reqs) sched) j) ∧
    (∀ c, r.out = .running → r.script[pos]? = some c → (∀ c' ∈ r.script.take pos, c'.res = .ok) →
        pos < sched.count i →
        view (run fr (init faulty) sched) i =
          some (some { script := [], out := .panicErr c.side c.kind }, [(i, c.side, c.kind)])) := by
  intro faulty
  have hlt : i < reqs.length := by
    rcases List.getElem?_eq_some_iff.mp hi with ⟨h, _⟩; exact h
  -- every script (faulted or not) is safe: all its calls are of listed kinds, which have frames
  have hsafe : ∀ (j : Nat) (q : Req), reqs[j]? = some q → safeScript fr q.script := by
    intro j q hq c hc _
    exact hfr _ _ (hk q (List.mem_iff_getElem?.mpr ⟨j, hq⟩) c hc)
  have hsafe' : ∀ (j : Nat) (q : Req), faulty[j]? = some q → safeScript fr q.script := by
    intro j q hq
    by_cases hij : i = j
    · subst hij
      have : q = injectReq r pos := by
        have h := hq
        simp only [faulty, List.getElem?_set_self hlt] at h
        exact (Option.some.inj h).symm
      subst this
      intro c hc _
      obtain ⟨c0, hc0, _, hkind⟩ := mem_injectScript hc
      have := hk r (List.mem_iff_getElem?.mpr ⟨i, hi⟩) c0 hc0
      exact hfr _ _ (by rw [hkind]; exact this)
    · have : faulty[j]? = reqs[j]? := by simp [faulty, List.getElem?_set_ne hij]
      exact hsafe j q (this ▸ hq)
  refine ⟨(run_decompose fr sched (init faulty) rfl hsafe').1,
          (run_decompose fr sched (init reqs) rfl hsafe).1, ?_, ?_⟩
  · intro j hji
    rw [view_run fr faulty sched hsafe' j, view_run fr reqs sched hsafe j]
    have : faulty[j]? = reqs[j]? := by simp [faulty, List.getElem?_set_ne (Ne.symm hji)]
    rw [this]
  · intro c hrun hc hok hn
    rw [view_run fr faulty sched hsafe' i]
    have hfi : faulty[i]? = some (injectReq r pos) := by simp [faulty, List.getElem?_set_self hlt]
    have hck : c.kind ∈ listedKinds :=
      hk r (List.mem_iff_getElem?.mpr ⟨i, hi⟩) c (List.mem_iff_getElem?.mpr ⟨pos, hc⟩)
    have hinj : injectReq r pos = { script := injectScript r.script pos, out := .running } := by
      simp [injectReq, hrun]
    rw [hfi, hinj]
    simp only [Option.map_some]
    rw [runReq_inject fr r.script pos (sched.count i) c hc hok hn (hfr _ _ hck)]
    simp [tag]

/-- **C22 for the current source**: `isolation` with the recover frames read off the generated site
table - no assumption about frames remains, `sites` discharges it.  So for the table the translator
extracts from the present go-graphsync tree: a panic at any call of any listed user function, at
any block, in any request, on either side, under any interleaving, fails exactly that request (error +
one callback), the system survives and all other requests are observably unaffected. -/
theorem isolation_table
    (reqs : List Req) (hk : ∀ r ∈ reqs, ∀ c ∈ r.script, c.kind ∈ listedKinds)
    (sched : List Nat) (i pos : Nat) (r : Req) (hi : reqs[i]? = some r) :
    let fr := framesOf table
    let faulty := reqs.set i (injectReq r pos)
    (run fr (init faulty) sched).crashed = false ∧
    (run fr (init reqs) sched).crashed = false ∧
    (∀ j, j ≠ i → view (run fr (init faulty) sched) j = view (run fr (init reqs) sched) j) ∧
    (∀ c, r.out = .running → r.script[pos]? = some c → (∀ c' ∈ r.script.take pos, c'.res = .ok) →
        pos < sched.count i →
        view (run fr (init faulty) sched) i =
          some (some { script := [], out := .panicErr c.side c.kind }, [(i, c.side, c.kind)])) :=
  isolation (framesOf table) (fun sd k hk' => framesOf_listed table sites sd k hk') reqs hk sched i pos r hi

/-! ### Non-vacuity and the need for the hypothesis (concrete instances: these are tests of the
statements, labelled as such, not part of the proof obligations) -/

/-- a two-block target request and a sibling, in the shape the driver builds them -/
def exTarget : Req :=
  { script := [⟨.requestor, .chooser, .ok⟩, ⟨.requestor, .storageRead, .ok⟩, ⟨.responder, .storageRead, .ok⟩,
               ⟨.requestor, .storageWriteCommitter, .ok⟩, ⟨.requestor, .codec, .ok⟩], out := .running }
def exSibling : Req :=
  { script := [⟨.requestor, .chooser, .ok⟩, ⟨.responder, .storageRead, .ok⟩, ⟨.requestor, .codec, .ok⟩],
    out := .running }
def exSched : List Nat := [1, 0, 0, 1, 0, 0, 1, 0, 1, 0, 0, 1]

/-- Non-vacuity of `isolation_table`: its hypotheses hold for a concrete non-trivial system (all
calls of listed kinds, the faulted call reached), and the conclusion is the interesting one: target
failed with the panic error of the responder's storage read, one callback, sibling completed. -/
example :
    (∀ r ∈ [exTarget, exSibling], ∀ c ∈ r.script, c.kind ∈ listedKinds) ∧
    [exTarget, exSibling][0]? = some exTarget ∧ exTarget.script[2]? = some ⟨.responder, .storageRead, .ok⟩ ∧
    2 < exSched.count 0 ∧
    view (run (framesOf table) (init ([exTarget, exSibling].set 0 (injectReq exTarget 2))) exSched) 0 =
      some (some { script := [], out := .panicErr .responder .storageRead }, [(0, .responder, .storageRead)]) ∧
    view (run (framesOf table) (init ([exTarget, exSibling].set 0 (injectReq exTarget 2))) exSched) 1 =
      some (some { script := [], out := .completed }, []) := by
  refine ⟨?_, by decide, by decide, by decide, by decide, by decide⟩
  intro r hr c hc
  simp only [List.mem_cons, List.mem_nil_iff, or_false] at hr
  rcases hr with rfl | rfl <;> revert c <;> decide

/-- frames as they were before the fix: only the traverser goroutine had a recover frame -/
def framesBeforeFix : Frames := fun _ k =>
  match k with
  | .codec | .reifier | .chooser | .selector => true
  | _ => false

/-- **The hypothesis of `isolation` is needed**: with a listed site outside any recover frame (here
the frames of go-graphsync before the fix) the same injection kills the process, and with it the
sibling request, which no longer has any observable outcome. -/
theorem unrecovered_counterexample :
    let s := run framesBeforeFix (init ([exTarget, exSibling].set 0 (injectReq exTarget 2))) exSched
    s.crashed = true ∧ view s 0 = none ∧ view s 1 = none ∧
    view (run framesBeforeFix (init [exTarget, exSibling]) exSched) 1 =
      some (some { script := [], out := .completed }, []) := by decide

/-- What the table says about the selector *spec* node handed to `Request` (not one of the listed
kinds - a node, not a function; see STATUS.md): its second parse runs on the request manager's
goroutine without a recover frame.  Recorded so that it stays visible. -/
example : ∃ s ∈ table, s.kind = .selectorSpec ∧ s.recovered = false := by decide

end GS.C22
