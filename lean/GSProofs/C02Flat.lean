import GSProofs.C02
import GSProofs.C24
import GSProofs.Lemmas.Unflatten
/-!
# C02 / C24 — the honest response `respItemsW` IS `Responder.respondSpec`, without a `FlatT` hypothesis

AUDIT_4 item 4: `C02.honest_response_is_spec` needs `FlatT t 0 lt` (the flat link tree `lt` is the
pre-order flattening of a labelled tree `t` of the responder model), while `complete_prefix`,
`exchange_complete_prefix` and `C24.exchange_no_resend` quantify over flat link trees `lt` with `WF lt`
only, so "honest response = `respondSpec`" was not available for their `lt`.

Result (`Lemmas/Unflatten.lean`): `WF` (a condition on PATHS relative to the depth structure) does
not give a tree — `wf_not_flat_counterexample` — and is not needed for one either.  The exact
condition is `DepthPre lt` (a condition on DEPTHS only: non-empty, first depth 0, all other depths
positive, the depth grows by at most one from a node to the next): `flat_tree_iff`.  Under `DepthPre`
the tree is `unflatten lt`, and

* `honest_response_is_spec_depthPre` / `_noskip_depthPre`: `respItemsW rem lt [] w` (resp. `respItems`)
  agrees entry by entry with `respondSpec (unflatten lt) rem {skip := w}`;
* `C24.exchange_no_resend_spec`: conjuncts (b), (c) of `exchange_no_resend` stated on `respondSpec`
  of that tree.

`DepthPre` is an input condition on the link tree like `WF`; it holds of every link tree the
harness generator (`harness/dag`) produces (depths are the tree depths of a DFS).
-/
namespace GS.C02
open GS.Loader GS.Requestor

/-- **every flat link tree with a pre-order depth sequence is the flattening of a labelled tree of
    the responder model** (constructively: of `unflatten lt`, built by recursion on the depths). -/
theorem flat_tree_exists (lt : LT) (h : DepthPre lt) : ∃ t, FlatT t 0 lt :=
  ⟨unflatten lt, exists_tree_of_depthPre lt h⟩

/-- the condition is exact: a flat link tree is a flattening of some labelled tree iff `DepthPre` -/
theorem flat_tree_iff (lt : LT) : (∃ t, FlatT t 0 lt) ↔ DepthPre lt := flat_iff_depthPre lt

/-- **`WF` together with the side conditions of `complete_prefix` / `exchange_complete_prefix` (root
    path empty, other paths non-empty, other depths non-zero, `PathsDFS`) does not imply it**: root
    (path `[]`, depth 0) followed by one node with path `[0]` at depth 2.  (`WF` relates paths to the
    depth structure; it does not say that depths descend one level at a time.) -/
theorem wf_not_flat_counterexample :
    let lt : LT := [⟨9, [], 0, 0, 0⟩, ⟨1, [0], 2, 0, 0⟩]
    WF lt ∧ lt.head?.map (·.path) = some [] ∧ (∀ m ∈ lt.tail, m.path ≠ []) ∧ (∀ m ∈ lt.tail, m.depth ≠ 0) ∧
    PathsDFS (lt.map (·.path)) ∧ ¬ ∃ t, FlatT t 0 lt :=
  GS.Loader.wf_not_flat_counterexample

/-- **the honest response of the completeness theorems is the responder specification, for every
    flat link tree with a pre-order depth sequence** (no `FlatT` hypothesis): the entries of
    `respItemsW rem lt [] w` and of `respondSpec (unflatten lt) rem {skip := w}` agree in link, present
    flag and block attachment, for every responder store `rem` and every skip value `w`.
    Same conclusion as `honest_response_is_spec`, the tree being computed from `lt`. -/
theorem honest_response_is_spec_depthPre (rem : Cid → Bool) (lt : LT) (hd : DepthPre lt) (w : Nat) :
    (respItemsW rem lt [] w).map viewL =
      (GS.Responder.respondSpec (unflatten lt) rem { skip := (w : Int) } (fun _ => false)).1.map viewR :=
  honest_response_is_spec rem (unflatten lt) lt (exists_tree_of_depthPre lt hd) w

/-- the same without skip extension (the response of `complete_remote_start`) -/
theorem honest_response_is_spec_noskip_depthPre (rem : Cid → Bool) (lt : LT) (hd : DepthPre lt) :
    (respItems rem lt []).map viewL =
      (GS.Responder.respondSpec (unflatten lt) rem {} (fun _ => false)).1.map viewR :=
  honest_response_is_spec_noskip rem (unflatten lt) lt (exists_tree_of_depthPre lt hd)

/-- the existential form asked for in AUDIT_4 item 4 -/
theorem honest_response_is_spec_exists (rem : Cid → Bool) (lt : LT) (hd : DepthPre lt) :
    ∃ t, FlatT t 0 lt ∧ ∀ w : Nat,
      (respItemsW rem lt [] w).map viewL =
        (GS.Responder.respondSpec t rem { skip := (w : Int) } (fun _ => false)).1.map viewR :=
  ⟨unflatten lt, exists_tree_of_depthPre lt hd, honest_response_is_spec_depthPre rem lt hd⟩

/-- non-vacuity: the link tree of the `complete_prefix` example satisfies `DepthPre` (and `WF`, see
    there), and `unflatten` computes the labelled tree used there -/
example :
    let lt : LT := [⟨9, [], 0, 0, 0⟩, ⟨1, [0, 1], 1, 0, 0⟩, ⟨3, [0, 1, 0], 2, 0, 0⟩, ⟨4, [0, 1, 1], 2, 0, 0⟩,
       ⟨2, [0, 2], 1, 0, 0⟩, ⟨5, [1], 1, 0, 0⟩]
    DepthPre lt ∧ unflatten lt = .node 9 [.node 1 [.node 3 [], .node 4 []], .node 2 [], .node 5 []] := by
  intro lt
  constructor
  · simp [lt, DepthPre, GS.Loader.DSteps]
  · simp [lt, unflatten, forest, subOf, skipSub]

end GS.C02

namespace GS.C24
open GS.Loader GS.Requestor

/-- the cids of the entries of a specification response that carry a block -/
def specBlocks (resp : List GS.Responder.Item) : List GS.Responder.Cid :=
  (resp.filter (fun it => it.block)).map (fun it => it.cid)

theorem sentBlocks_view (items : List GS.Loader.Item) :
    sentBlocks items = ((items.map viewL).filter (fun v => v.2.2)).map (fun v => v.1) := by
  induction items with
  | nil => rfl
  | cons it rest ih =>
    simp only [sentBlocks, List.filter_cons, List.map_cons] at ih ⊢
    by_cases h : it.block.isSome = true
    · simp only [h, viewL, if_true, List.map_cons, List.cons.injEq, true_and]; exact ih
    · simp only [h, viewL]; exact ih

theorem specBlocks_view (resp : List GS.Responder.Item) :
    specBlocks resp = ((resp.map viewR).filter (fun v => v.2.2)).map (fun v => v.1) := by
  induction resp with
  | nil => rfl
  | cons it rest ih =>
    simp only [specBlocks, List.filter_cons, List.map_cons] at ih ⊢
    by_cases h : it.block = true
    · simp only [h, viewR, if_true, List.map_cons, List.cons.injEq, true_and]; exact ih
    · simp only [h, viewR]; exact ih

/-- **C24, sentences 2 and 3, with the responder's side stated on `Responder.respondSpec`.**  Let the
    flat link tree have a pre-order depth sequence (`DepthPre`; then it is the flattening of
    `t = unflatten lt`), let the requestor's store not cover the traversal and let `pre` be the prefix
    it loads locally.  Then
    (a) whatever arrives, the requestor sends exactly one request, asking to skip `|pre|` blocks;
    (b) in the response `respondSpec t rem {skip := |pre|}` of the responder specification (what the
        operational responder produces for every batching, `C03.refines`) no block is attached twice;
    (c) if the responder holds every block of `pre`, no entry of that response for a cid of the prefix
        carries a block.
    Outside (c): `resend_counterexample` (known finding `skip-prefix-mismatch-resend`). -/
theorem exchange_no_resend_spec (rem : GS.Loader.Cid → Bool) (loc : List (GS.Loader.Cid × Blk)) (lt : LT) (msgs : List Msg)
    (hd : DepthPre lt) (h : ¬ Covers loc lt) :
    let pre := lt.takeWhile (has loc)
    let resp := (GS.Responder.respondSpec (unflatten lt) rem { skip := (pre.length : Int) } (fun _ => false)).1
    FlatT (unflatten lt) 0 lt ∧
    sentNews (exchange loc lt 0 msgs).2 = [pre.length] ∧
    (specBlocks resp).Nodup ∧
    ((∀ m ∈ pre, rem m.cid = true) → ∀ it ∈ resp, it.block = true → it.cid ∉ pre.map (·.cid)) := by
  intro pre resp
  have hflat := exists_tree_of_depthPre lt hd
  obtain ⟨ha, hb, hc⟩ := exchange_no_resend rem loc lt msgs h
  have heq : specBlocks resp = sentBlocks (respItemsW rem lt [] pre.length) := by
    rw [specBlocks_view, sentBlocks_view]
    exact congrArg (fun l => (l.filter (fun v => v.2.2)).map (fun v => v.1))
      (GS.C02.honest_response_is_spec_depthPre rem lt hd pre.length).symm
  refine ⟨hflat, ha, by rw [heq]; exact hb, ?_⟩
  intro hrem it hit hblk
  have hmem : it.cid ∈ specBlocks resp := by
    simp only [specBlocks, List.mem_map, List.mem_filter]
    exact ⟨it, ⟨hit, hblk⟩, rfl⟩
  rw [heq] at hmem
  exact hc hrem it.cid hmem

/-- non-vacuity of `exchange_no_resend_spec` (the example of `exchange_no_resend`): hypotheses hold,
    and the specification response for skip 2 attaches blocks to 1 and 0 only, once each -/
example :
    let lt : LT := [⟨3, [], 0, 1, 0⟩, ⟨2, [0], 1, 1, 0⟩, ⟨1, [1], 1, 1, 0⟩, ⟨0, [1, 0], 2, 1, 0⟩, ⟨0, [2], 1, 1, 0⟩]
    let loc : List (GS.Loader.Cid × Blk) := [(3, 3), (2, 2)]
    DepthPre lt ∧ ¬ Covers loc lt ∧
    unflatten lt = .node 3 [.node 2 [], .node 1 [.node 0 []], .node 0 []] ∧
    specBlocks (GS.Responder.respondSpec (.node 3 [.node 2 [], .node 1 [.node 0 []], .node 0 []]) (fun _ => true) { skip := 2 }
      (fun _ => false)).1 = [1, 0] := by
  intro lt loc
  refine ⟨by simp [lt, DepthPre, GS.Loader.DSteps], ?_, by simp [lt, unflatten, forest, subOf, skipSub], by decide⟩
  intro hc
  have := hc ⟨1, [1], 1, 1, 0⟩ (by simp [lt])
  revert this
  decide

end GS.C24
