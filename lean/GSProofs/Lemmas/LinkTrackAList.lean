import GS.Model.LinkTracker
/-! Lemmas about the association-list operations `aget / aset / aerase` of the link-tracker model. -/
set_option linter.unusedSimpArgs false
namespace GS.LinkTrack

section AList
variable {β : Type}

@[simp] theorem aget_nil (k : Nat) : aget ([] : List (Nat × β)) k = none := rfl

theorem aget_cons (k' : Nat) (v : β) (t : List (Nat × β)) (k : Nat) :
    aget ((k', v) :: t) k = if k' = k then some v else aget t k := rfl

theorem aget_aerase (m : List (Nat × β)) (k k' : Nat) :
    aget (aerase m k) k' = if k = k' then none else aget m k' := by
  induction m with
  | nil => simp [aerase]
  | cons e t ih =>
    obtain ⟨a, v⟩ := e
    unfold aerase at ih ⊢
    by_cases h : a = k
    · subst h
      by_cases h2 : a = k'
      · subst h2; simpa using ih
      · simp [aget_cons, h2, ih]
    · by_cases h2 : k = k'
      · subst h2
        have : (a != k) = true := by simp [h]
        simp [List.filter_cons, this, aget_cons, h, ih]
      · have : (a != k) = true := by simp [h]
        simp [List.filter_cons, this, aget_cons, ih, h2]

theorem aget_aset (m : List (Nat × β)) (k : Nat) (v : β) (k' : Nat) :
    aget (aset m k v) k' = if k = k' then some v else aget m k' := by
  unfold aset
  rw [aget_cons, aget_aerase]
  by_cases h : k = k' <;> simp [h]

/-- a Go map none of whose keys is bound is the empty map. -/
theorem eq_nil_of_aget_none (m : List (Nat × β)) (h : ∀ k, aget m k = none) : m = [] := by
  cases m with
  | nil => rfl
  | cons e t =>
    obtain ⟨a, v⟩ := e
    have := h a
    simp [aget_cons] at this

theorem eq_nil_of_aget_isSome_false (m : List (Nat × β)) (h : ∀ k, (aget m k).isSome = false) : m = [] :=
  eq_nil_of_aget_none m (fun k => by simpa using h k)

/-- keys are pairwise distinct -/
def NodupKeys (m : List (Nat × β)) : Prop := (m.map (·.1)).Nodup

theorem nodupKeys_nil : NodupKeys ([] : List (Nat × β)) := by simp [NodupKeys]

theorem nodupKeys_aerase {m : List (Nat × β)} (h : NodupKeys m) (k : Nat) : NodupKeys (aerase m k) := by
  unfold NodupKeys aerase at *
  exact List.Nodup.sublist (List.Sublist.map _ List.filter_sublist) h

theorem not_mem_keys_aerase (m : List (Nat × β)) (k : Nat) : k ∉ (aerase m k).map (·.1) := by
  unfold aerase
  intro h
  obtain ⟨e, he, hk⟩ := List.mem_map.1 h
  have := (List.mem_filter.1 he).2
  simp [hk] at this

theorem nodupKeys_aset {m : List (Nat × β)} (h : NodupKeys m) (k : Nat) (v : β) : NodupKeys (aset m k v) := by
  unfold aset NodupKeys
  simp only [List.map_cons, List.nodup_cons]
  exact ⟨not_mem_keys_aerase m k, nodupKeys_aerase h k⟩

theorem mem_of_aget {m : List (Nat × β)} {k : Nat} {v : β} (h : aget m k = some v) : (k, v) ∈ m := by
  induction m with
  | nil => simp at h
  | cons e t ih =>
    obtain ⟨a, w⟩ := e
    rw [aget_cons] at h
    by_cases hk : a = k
    · simp [hk] at h; subst hk; subst h; simp
    · simp [hk] at h; exact List.mem_cons_of_mem _ (ih h)

theorem aget_of_mem {m : List (Nat × β)} (hn : NodupKeys m) {k : Nat} {v : β} (h : (k, v) ∈ m) :
    aget m k = some v := by
  induction m with
  | nil => simp at h
  | cons e t ih =>
    obtain ⟨a, w⟩ := e
    unfold NodupKeys at hn
    simp only [List.map_cons, List.nodup_cons] at hn
    rw [aget_cons]
    rcases List.mem_cons.1 h with h | h
    · cases h; simp
    · have : a ≠ k := by
        intro hak; subst hak
        exact hn.1 (List.mem_map.2 ⟨(a, v), h, rfl⟩)
      simp [this]; exact ih hn.2 h

end AList
end GS.LinkTrack
