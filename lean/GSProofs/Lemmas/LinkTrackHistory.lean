import GSProofs.Lemmas.LinkTrackFinish
/-!
History-level vocabulary for the C19 theorems, defined by scanning the operation list only
(no model, no specification state), and its connection to the specification state.
-/
set_option linter.unusedSimpArgs false
namespace GS.LinkTrack

/-- the request an operation belongs to -/
def Op.req : Op → Req
  | .dedup r _ => r | .ignore r _ => r | .skip r _ => r | .trav r _ _ => r
  | .finish r => r | .finishErr r => r | .clear r => r

/-- the operation ends its request (FinishRequest / FinishWithError / ClearRequest) -/
def Op.isEnd : Op → Bool
  | .finish _ => true | .finishErr _ => true | .clear _ => true | _ => false

/-- one scanning step: the operations of `r` since it last ended -/
def sinceStep (r : Req) (acc : List Op) (o : Op) : List Op :=
  if o.req = r then (if o.isEnd then [] else acc ++ [o]) else acc

/-- the operations request `r` issued since it began (= since its last finish / error / clear) -/
def since (r : Req) (h : List Op) : List Op := h.foldl (sinceStep r) []

/-- `r` is in progress: it has issued an operation since it last ended -/
def inProgress (r : Req) (h : List Op) : Bool := !(since r h).isEmpty

/-- every request that was started has finished or was cleared -/
def allFinished (h : List Op) : Prop := ∀ r, inProgress r h = false

/-- the dedup scope of `r`: the key last assigned to it since it began -/
def scopeOf (r : Req) (h : List Op) : Option Key :=
  (since r h).foldl (fun s o => match o with | .dedup _ k => some k | _ => s) none

def wbLinks : Op → List Link
  | .trav _ l true => [l]
  | .ignore _ ls => ls
  | _ => []

/-- the links `r` traversed with their block since it began (sent, suppressed, skipped or ignored) -/
def withBlock (r : Req) (h : List Op) : List Link := (since r h).flatMap wbLinks

def isMissTrav : Op → Bool
  | .trav _ _ false => true
  | _ => false

/-- `r` reported a link without data since it began -/
def metMissing (r : Req) (h : List Op) : Bool := (since r h).any isMissTrav

def isTrav : Op → Bool
  | .trav _ _ _ => true
  | _ => false

/-- number of links `r` reported since it began -/
def travCount (r : Req) (h : List Op) : Nat := (since r h).countP isTrav

/-- the do-not-send-first-blocks value in force for `r` (0 if never set since it began) -/
def skipOf (r : Req) (h : List Op) : Int :=
  (since r h).foldl (fun s o => match o with | .skip _ n => n | _ => s) 0


def specRun (h : List Op) : Spec := (Spec.runFrom {} h).1
def WF (h : List Op) : Prop := Spec.WFfrom {} h

/-! ### the with-block list of a request, with multiplicities -/

/-- the links of request `r` in a peer-level ledger, all scopes, in recording order -/
def reqLinks (L : List PEntry) (r : Req) : List Link := (L.filter (fun e => e.2.1 == r)).map (·.2.2)

theorem reqLinks_append (L M : List PEntry) (r : Req) : reqLinks (L ++ M) r = reqLinks L r ++ reqLinks M r := by
  simp [reqLinks, List.filter_append]

theorem reqLinks_map (s : Option Key) (r' : Req) (ls : List Link) (r : Req) :
    reqLinks (ls.map (fun l => (s, r', l))) r = if r' = r then ls else [] := by
  unfold reqLinks
  by_cases h : r' = r
  · subst h; simp [List.filter_map, Function.comp_def]
  · simp [h, List.filter_map, Function.comp_def]

theorem reqLinks_single (s : Option Key) (r' : Req) (l : Link) (r : Req) :
    reqLinks [(s, r', l)] r = if r' = r then [l] else [] := by
  have := reqLinks_map s r' [l] r
  simpa using this

theorem reqLinks_filter (L : List PEntry) (r' r : Req) :
    reqLinks (L.filter (fun e => e.2.1 != r')) r = if r' = r then [] else reqLinks L r := by
  unfold reqLinks
  rw [List.filter_filter]
  by_cases h : r' = r
  · subst h
    simp only [if_true, List.map_eq_nil_iff, List.filter_eq_nil_iff]
    intro e _; simp
  · simp only [h, if_false]
    congr 1
    apply List.filter_congr
    intro e _
    by_cases he : e.2.1 = r <;> simp [he]
    intro h2; exact h h2.symm

theorem reqLinks_step (σ : Spec) (r : Req) (acc : List Op) (h : reqLinks σ.wb r = acc.flatMap wbLinks)
    (o : Op) : reqLinks (σ.step o).1.wb r = (sinceStep r acc o).flatMap wbLinks := by
  unfold sinceStep
  cases o with
  | dedup r' k =>
    by_cases hr : r' = r <;> simp [Op.req, Op.isEnd, hr, Spec.step, h, wbLinks, List.flatMap_append]
  | skip r' n =>
    by_cases hr : r' = r <;> simp [Op.req, Op.isEnd, hr, Spec.step, h, wbLinks, List.flatMap_append]
  | ignore r' ls =>
    simp only [ignore_wb, reqLinks_append, reqLinks_map, h, Op.req, Op.isEnd]
    by_cases hr : r' = r <;> simp [hr, wbLinks, List.flatMap_append]
  | trav r' l b =>
    simp only [trav_wb, Op.req, Op.isEnd]
    by_cases hr : r' = r <;> cases b <;>
      simp [hr, wbLinks, List.flatMap_append, reqLinks_append, reqLinks_single, h]
  | finish r' =>
    simp only [Spec.step, Spec.endReq, reqLinks_filter, Op.req, Op.isEnd]
    by_cases hr : r' = r <;> simp [hr, h]
  | finishErr r' =>
    simp only [Spec.step, Spec.endReq, reqLinks_filter, Op.req, Op.isEnd]
    by_cases hr : r' = r <;> simp [hr, h]
  | clear r' =>
    simp only [Spec.step, Spec.endReq, reqLinks_filter, Op.req, Op.isEnd]
    by_cases hr : r' = r <;> simp [hr, h]

theorem reqLinks_runFrom (σ : Spec) (r : Req) (acc : List Op) (h : reqLinks σ.wb r = acc.flatMap wbLinks)
    (ops : List Op) : reqLinks (σ.runFrom ops).1.wb r = (ops.foldl (sinceStep r) acc).flatMap wbLinks := by
  induction ops generalizing σ acc with
  | nil => exact h
  | cons o os ih => simp only [Spec.runFrom, List.foldl_cons]; exact ih _ _ (reqLinks_step σ r acc h o)

/-- the entries of `r` in the specification's with-block ledger are exactly `withBlock r h` -/
theorem reqLinks_specRun (h : List Op) (r : Req) : reqLinks (specRun h).wb r = withBlock r h :=
  reqLinks_runFrom {} r [] rfl h

/-- when every entry of `r` carries `r`'s current scope, the scope-`s` part of the ledger holds all
    of `r`'s links or none of them -/
theorem linksOf_proj (L : List PEntry) (sc : Req → Option Key) (hj : ∀ e ∈ L, e.1 = sc e.2.1)
    (s : Option Key) (r : Req) :
    linksOf (proj L s) r = if sc r = s then reqLinks L r else [] := by
  unfold linksOf proj reqLinks
  induction L with
  | nil => simp
  | cons e t ih =>
    have ih' := ih (fun e he => hj e (List.mem_cons_of_mem _ he))
    have he := hj e (List.mem_cons_self)
    obtain ⟨a, b, c⟩ := e
    simp only at he
    by_cases h1 : b = r
    · subst h1
      by_cases h2 : sc b = s
      · simp [List.filter_cons, he, h2] at ih' ⊢; exact ih'
      · simp [List.filter_cons, he, h2] at ih' ⊢; exact ih'
    · by_cases h2 : a = s
      · simp [List.filter_cons, h1, h2] at ih' ⊢; exact ih'
      · simp [List.filter_cons, h1, h2] at ih' ⊢; exact ih'

/-! ### counting ledger entries request by request -/

theorem sum_map_zero (rs : List Req) : (rs.map (fun _ => 0)).sum = 0 := by
  induction rs with
  | nil => rfl
  | cons a t ih => simp [ih]

theorem sum_map_add (rs : List Req) (f g : Req → Nat) :
    (rs.map (fun r => f r + g r)).sum = (rs.map f).sum + (rs.map g).sum := by
  induction rs with
  | nil => rfl
  | cons a t ih => simp [ih]; omega

theorem sum_indicator (rs : List Req) (hnd : rs.Nodup) (a : Req) (ha : a ∈ rs) :
    (rs.map (fun r => if a = r then 1 else 0)).sum = 1 := by
  induction rs with
  | nil => simp at ha
  | cons x t ih =>
    simp only [List.nodup_cons] at hnd
    simp only [List.map_cons, List.sum_cons]
    by_cases hx : a = x
    · subst hx
      have : t.map (fun r => if a = r then 1 else 0) = t.map (fun _ => 0) := by
        apply List.map_congr_left
        intro r hr
        have : a ≠ r := fun h2 => hnd.1 (h2 ▸ hr)
        simp [this]
      simp [this, sum_map_zero]
    · have : a ∈ t := by
        rcases List.mem_cons.1 ha with h | h
        · exact absurd h hx
        · exact h
      simp [hx, ih hnd.2 this]

/-- the number of entries naming `l` = the sum over the requests of how often each lists `l` -/
theorem cntOf_eq_sum (wb : Ledger) (rs : List Req) (hnd : rs.Nodup) (hcov : ∀ e ∈ wb, e.1 ∈ rs) (l : Link) :
    cntOf wb l = (rs.map (fun r => (linksOf wb r).count l)).sum := by
  induction wb with
  | nil => simp [cntOf, linksOf, sum_map_zero]
  | cons e t ih =>
    obtain ⟨a, b⟩ := e
    have ih' := ih (fun e he => hcov e (List.mem_cons_of_mem _ he))
    have ha : a ∈ rs := hcov (a, b) List.mem_cons_self
    have hsplit : ∀ r, (linksOf ((a, b) :: t) r).count l =
        (linksOf t r).count l + (if b = l then (if a = r then 1 else 0) else 0) := by
      intro r
      unfold linksOf
      by_cases h1 : a = r <;> by_cases h2 : b = l <;> simp [List.filter_cons, h1, h2, List.count_cons]
    have : (fun r => (linksOf ((a, b) :: t) r).count l) =
        (fun r => (linksOf t r).count l + (if b = l then (if a = r then 1 else 0) else 0)) := funext hsplit
    rw [this, sum_map_add, ← ih']
    unfold cntOf
    by_cases h2 : b = l
    · simp [h2, List.countP_cons, sum_indicator rs hnd a ha]
    · simp [h2, List.countP_cons, sum_map_zero]

/-! ### the bare `linktracker.LinkTracker` -/

/-- naive ledgers for the bare tracker: with-block and missing traversals of unfinished requests -/
def lghost : Ledger × Ledger → LOp → Ledger × Ledger
  | (wb, ms), .record r l true => (wb ++ [(r, l)], ms)
  | (wb, ms), .record r l false => (wb, ms ++ [(r, l)])
  | (wb, ms), .finish r => (dropReq wb r, dropReq ms r)

def lwb (h : List LOp) : Ledger := (h.foldl lghost ([], [])).1
def lms (h : List LOp) : Ledger := (h.foldl lghost ([], [])).2

theorem lsim_from {T : LinkTracker} {g : Ledger × Ledger} (h : Sim T g.1 g.2) (ops : List LOp) :
    Sim (lrunFrom T ops) (ops.foldl lghost g).1 (ops.foldl lghost g).2 := by
  induction ops generalizing T g with
  | nil => exact h
  | cons o os ih =>
    simp only [lrunFrom, List.foldl_cons]
    apply ih
    obtain ⟨wb, ms⟩ := g
    cases o with
    | record r l b =>
      cases b
      · exact sim_record_false h r l
      · exact sim_record_true h r l
    | finish r => exact (sim_finish h r).1

theorem lsim (h : List LOp) : Sim (lrun h) (lwb h) (lms h) := lsim_from sim_empty h

/-! ### runs -/


theorem Spec.runFrom_append (σ : Spec) (a b : List Op) :
    σ.runFrom (a ++ b) = ((Spec.runFrom (σ.runFrom a).1 b).1, (σ.runFrom a).2 ++ (Spec.runFrom (σ.runFrom a).1 b).2) := by
  induction a generalizing σ with
  | nil => simp [Spec.runFrom]
  | cons o os ih => simp [Spec.runFrom, ih]

theorem runFrom_append (p : PeerTracker) (a b : List Op) :
    runFrom p (a ++ b) = ((runFrom (runFrom p a).1 b).1, (runFrom p a).2 ++ (runFrom (runFrom p a).1 b).2) := by
  induction a generalizing p with
  | nil => simp [runFrom]
  | cons o os ih => simp [runFrom, ih]

theorem Spec.WFfrom_append (σ : Spec) (a b : List Op) :
    σ.WFfrom (a ++ b) ↔ σ.WFfrom a ∧ (σ.runFrom a).1.WFfrom b := by
  induction a generalizing σ with
  | nil => simp [Spec.WFfrom, Spec.runFrom]
  | cons o os ih => simp [Spec.WFfrom, Spec.runFrom, ih, and_assoc]

theorem specRun_snoc (h : List Op) (o : Op) : specRun (h ++ [o]) = ((specRun h).step o).1 := by
  simp [specRun, Spec.runFrom_append, Spec.runFrom]

theorem run_snoc (h : List Op) (o : Op) :
    run (h ++ [o]) = ((step (run h).1 o).1, (run h).2 ++ [(step (run h).1 o).2]) := by
  simp [run, runFrom_append, runFrom]

theorem WF_snoc (h : List Op) (o : Op) : WF (h ++ [o]) ↔ WF h ∧ (specRun h).ok o := by
  simp [WF, specRun, Spec.WFfrom_append, Spec.WFfrom]

theorem since_snoc (r : Req) (h : List Op) (o : Op) : since r (h ++ [o]) = sinceStep r (since r h) o := by
  simp [since, List.foldl_append]

/-- the model refines the specification on well-formed histories -/
theorem run_refines (h : List Op) (hwf : WF h) :
    R (run h).1 (specRun h) ∧ (run h).2 = (Spec.runFrom {} h).2 :=
  runFrom_refines R_init h hwf

/-! ### the specification state, characterised by scanning the history -/

/-- what the specification state says about request `r`, in terms of `since r h` -/
structure Char (σ : Spec) (r : Req) (acc : List Op) : Prop where
  scope : σ.scope r = acc.foldl (fun s o => match o with | .dedup _ k => some k | _ => s) none
  live : σ.live r = !acc.isEmpty
  miss : σ.sawMissing r = acc.any isMissTrav
  cnt : (σ.cnt r).getD 0 = acc.countP isTrav
  skp : (σ.skp r).getD 0 = acc.foldl (fun s o => match o with | .skip _ n => n | _ => s) 0
  wb : ∀ l, (∃ s, (s, r, l) ∈ σ.wb) ↔ l ∈ acc.flatMap wbLinks
  ms : ∀ l, (∃ s, (s, r, l) ∈ σ.ms) → acc ≠ []
  idle : acc = [] → σ.scope r = none ∧ σ.cnt r = none ∧ σ.skp r = none

theorem char_init (r : Req) : Char {} r [] := by
  constructor <;> simp [Spec.sawMissing]

theorem char_step {σ : Spec} {r : Req} {acc : List Op} (h : Char σ r acc) (o : Op) :
    Char (σ.step o).1 r (sinceStep r acc o) := by
  unfold sinceStep
  by_cases hr : o.req = r
  · -- an operation of `r`
    cases o with
    | dedup r' k =>
      simp only [Op.req] at hr; subst hr
      simp only [Op.req, Op.isEnd, if_true, Bool.false_eq_true, if_false]
      constructor
      · simp [Spec.step, List.foldl_append]
      · simp [Spec.step]
      · simpa [Spec.step, Spec.sawMissing, isMissTrav] using h.miss
      · simpa [Spec.step, List.countP_append, isTrav] using h.cnt
      · simpa [Spec.step, List.foldl_append] using h.skp
      · intro l; simpa [Spec.step, List.flatMap_append, wbLinks] using h.wb l
      · intro l; simp
      · simp
    | ignore r' ls =>
      simp only [Op.req] at hr; subst hr
      simp only [Op.req, Op.isEnd, if_true, Bool.false_eq_true, if_false]
      constructor
      · simpa [Spec.step, List.foldl_append] using h.scope
      · simp [Spec.step]
      · simpa [Spec.step, Spec.sawMissing, isMissTrav] using h.miss
      · simpa [Spec.step, List.countP_append, isTrav] using h.cnt
      · simpa [Spec.step, List.foldl_append] using h.skp
      · intro l
        simp only [Spec.step, List.mem_append, List.mem_map, List.flatMap_append, List.flatMap_cons,
          List.flatMap_nil, wbLinks, List.append_nil]
        rw [← h.wb l]
        constructor
        · rintro ⟨s, hs | ⟨l', hl', heq⟩⟩
          · exact Or.inl ⟨s, hs⟩
          · simp at heq; rw [← heq.2]; exact Or.inr hl'
        · rintro (⟨s, hs⟩ | hl)
          · exact ⟨s, Or.inl hs⟩
          · exact ⟨σ.scope r', Or.inr ⟨l, hl, rfl⟩⟩
      · intro l; simp
      · simp
    | skip r' n =>
      simp only [Op.req] at hr; subst hr
      simp only [Op.req, Op.isEnd, if_true, Bool.false_eq_true, if_false]
      constructor
      · simpa [Spec.step, List.foldl_append] using h.scope
      · simp [Spec.step]
      · simpa [Spec.step, Spec.sawMissing, isMissTrav] using h.miss
      · simpa [Spec.step, List.countP_append, isTrav] using h.cnt
      · simp [Spec.step, List.foldl_append]
      · intro l; simpa [Spec.step, List.flatMap_append, wbLinks] using h.wb l
      · intro l; simp
      · simp
    | trav r' l b =>
      simp only [Op.req] at hr; subst hr
      simp only [Op.req, Op.isEnd, if_true, Bool.false_eq_true, if_false]
      constructor
      · simpa [List.foldl_append] using h.scope
      · cases b <;> simp [Spec.step]
      · have := h.miss
        unfold Spec.sawMissing at this ⊢
        cases b <;> simp [Spec.step, isMissTrav, List.any_append, this]
      · have := h.cnt
        simp [List.countP_append, isTrav, this]
      · simpa [List.foldl_append] using h.skp
      · intro l'
        simp only [trav_wb, List.flatMap_append, List.flatMap_cons, List.flatMap_nil, List.append_nil,
          List.mem_append]
        rw [← h.wb l']
        cases b with
        | true =>
          simp only [if_true, List.mem_append, List.mem_singleton, wbLinks]
          constructor
          · rintro ⟨s, hs | heq⟩
            · exact Or.inl ⟨s, hs⟩
            · simp at heq; exact Or.inr heq.2
          · rintro (⟨s, hs⟩ | hl)
            · exact ⟨s, Or.inl hs⟩
            · exact ⟨σ.scope r', Or.inr (by rw [hl])⟩
        | false => simp [wbLinks]
      · intro l'; simp
      · simp
    | finish r' =>
      simp only [Op.req] at hr; subst hr
      simp only [Op.req, Op.isEnd, if_true]
      constructor <;> simp [Spec.step, Spec.endReq, Spec.sawMissing]
    | finishErr r' =>
      simp only [Op.req] at hr; subst hr
      simp only [Op.req, Op.isEnd, if_true]
      constructor <;> simp [Spec.step, Spec.endReq, Spec.sawMissing]
    | clear r' =>
      simp only [Op.req] at hr; subst hr
      simp only [Op.req, Op.isEnd, if_true]
      constructor <;> simp [Spec.step, Spec.endReq, Spec.sawMissing]
  · -- an operation of another request leaves everything about `r` alone
    simp only [hr, if_false]
    have hne : r ≠ o.req := fun h2 => hr h2.symm
    cases o with
    | dedup r' k =>
      simp only [Op.req] at hne
      exact ⟨by simpa [Spec.step, upd, hne] using h.scope, by simpa [Spec.step, upd, hne] using h.live,
        h.miss, h.cnt, h.skp, h.wb, h.ms, by simpa [Spec.step, upd, hne] using h.idle⟩
    | ignore r' ls =>
      simp only [Op.req] at hne
      refine ⟨h.scope, by simpa [Spec.step, upd, hne] using h.live, h.miss, h.cnt, h.skp, ?_, h.ms, h.idle⟩
      intro l
      rw [← h.wb l]
      simp only [Spec.step, List.mem_append, List.mem_map]
      constructor
      · rintro ⟨s, hs | ⟨l', _, heq⟩⟩
        · exact ⟨s, hs⟩
        · simp at heq; exact absurd heq.2.1.symm hne
      · rintro ⟨s, hs⟩; exact ⟨s, Or.inl hs⟩
    | skip r' n =>
      simp only [Op.req] at hne
      exact ⟨h.scope, by simpa [Spec.step, upd, hne] using h.live, h.miss, h.cnt,
        by simpa [Spec.step, upd, hne] using h.skp, h.wb, h.ms, by simpa [Spec.step, upd, hne] using h.idle⟩
    | trav r' l b =>
      simp only [Op.req] at hne
      have hne' : ¬ r' = r := fun h2 => hne h2.symm
      refine ⟨by simpa using h.scope, by cases b <;> simpa [Spec.step, upd, hne] using h.live, ?_,
        by simpa [upd, hne] using h.cnt, by simpa using h.skp, ?_, ?_, by simpa [upd, hne] using h.idle⟩
      · have := h.miss
        unfold Spec.sawMissing at this ⊢
        cases b <;> simp [Spec.step, List.any_append, this, hne']
      · intro l'
        rw [← h.wb l']
        cases b <;> simp [hne]
      · intro l'
        cases b
        · simp only [trav_ms, Bool.false_eq_true, if_false, List.mem_append, List.mem_singleton]
          rintro ⟨s, hs | heq⟩
          · exact h.ms l' ⟨s, hs⟩
          · simp at heq; exact absurd heq.2.1 hne
        · simpa using h.ms l'
    | finish r' =>
      simp only [Op.req] at hne
      have hne' : ¬ r' = r := fun h2 => hne h2.symm
      refine ⟨by simpa [Spec.step, Spec.endReq, upd, hne] using h.scope,
        by simpa [Spec.step, Spec.endReq, upd, hne] using h.live, ?_,
        by simpa [Spec.step, Spec.endReq, upd, hne] using h.cnt,
        by simpa [Spec.step, Spec.endReq, upd, hne] using h.skp, ?_, ?_,
        by simpa [Spec.step, Spec.endReq, upd, hne] using h.idle⟩
      · rw [← h.miss]
        simp only [Spec.step, Spec.endReq, Spec.sawMissing]
        rw [Bool.eq_iff_iff]
        simp only [List.any_eq_true, List.mem_filter]
        constructor
        · rintro ⟨e, ⟨he, _⟩, h2⟩; exact ⟨e, he, h2⟩
        · rintro ⟨e, he, h2⟩
          refine ⟨e, ⟨he, ?_⟩, h2⟩
          have : e.2.1 = r := by simpa using h2
          simp [this, hne]
      · intro l
        rw [← h.wb l]
        simp [Spec.step, Spec.endReq, hne]
      · intro l
        simp only [Spec.step, Spec.endReq, List.mem_filter]
        rintro ⟨s, hs, _⟩; exact h.ms l ⟨s, hs⟩
    | finishErr r' =>
      simp only [Op.req] at hne
      have hne' : ¬ r' = r := fun h2 => hne h2.symm
      refine ⟨by simpa [Spec.step, Spec.endReq, upd, hne] using h.scope,
        by simpa [Spec.step, Spec.endReq, upd, hne] using h.live, ?_,
        by simpa [Spec.step, Spec.endReq, upd, hne] using h.cnt,
        by simpa [Spec.step, Spec.endReq, upd, hne] using h.skp, ?_, ?_,
        by simpa [Spec.step, Spec.endReq, upd, hne] using h.idle⟩
      · rw [← h.miss]
        simp only [Spec.step, Spec.endReq, Spec.sawMissing]
        rw [Bool.eq_iff_iff]
        simp only [List.any_eq_true, List.mem_filter]
        constructor
        · rintro ⟨e, ⟨he, _⟩, h2⟩; exact ⟨e, he, h2⟩
        · rintro ⟨e, he, h2⟩
          refine ⟨e, ⟨he, ?_⟩, h2⟩
          have : e.2.1 = r := by simpa using h2
          simp [this, hne]
      · intro l
        rw [← h.wb l]
        simp [Spec.step, Spec.endReq, hne]
      · intro l
        simp only [Spec.step, Spec.endReq, List.mem_filter]
        rintro ⟨s, hs, _⟩; exact h.ms l ⟨s, hs⟩
    | clear r' =>
      simp only [Op.req] at hne
      have hne' : ¬ r' = r := fun h2 => hne h2.symm
      refine ⟨by simpa [Spec.step, Spec.endReq, upd, hne] using h.scope,
        by simpa [Spec.step, Spec.endReq, upd, hne] using h.live, ?_,
        by simpa [Spec.step, Spec.endReq, upd, hne] using h.cnt,
        by simpa [Spec.step, Spec.endReq, upd, hne] using h.skp, ?_, ?_,
        by simpa [Spec.step, Spec.endReq, upd, hne] using h.idle⟩
      · rw [← h.miss]
        simp only [Spec.step, Spec.endReq, Spec.sawMissing]
        rw [Bool.eq_iff_iff]
        simp only [List.any_eq_true, List.mem_filter]
        constructor
        · rintro ⟨e, ⟨he, _⟩, h2⟩; exact ⟨e, he, h2⟩
        · rintro ⟨e, he, h2⟩
          refine ⟨e, ⟨he, ?_⟩, h2⟩
          have : e.2.1 = r := by simpa using h2
          simp [this, hne]
      · intro l
        rw [← h.wb l]
        simp [Spec.step, Spec.endReq, hne]
      · intro l
        simp only [Spec.step, Spec.endReq, List.mem_filter]
        rintro ⟨s, hs, _⟩; exact h.ms l ⟨s, hs⟩

theorem char_runFrom {σ : Spec} {r : Req} {acc : List Op} (h : Char σ r acc) (ops : List Op) :
    Char (σ.runFrom ops).1 r (ops.foldl (sinceStep r) acc) := by
  induction ops generalizing σ acc with
  | nil => exact h
  | cons o os ih => simp only [Spec.runFrom, List.foldl_cons]; exact ih (char_step h o)

/-- the specification state after `h`, read off the history -/
theorem char_specRun (h : List Op) (r : Req) : Char (specRun h) r (since r h) :=
  char_runFrom (char_init r) h

/-! ### persistence of a request's records while it has not ended -/

theorem persist_step (g : List Op) (o : Op) (r' : Req) (l : Link) (hwf : WF (g ++ [o]))
    (hl : l ∈ withBlock r' g) (hne : ¬ (o.req = r' ∧ o.isEnd = true)) :
    l ∈ withBlock r' (g ++ [o]) ∧ scopeOf r' (g ++ [o]) = scopeOf r' g := by
  unfold withBlock scopeOf at *
  rw [since_snoc]
  unfold sinceStep
  by_cases hr : o.req = r'
  · have hend : o.isEnd = false := by
      cases he : o.isEnd
      · rfl
      · exact absurd ⟨hr, he⟩ hne
    simp only [hr, if_true, hend, Bool.false_eq_true, if_false, List.flatMap_append, List.mem_append,
      List.foldl_append]
    refine ⟨Or.inl hl, ?_⟩
    cases o with
    | dedup r k =>
      exfalso
      simp only [Op.req] at hr; subst hr
      have hok := ((WF_snoc g _).1 hwf).2
      simp only [Spec.ok, Spec.clean] at hok
      obtain ⟨s, hs⟩ := ((char_specRun g r).wb l).2 hl
      exact hok.2.1 _ hs rfl
    | _ => rfl
  · simp only [hr, if_false]
    exact ⟨hl, trivial⟩

theorem persist (g g' : List Op) (r' : Req) (l : Link) (hwf : WF (g ++ g'))
    (hl : l ∈ withBlock r' g) (hne : ∀ o ∈ g', ¬ (o.req = r' ∧ o.isEnd = true)) :
    l ∈ withBlock r' (g ++ g') ∧ scopeOf r' (g ++ g') = scopeOf r' g := by
  induction g' generalizing g with
  | nil => simpa using hl
  | cons o os ih =>
    have hsplit : g ++ o :: os = (g ++ [o]) ++ os := by simp
    rw [hsplit] at hwf ⊢
    have hwf1 : WF (g ++ [o]) := ((Spec.WFfrom_append _ _ _).1 hwf).1
    have h1 := persist_step g o r' l hwf1 hl (hne o List.mem_cons_self)
    have h2 := ih (g ++ [o]) hwf h1.1 (fun o' ho' => hne o' (List.mem_cons_of_mem _ ho'))
    exact ⟨h2.1, h2.2.trans h1.2⟩

/-! ### `getLinkTracker` never meets a missing alt tracker (all histories) -/

def AltPresent (p : PeerTracker) : Prop :=
  ∀ r k, aget p.dedupKeys r = some k → (aget p.alts k).isSome = true

theorem altPresent_init : AltPresent init := by
  intro r k h; simp [init] at h

theorem altPresent_set {p : PeerTracker} (h : AltPresent p) (s : Option Key) (T : LinkTracker) :
    AltPresent (p.setScopeTracker s T) := by
  intro r k hk
  rw [alts_set_isSome]
  simp only [set_dedupKeys] at hk
  simp [h r k hk]

theorem altPresent_step {p : PeerTracker} (h : AltPresent p) (o : Op) : AltPresent (step p o).1 := by
  have hfin : ∀ r, AltPresent (p.finishTracking r).1 := by
    intro r
    cases h0 : aget p.dedupKeys r with
    | none =>
      rw [finishTracking_none h0]
      intro r' k' hk; exact h r' k' hk
    | some k =>
      rw [finishTracking_some h0]
      intro r' k' hk
      simp only at hk ⊢
      rw [aget_aerase] at hk
      by_cases hr : r = r'
      · simp [hr] at hk
      · simp only [hr, if_false] at hk
        have hmem : (r', k') ∈ aerase p.dedupKeys r := mem_of_aget (by rw [aget_aerase]; simp [hr, hk])
        by_cases hkk : k = k'
        · subst hkk
          have hany : (aerase p.dedupKeys r).any (fun e => e.2 == k) = true :=
            List.any_eq_true.2 ⟨(r', k), hmem, by simp⟩
          simp [hany, aget_aset]
        · have := h r' k' hk
          split
          · rw [aget_aset]; simp [hkk, this]
          · rw [aget_aerase, aget_aset]; simp [hkk, this]
  cases o with
  | dedup r k =>
    intro r' k' hk
    simp only [step, PeerTracker.dedupKey, aget_aset] at hk ⊢
    by_cases hr : r = r'
    · simp only [hr, if_true, Option.some.injEq] at hk; subst hk
      cases hp : aget p.alts k <;> simp [hp, aget_aset]
    · simp only [hr, if_false] at hk
      have := h r' k' hk
      cases hp : aget p.alts k
      · simp only [hp, Option.isSome_none, Bool.false_eq_true, if_false, aget_aset]
        by_cases hkk : k = k' <;> simp [hkk, this]
      · simp [hp, this]
  | ignore r ls => exact altPresent_set h _ _
  | skip r n => intro r' k' hk; exact h r' k' hk
  | trav r l b =>
    simp only [step]
    rw [traverse_fst]
    intro r' k' hk
    exact altPresent_set h _ _ r' k' hk
  | finish r => exact hfin r
  | finishErr r => exact hfin r
  | clear r => exact hfin r

theorem altPresent_runFrom {p : PeerTracker} (h : AltPresent p) (ops : List Op) : AltPresent (runFrom p ops).1 := by
  induction ops generalizing p with
  | nil => exact h
  | cons o os ih => simp only [runFrom]; exact ih (altPresent_step h o)

/-! ### decidability of well-formedness (for concrete examples) -/

instance (σ : Spec) (r : Req) : Decidable (σ.clean r) := by unfold Spec.clean; infer_instance
instance (σ : Spec) (o : Op) : Decidable (σ.ok o) := by cases o <;> unfold Spec.ok <;> infer_instance
instance decWFfrom : (σ : Spec) → (ops : List Op) → Decidable (σ.WFfrom ops)
  | _, [] => isTrue trivial
  | σ, o :: os => by
    unfold Spec.WFfrom
    exact @instDecidableAnd _ _ inferInstance (decWFfrom _ os)
instance (h : List Op) : Decidable (WF h) := decWFfrom {} h

end GS.LinkTrack
