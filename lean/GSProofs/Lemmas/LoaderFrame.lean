import GS.Model.Loader
import GSProofs.Lemmas.LoaderInv
/-!
Frame lemmas of the loader model: which fields each operation touches (`pending`, `mra`, `isOpen`,
queue), and the behaviour of a loader that never went online.
-/
namespace GS.Loader

theorem recordRemoteAttempt_frame (s : State) (p : Path) (a : Action) :
    (recordRemoteAttempt s p a).pending = s.pending ∧ (recordRemoteAttempt s p a).mra = s.mra ∧
    (recordRemoteAttempt s p a).isOpen = s.isOpen := by
  unfold recordRemoteAttempt; split <;> exact ⟨rfl, rfl, rfl⟩

theorem waitRemote_frame (fuel : Nat) (s : State) :
    (waitRemote fuel s).1.pending = s.pending ∧ (waitRemote fuel s).1.mra = s.mra ∧
    (waitRemote fuel s).1.isOpen = s.isOpen := by
  induction fuel generalizing s with
  | zero => exact ⟨rfl, rfl, rfl⟩
  | succ n ih =>
    unfold waitRemote
    dsimp only
    split
    · split
      · exact ⟨rfl, rfl, rfl⟩
      · split
        · exact ⟨rfl, rfl, rfl⟩
        · rename_i v' _
          have h1 := ih (recordRemoteAttempt { s with rq := s.rq.consume, ver := some v' }
            (verPath s.record (s.ver.getD none)) (by assumption : Item).action)
          have h2 := recordRemoteAttempt_frame { s with rq := s.rq.consume, ver := some v' }
            (verPath s.record (s.ver.getD none)) (by assumption : Item).action
          exact ⟨h1.1.trans h2.1, h1.2.1.trans h2.2.1, h1.2.2.trans h2.2.2⟩
    · split <;> exact ⟨rfl, rfl, rfl⟩

theorem stillOnUnfollowed_frame (s : State) (p : Path) :
    (stillOnUnfollowed s p).1.pending = s.pending ∧ (stillOnUnfollowed s p).1.isOpen = s.isOpen := by
  unfold stillOnUnfollowed
  split
  · exact ⟨rfl, rfl⟩
  · split <;> exact ⟨rfl, rfl⟩

local macro "leaf" : tactic =>
  `(tactic| (refine ⟨fun h => ?_, fun r h => ?_⟩ <;> first | (cases h; done) | (cases h; exact ⟨rfl, _, rfl⟩)))

/-- a completed (re-)run leaves no parked load and remembers the attempt; a blocked one parks it -/
theorem run_pending (s : State) (p : Path) (c : Cid) :
    ((run s p c).2 = .blocked → (run s p c).1.pending = some (p, c)) ∧
    (∀ r, (run s p c).2 = .done r → (run s p c).1.pending = none ∧
        ∃ u, (run s p c).1.mra = some ⟨c, p, r.err.isNone, u⟩) := by
  unfold run
  dsimp only
  generalize waitRemote (s.rq.q.length + 1) s = w
  obtain ⟨s1, wt⟩ := w
  cases wt with
  | blocked => exact ⟨fun _ => rfl, fun r h => (by cases h)⟩
  | err e => leaf
  | offline => leaf
  | remote =>
    dsimp only
    generalize stillOnUnfollowed s1 p = su
    obtain ⟨s2, still⟩ := su
    dsimp only
    split
    · leaf
    · split
      · leaf
      · split
        · leaf
        · split <;> leaf

theorem load_pending (s : State) (p : Path) (c : Cid) :
    ((load s p c).2 = .blocked → (load s p c).1.pending = some (p, c)) ∧
    (∀ r, (load s p c).2 = .done r → (load s p c).1.pending = none ∧
        ∃ u, (load s p c).1.mra = some ⟨c, p, r.err.isNone, u⟩) := by
  unfold load
  dsimp only
  exact run_pending _ p c

theorem retry_eq (s : State) (a : Attempt) (h : s.mra = some a) :
    ∃ s2 : State, retry s = load s2 a.path a.link ∧ s2.store = s.store ∧ s2.isOpen = s.isOpen ∧
      s2.pending = s.pending := by
  unfold retry
  rw [h]
  dsimp only
  split
  · exact ⟨_, rfl, rfl, rfl, rfl⟩
  · exact ⟨_, rfl, rfl, rfl, rfl⟩

theorem setOnline_frame (s : State) (b : Bool) :
    (setOnline s b).pending = s.pending ∧ (setOnline s b).mra = s.mra ∧ (setOnline s b).store = s.store := by
  unfold setOnline; dsimp only; split <;> exact ⟨rfl, rfl, rfl⟩

theorem ingest_frame (s : State) (md : List (Cid × Action)) (bl : List (Cid × Blk)) :
    (ingest s md bl).pending = s.pending ∧ (ingest s md bl).mra = s.mra ∧ (ingest s md bl).store = s.store := by
  unfold ingest; split <;> (try split) <;> exact ⟨rfl, rfl, rfl⟩

theorem cleanup_frame (s : State) :
    (cleanup s).pending = s.pending ∧ (cleanup s).mra = s.mra ∧ (cleanup s).store = s.store :=
  ⟨rfl, rfl, rfl⟩

theorem wake_none (s : State) (h : s.pending = none) : wake s = (s, none) := by
  unfold wake; rw [h]

theorem wake_some (s : State) (p : Path) (c : Cid) (h : s.pending = some (p, c)) :
    (∀ r s', run s p c = (s', .done r) → wake s = (s', some r)) ∧
    (∀ s', run s p c = (s', .blocked) → wake s = (s', none)) := by
  constructor
  · intro r s' hr; unfold wake; simp only [h, hr]
  · intro s' hr; unfold wake; simp only [h, hr]

/-! ### a loader that is offline with an empty queue answers from the local store -/

structure Offline (s : State) : Prop where
  closed : s.isOpen = false
  empty  : s.rq.q = []
  nopend : s.pending = none

theorem run_offline (s : State) (p : Path) (c : Cid) (h : Offline s) :
    (run s p c).2 = .done (loadLocal s p c) ∧ Offline (run s p c).1 ∧ (run s p c).1.store = s.store := by
  have hw : waitRemote (s.rq.q.length + 1) s = (s, .offline) := by
    simp [waitRemote, h.empty, h.closed]
  unfold run
  dsimp only
  rw [hw]
  exact ⟨rfl, ⟨h.closed, h.empty, rfl⟩, rfl⟩

theorem load_offline (s : State) (p : Path) (c : Cid) (h : Offline s) :
    ∃ s1 : State, s1.store = s.store ∧ (load s p c).2 = .done (loadLocal s1 p c) ∧
      Offline (load s p c).1 ∧ (load s p c).1.store = s.store := by
  unfold load
  dsimp only
  split
  · rename_i a _
    have := run_offline { s with record := s.record.record a.path a.link a.successful, mra := none } p c
      ⟨h.closed, h.empty, h.nopend⟩
    exact ⟨_, rfl, this.1, this.2.1, this.2.2⟩
  · have := run_offline s p c h
    exact ⟨s, rfl, this.1, this.2.1, this.2.2⟩

theorem loadLocal_store (s1 s2 : State) (p : Path) (c : Cid) (h : s1.store = s2.store) :
    loadLocal s1 p c = loadLocal s2 p c := by
  unfold loadLocal; rw [h]


/-! ### RemoteMissingBlockErr always names the requested link and path -/

theorem verifyNext_not_missing (r : TRec) (v : Ver) (l : Cid) (ok : Bool) (e : LoadErr)
    (h : verifyNext r v l ok = .error e) : ∀ c p, e ≠ .missing c p := by
  intro c p hc
  subst hc
  unfold verifyNext at h
  split at h
  · cases h
  · dsimp only at h
    split at h
    · cases h
    · split at h
      · cases h
      · split at h <;> cases h

theorem waitRemote_not_missing (fuel : Nat) (s : State) (e : LoadErr)
    (h : (waitRemote fuel s).2 = .err e) : ∀ c p, e ≠ .missing c p := by
  induction fuel generalizing s with
  | zero => simp [waitRemote] at h
  | succ n ih =>
    unfold waitRemote at h
    dsimp only at h
    split at h
    · split at h
      · cases h
      · split at h
        · rename_i e' he
          simp only [Wait.err.injEq] at h
          subst h
          exact verifyNext_not_missing _ _ _ _ _ he
        · exact ih _ h
    · split at h <;> cases h

theorem loadLocal_missing (s : State) (p : Path) (c : Cid) (c' : Cid) (p' : Path)
    (h : (loadLocal s p c).err = some (.missing c' p')) : c' = c ∧ p' = p := by
  unfold loadLocal at h
  split at h
  · cases h
  · simp at h; exact ⟨h.1.symm, h.2.symm⟩

theorem run_missing (s : State) (p : Path) (c : Cid) (r : Result) (h : (run s p c).2 = .done r)
    (c' : Cid) (p' : Path) (he : r.err = some (.missing c' p')) : c' = c ∧ p' = p := by
  unfold run at h
  dsimp only at h
  have hnm := waitRemote_not_missing (s.rq.q.length + 1) s
  generalize waitRemote (s.rq.q.length + 1) s = w at h hnm
  obtain ⟨s1, wt⟩ := w
  cases wt with
  | blocked => cases h
  | err e =>
    cases h
    simp only [Option.some.injEq] at he
    exact absurd he (hnm e rfl c' p')
  | offline => cases h; exact loadLocal_missing _ _ _ _ _ he
  | remote =>
    dsimp only at h
    generalize stillOnUnfollowed s1 p = su at h
    obtain ⟨s2, still⟩ := su
    dsimp only at h
    split at h
    · cases h; exact loadLocal_missing _ _ _ _ _ he
    · split at h
      · cases h; exact loadLocal_missing _ _ _ _ _ he
      · split at h
        · cases h; simp at he
        · split at h
          · cases h; exact loadLocal_missing _ _ _ _ _ he
          · cases h; simp at he

theorem load_missing (s : State) (p : Path) (c : Cid) (r : Result) (h : (load s p c).2 = .done r)
    (c' : Cid) (p' : Path) (he : r.err = some (.missing c' p')) : c' = c ∧ p' = p := by
  unfold load at h
  dsimp only at h
  exact run_missing _ p c r h c' p' he

end GS.Loader
