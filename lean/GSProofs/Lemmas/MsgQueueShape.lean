import GSProofs.Lemmas.MsgQueueLedger
/-!
# Message queue: shapes of the builder list and of the work signal after extract / publishError / drain
-/
namespace GS.MQ
open GS.Alloc

theorem scrubAll_length (reqs : List Req) : ∀ (bs : List Builder), (scrubAll reqs bs).1.length ≤ bs.length
  | [] => by simp [scrubAll]
  | b :: r => by
    have := scrubAll_length reqs r
    simp only [scrubAll]
    split <;> simp only [List.length_cons] <;> omega

/-! ## unconditional frame of `publishError` -/

theorem publishError_shape (pick : Pick) (s : State) (m : InFlight) :
    (s.publishError pick m).builders = (scrubAll m.streams s.builders).1 ∧
    (s.publishError pick m).token = s.token ∧ (s.publishError pick m).done = s.done ∧
    (s.publishError pick m).pc = s.pc ∧ (s.publishError pick m).maxRetries = s.maxRetries ∧
    (s.publishError pick m).sender = s.sender := by
  unfold State.publishError
  simp only
  generalize hsc : scrubAll m.streams
    (({ s with closedStreams := m.streams.foldl (fun acc r => if acc.contains r then acc else acc ++ [r]) s.closedStreams } : State).emit
      (m.streams.map Event.streamClosed)).builders = sc
  have hsc' : sc = scrubAll m.streams s.builders := by rw [← hsc]; rfl
  obtain ⟨bs, freed⟩ := sc
  simp only
  have q : ∀ s3 : State, QFrame s3 (((if freed > 0 then s3.release pick freed else s3).publish m.topic Kind.error).release pick m.size) := by
    intro s3
    have q1 : QFrame s3 (if freed > 0 then s3.release pick freed else s3) := by
      split
      · exact release_qframe _ _ _
      · exact QFrame.refl _
    exact (q1.trans (publish_frame _ _ _).q).trans (release_qframe _ _ _)
  have := q ({ ({ s with closedStreams := m.streams.foldl (fun acc r => if acc.contains r then acc else acc ++ [r]) s.closedStreams } : State).emit
      (m.streams.map Event.streamClosed) with builders := bs } : State)
  refine ⟨?_, this.token, this.done, this.pc, this.maxRetries, this.sender⟩
  rw [this.builders]
  show bs = _
  rw [← hsc']

/-! ## `extract` -/

theorem dropEmpty_pre : ∀ (bs : List Builder), ∃ pre, bs = pre ++ dropEmpty bs ∧ ∀ b ∈ pre, b.empty = true
  | [] => ⟨[], rfl, by simp⟩
  | b :: r => by
    simp only [dropEmpty]
    split
    · next he =>
      obtain ⟨pre, h, hp⟩ := dropEmpty_pre r
      refine ⟨b :: pre, by rw [List.cons_append, ← h], ?_⟩
      intro x hx
      rcases List.mem_cons.mp hx with rfl | hx
      · exact he
      · exact hp x hx
    · exact ⟨[], rfl, by simp⟩

theorem dropEmpty_head {bs : List Builder} {b : Builder} {rest : List Builder} (h : dropEmpty bs = b :: rest) :
    b.empty = false := by
  induction bs with
  | nil => simp [dropEmpty] at h
  | cons x r ih =>
    simp only [dropEmpty] at h
    split at h
    · exact ih h
    · next hx => cases h; simpa using hx

/-- what `extractOutgoingMessage` does to the queue and the work signal -/
theorem extract_shape (s : State) :
    (∀ s', s.extract = (s', none) → s'.builders = [] ∧ (∀ b ∈ s.builders, b.empty = true) ∧ s'.token = s.token ∧
      s'.pc = s.pc ∧ s'.done = s.done ∧ s'.maxRetries = s.maxRetries ∧ s'.sender = s.sender) ∧
    (∀ s' m, s.extract = (s', some m) → ∃ pre b, s.builders = pre ++ b :: s'.builders ∧ (∀ x ∈ pre, x.empty = true) ∧
      b.empty = false ∧ m.topic = b.topic ∧ s'.token = (s.token || !s'.builders.isEmpty) ∧
      s'.pc = s.pc ∧ s'.done = s.done ∧ s'.maxRetries = s.maxRetries ∧ s'.sender = s.sender) := by
  obtain ⟨pre, hpre, hemp⟩ := dropEmpty_pre s.builders
  unfold State.extract
  cases hd : dropEmpty s.builders with
  | nil =>
    simp only
    constructor
    · intro s' he; cases he
      rw [hd, List.append_nil] at hpre
      exact ⟨rfl, by rw [hpre]; exact hemp, rfl, rfl, rfl, rfl, rfl⟩
    · intro s' m he; cases he
  | cons b rest =>
    simp only
    constructor
    · intro s' he; cases he
    · intro s' m he
      simp only [Prod.mk.injEq, Option.some.injEq] at he
      obtain ⟨he1, he2⟩ := he
      subst he1 he2
      have f := subscribe_frame ({ s with builders := rest, token := s.token || !rest.isEmpty }) b.topic (dedupSubs b.subs)
      refine ⟨pre, b, ?_, hemp, dropEmpty_head hd, rfl, ?_, f.pc, f.done, f.maxRetries, f.sender⟩
      · rw [f.builders]; rw [hd] at hpre; exact hpre
      · rw [f.token, f.builders]

/-- the shutdown drain empties the queue -/
theorem drain_builders_nil (pick : Pick) : ∀ (fuel : Nat) (s : State), s.builders.length ≤ fuel →
    (State.drain pick fuel s).builders = []
  | 0, s, h => by
    have : s.builders = [] := List.length_eq_zero_iff.mp (Nat.le_zero.mp h)
    exact this
  | fuel + 1, s, h => by
    obtain ⟨e1, e2⟩ := extract_shape s
    unfold State.drain
    cases he : s.extract with
    | mk s' om =>
      cases om with
      | none => exact (e1 s' he).1
      | some m =>
        obtain ⟨pre, b, hb, _⟩ := e2 s' m he
        simp only
        apply drain_builders_nil pick fuel
        rw [(closeTopic_frame _ _).builders, (publishError_shape pick s' m).1]
        have h1 := scrubAll_length m.streams s'.builders
        have h2 : s'.builders.length < s.builders.length := by
          rw [hb, List.length_append, List.length_cons]; omega
        omega

/-- the drain loop changes neither the position of the queue goroutine nor its configuration -/
theorem drain_shape (pick : Pick) : ∀ (fuel : Nat) (s : State),
    (State.drain pick fuel s).pc = s.pc ∧ (State.drain pick fuel s).done = s.done ∧
    (State.drain pick fuel s).maxRetries = s.maxRetries ∧ (State.drain pick fuel s).sender = s.sender
  | 0, s => ⟨rfl, rfl, rfl, rfl⟩
  | fuel + 1, s => by
    obtain ⟨e1, e2⟩ := extract_shape s
    unfold State.drain
    cases he : s.extract with
    | mk s' om =>
      cases om with
      | none =>
        obtain ⟨_, _, _, a4, a5, a6, a7⟩ := e1 s' he
        exact ⟨a4, a5, a6, a7⟩
      | some m =>
        obtain ⟨_, _, _, _, _, _, _, a4, a5, a6, a7⟩ := e2 s' m he
        simp only
        obtain ⟨_, _, p3, p4, p5, p6⟩ := publishError_shape pick s' m
        have f := closeTopic_frame (s'.publishError pick m) m.topic
        obtain ⟨i1, i2, i3, i4⟩ := drain_shape pick fuel ((s'.publishError pick m).closeTopic m.topic)
        exact ⟨i1.trans (f.pc.trans (p4.trans a4)), i2.trans (f.done.trans (p3.trans a5)),
          i3.trans (f.maxRetries.trans (p5.trans a6)), i4.trans (f.sender.trans (p6.trans a7))⟩

theorem setLast_length : ∀ (bs : List Builder) (b : Builder), (setLast bs b).length = bs.length
  | [], _ => rfl
  | [_], _ => rfl
  | x :: y :: r, b => by
    have := setLast_length (y :: r) b
    simp only [setLast, List.length_cons] at this ⊢; omega

theorem buildMessage_pc (pick : Pick) (s : State) (ticket : Nat) (tx : Tx) (size : Nat) :
    (s.buildMessage pick ticket tx size).pc = s.pc := by
  unfold State.buildMessage
  simp only
  split
  · split <;> rfl
  · split
    · split <;> split <;> rfl
    · split <;> split <;> rfl

/-- `buildMessage` adds at most one builder -/
theorem buildMessage_length (pick : Pick) (s : State) (ticket : Nat) (tx : Tx) (size : Nat) :
    (s.buildMessage pick ticket tx size).builders.length ≤ s.builders.length + 1 := by
  unfold State.buildMessage
  generalize hs0 : (if shouldBegin s.builders size = true
      then { s with builders := s.builders ++ [{ topic := s.nextTopic }], nextTopic := s.nextTopic + 1 }
      else s) = s0
  have h0 : s0.builders.length ≤ s.builders.length + 1 := by
    subst hs0; split
    · simp
    · omega
  simp only
  split
  · exact h0
  · next b hb =>
    have hl := setLast_length s0.builders (runFn s0.closedStreams b tx)
    split <;> split <;> (simp only [State.release, State.allocStep, State.emit]; omega)

theorem closed_pc {s s' : State} (h : s'.pc = s.pc) : s'.closed = s.closed := by
  unfold State.closed; rw [h]

theorem heldInFlight_closed {s : State} (h : s.closed = true) : heldInFlight s = 0 := by
  obtain ⟨peer, maxRetries, builders, nextTopic, token, done, sender, pc, closedStreams, waiters,
    nextTicket, topics, pubClosed, alloc, log⟩ := s
  cases pc <;> first | rfl | (simp [State.closed] at h)

/-- `buildMessage` as seen by callers keeps the position of the queue goroutine; on a closed queue it
    leaves the (empty) builder list empty -/
theorem buildMsg_pc (pick : Pick) (s : State) (ticket : Nat) (tx : Tx) (size : Nat) :
    (s.buildMsg pick ticket tx size).pc = s.pc := by
  unfold State.buildMsg
  split
  · rw [(drain_shape pick 1 _).1, buildMessage_pc]
  · exact buildMessage_pc _ _ _ _ _

theorem buildMsg_closed_nil (pick : Pick) (s : State) (ticket : Nat) (tx : Tx) (size : Nat)
    (hc : s.closed = true) (hb : s.builders = []) : (s.buildMsg pick ticket tx size).builders = [] := by
  unfold State.buildMsg
  rw [if_pos hc]
  apply drain_builders_nil
  have := buildMessage_length pick s ticket tx size
  rw [hb] at this; simpa using this

end GS.MQ
