import GS.Model.Allocator
import GS.Driver.Proto
/-! line-protocol driver for the allocator model (component `alloc`). -/
namespace GS.Driver.Alloc
open GS.Proto GS.Alloc

structure D where
  s : State
  nextTicket : Nat := 0
  seen : List Nat := []      -- peers mentioned so far, in first-appearance order

def render (d : D) (evs : List Event) : String :=
  let g := sortNat (evs.filterMap fun | .granted _ t _ => some t | _ => none)
  let f := sortNat (evs.filterMap fun | .failed _ t => some t | _ => none)
  let e := if evs.any (· == Event.errNoPeer) then "1" else "0"
  let peers := joinWith "," (d.seen.map fun p => s!"{p}={allocatedFor d.s p}")
  let st := stats d.s
  s!"g:{natList g} f:{natList f} err:{e} peers:{peers} stats:{st.totalAllocated}/{st.totalPending}/{st.peersPending}"

def see (d : D) (p : Nat) : D := if d.seen.contains p then d else { d with seen := d.seen ++ [p] }

def stepLine (d : D) (t : Toks) : D × String :=
  match t with
  | ["cfg", a, b] =>
    match a.toNat?, b.toNat? with
    | some a, some b => ({ s := init a b }, "ok")
    | _, _ => (d, "bad-op")
  | ["alloc", p, a] =>
    match p.toNat?, a.toNat? with
    | some p, some a =>
      let (s', evs) := alloc d.s p a d.nextTicket
      let d' := see { d with s := s', nextTicket := d.nextTicket + 1 } p
      (d', render d' evs)
    | _, _ => (d, "bad-op")
  | ["release", p, a] =>
    match p.toNat?, a.toNat? with
    | some p, some a =>
      let (s', evs) := release pickMin d.s p a
      let d' := see { d with s := s' } p
      (d', render d' evs)
    | _, _ => (d, "bad-op")
  | ["releasepeer", p] =>
    match p.toNat? with
    | some p =>
      let (s', evs) := releasePeer pickMin d.s p
      let d' := see { d with s := s' } p
      (d', render d' evs)
    | none => (d, "bad-op")
  | _ => (d, "bad-op")

def handler (ops : List Toks) : List String :=
  let (_, outs) := ops.foldl (fun (acc : D × List String) t =>
    let (d', o) := stepLine acc.1 t
    (d', o :: acc.2)) ({ s := init 0 0 }, [])
  outs.reverse

end GS.Driver.Alloc

def main : IO Unit := GS.Proto.runModel GS.Driver.Alloc.handler
