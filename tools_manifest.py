#!/usr/bin/env python3
"""Regenerates MANIFEST.json from checks/*.json + manifest_meta.json (so it is always schema-valid)."""
import json, os, glob
ROOT = os.path.dirname(os.path.abspath(__file__))
meta = json.load(open(os.path.join(ROOT, "manifest_meta.json")))
props = [json.loads(l)["id"] for l in open(os.path.join(ROOT, "properties.jsonl"))]
checks, claimed = [], set()
for pid in props:
    p = os.path.join(ROOT, "checks", pid + ".json")
    if not os.path.exists(p): continue
    c = json.load(open(p))
    if c.get("disabled"): continue
    m = c.get("manifest", {})
    claimed.add(pid)
    checks.append({
        "property_id": pid,
        "quick_cmd": f"./check {pid} --tier quick",
        "thorough_cmd": f"./check {pid} --tier thorough",
        "evidence_file": f"/verif/evidence/{pid}.json",
        "replay_cmd_template": f"./check {pid} --replay {{path}}",
        "engine": "lean4-proof+correspondence",
        "level_claimed": {"category": "proof",
                          "text": m.get("level_text", "Lean 4 theorems over an executable model of the anchored code, tied to /repo by a correspondence check and/or a regenerated translation on every run."),
                          "design_ref": f"DESIGN.md §4 {pid}"},
        "level_note": m.get("level_note", "; ".join(c.get("trusted_base", []))),
        "technique": m.get("technique", "Lean 4 machine-checked proof over a model + differential correspondence with the Go code"),
    })
na = [{"property_id": pid, "reason": meta["not_applicable"].get(pid, "not yet covered by a sound check in this framework (work in progress); no other technique substituted")}
      for pid in props if pid not in claimed]
man = {"version": 1, "setup_cmd": meta["setup_cmd"], "hooks": meta["hooks"], "engines": meta["engines"],
       "checks": checks, "notes": meta["notes"], "not_applicable": na}
json.dump(man, open(os.path.join(ROOT, "MANIFEST.json"), "w"), indent=1)
print(f"MANIFEST.json: {len(checks)} checks, {len(na)} not_applicable")
