import GS.Model.MsgQueue
/-!
# Message builders: byte accounting (`accounted`) under `apply`, `runFn`, `scrub`
-/
namespace GS.MQ

/-! ## sums -/

theorem sumNat_nil : sumNat [] = 0 := rfl
theorem sumNat_cons (a : Nat) (l : List Nat) : sumNat (a :: l) = a + sumNat l := rfl

theorem sumNat_append (a b : List Nat) : sumNat (a ++ b) = sumNat a + sumNat b := by
  induction a with
  | nil => simp [sumNat]
  | cons x r ih => simp only [List.cons_append, sumNat_cons, ih]; omega

/-- sum of the values of a map -/
def ksum (m : List (Nat × Nat)) : Nat := sumNat (m.map (·.2))

theorem ksum_cons (e : Nat × Nat) (m : List (Nat × Nat)) : ksum (e :: m) = e.2 + ksum m := rfl

theorem sum_filter_partition {α : Type} (f : α → Nat) (p : α → Bool) (l : List α) :
    sumNat (l.map f) = sumNat ((l.filter p).map f) + sumNat ((l.filter (fun x => !p x)).map f) := by
  induction l with
  | nil => rfl
  | cons x r ih =>
    by_cases hx : p x = true
    · simp only [List.map_cons, sumNat_cons, List.filter_cons, hx, if_true, Bool.not_true, ih]
      simp; omega
    · simp only [Bool.not_eq_true] at hx
      simp only [List.map_cons, sumNat_cons, List.filter_cons, hx, Bool.not_false, if_true, ih]
      simp; omega

/-! ## association lists -/

theorem ahas_aset {α : Type} (m : List (Nat × α)) (k : Nat) (v : α) (k' : Nat) :
    ahas (aset m k v) k' = (ahas m k' || k == k') := by
  induction m with
  | nil => simp [aset, ahas]
  | cons e r ih =>
    obtain ⟨ke, ve⟩ := e
    simp only [aset]
    by_cases h : (ke == k) = true
    · rw [if_pos h]
      have hk : ke = k := by simpa using h
      subst hk
      simp only [ahas, List.any_cons]
      by_cases h2 : (ke == k') = true <;> simp [h2]
    · rw [if_neg h]
      simp only [ahas, List.any_cons] at ih ⊢
      rw [ih, Bool.or_assoc]

theorem aset_ne_nil {α : Type} (m : List (Nat × α)) (k : Nat) (v : α) : aset m k v ≠ [] := by
  cases m with
  | nil => simp [aset]
  | cons e r => obtain ⟨ke, ve⟩ := e; simp only [aset]; split <;> simp

theorem aset_keys_nodup {α : Type} (m : List (Nat × α)) (k : Nat) (v : α)
    (h : (m.map (·.1)).Nodup) : ((aset m k v).map (·.1)).Nodup := by
  induction m with
  | nil => simp [aset]
  | cons e r ih =>
    obtain ⟨ke, ve⟩ := e
    simp only [List.map_cons, List.nodup_cons] at h
    simp only [aset]
    by_cases hk : (ke == k) = true
    · have : ke = k := by simpa using hk
      subst this
      rw [if_pos hk]
      simp only [List.map_cons, List.nodup_cons]
      exact h
    · rw [if_neg hk]
      simp only [List.map_cons, List.nodup_cons]
      refine ⟨?_, ih h.2⟩
      intro hmem
      obtain ⟨x, hx, hx1⟩ := List.mem_map.mp hmem
      have hh : ahas (aset r k v) ke = true := by
        unfold ahas; apply List.any_eq_true.mpr; exact ⟨x, hx, by simp [hx1]⟩
      rw [ahas_aset] at hh
      have hne : (k == ke) = false := by
        cases hkk : (k == ke) with
        | false => rfl
        | true => exfalso; apply hk; have : k = ke := by simpa using hkk
                  simp [this]
      rw [hne, Bool.or_false] at hh
      apply h.1
      unfold ahas at hh
      obtain ⟨y, hy, hy1⟩ := List.any_eq_true.mp hh
      exact List.mem_map.mpr ⟨y, hy, by simpa using hy1⟩

theorem ksum_aset_le (m : List (Nat × Nat)) (k v : Nat) : ksum (aset m k v) ≤ ksum m + v := by
  induction m with
  | nil => simp [aset, ksum, sumNat]
  | cons e r ih =>
    obtain ⟨ke, ve⟩ := e
    simp only [aset]
    split
    · simp only [ksum_cons]; omega
    · simp only [ksum_cons]; omega

theorem aget_of_mem {α : Type} (m : List (Nat × α)) (h : (m.map (·.1)).Nodup) {k : Nat} {v : α}
    (hm : (k, v) ∈ m) : aget m k = some v := by
  induction m with
  | nil => cases hm
  | cons e r ih =>
    obtain ⟨ke, ve⟩ := e
    simp only [List.map_cons, List.nodup_cons] at h
    simp only [aget]
    rcases List.mem_cons.mp hm with heq | hr
    · cases heq; simp
    · have : ke ≠ k := by
        intro hk; subst hk
        exact h.1 (List.mem_map.mpr ⟨(ke, v), hr, rfl⟩)
      simp [this, ih h.2 hr]

/-- a sub-map (distinct keys, every entry read from `m`) sums to at most the whole map -/
theorem ksum_le_of_submap : ∀ (S m : List (Nat × Nat)), (S.map (·.1)).Nodup →
    (∀ e ∈ S, aget m e.1 = some e.2) → ksum S ≤ ksum m
  | [], _, _, _ => by simp [ksum, sumNat]
  | (c, sz) :: S', m, hn, hs => by
    simp only [List.map_cons, List.nodup_cons] at hn
    -- remove the first occurrence of key c from m
    have key : ∀ (m : List (Nat × Nat)), aget m c = some sz →
        ∃ m', ksum m = sz + ksum m' ∧ ∀ k, k ≠ c → aget m' k = aget m k := by
      intro m
      induction m with
      | nil => intro h; simp [aget] at h
      | cons e r ih =>
        obtain ⟨ke, ve⟩ := e
        intro h
        simp only [aget] at h
        by_cases hk : (ke == c) = true
        · simp only [hk, if_true, Option.some.injEq] at h
          subst h
          refine ⟨r, rfl, ?_⟩
          intro k hkc
          have hke : ke = c := by simpa using hk
          have : (ke == k) = false := by
            cases hh : (ke == k) with
            | false => rfl
            | true => exfalso; apply hkc; have : ke = k := by simpa using hh
                      rw [← this, hke]
          simp [aget, this]
        · simp only [hk, if_false] at h
          obtain ⟨m', h1, h2⟩ := ih h
          refine ⟨(ke, ve) :: m', by simp only [ksum_cons, h1]; omega, ?_⟩
          intro k hkc
          simp only [aget]
          split
          · rfl
          · exact h2 k hkc
    obtain ⟨m', h1, h2⟩ := key m (hs (c, sz) (by simp))
    have ih := ksum_le_of_submap S' m' hn.2 (by
      intro e he
      have hne : e.1 ≠ c := by
        intro hc; apply hn.1; exact List.mem_map.mpr ⟨e, he, hc⟩
      rw [h2 e.1 hne]; exact hs e (List.mem_cons_of_mem _ he))
    simp only [ksum_cons, h1]; omega

/-! ## `savedBlocks` -/

theorem savedBlocks_spec (blocks : List (Cid × Nat)) (links : List (Cid × Bool)) :
    ((savedBlocks blocks links).map (·.1)).Nodup ∧
    ∀ e ∈ savedBlocks blocks links, aget blocks e.1 = some e.2 := by
  unfold savedBlocks
  suffices h : ∀ (init : List (Cid × Nat)), (init.map (·.1)).Nodup → (∀ e ∈ init, aget blocks e.1 = some e.2) →
      ((links.foldl (fun saved l =>
        match l.2, aget blocks l.1 with
        | true, some sz => if ahas saved l.1 then saved else saved ++ [(l.1, sz)]
        | _, _ => saved) init).map (·.1)).Nodup ∧
      ∀ e ∈ links.foldl (fun saved l =>
        match l.2, aget blocks l.1 with
        | true, some sz => if ahas saved l.1 then saved else saved ++ [(l.1, sz)]
        | _, _ => saved) init, aget blocks e.1 = some e.2 from h [] (by simp) (by simp)
  induction links with
  | nil => intro init h1 h2; exact ⟨h1, h2⟩
  | cons l r ih =>
    intro init h1 h2
    simp only [List.foldl_cons]
    apply ih
    · split
      · next sz hb hg =>
        split
        · exact h1
        · next hnh =>
          rw [List.map_append, List.nodup_append]
          refine ⟨h1, by simp, ?_⟩
          intro a ha b hb'
          simp at hb'; subst hb'
          intro hab; subst hab
          apply hnh
          obtain ⟨x, hx, hx1⟩ := List.mem_map.mp ha
          unfold ahas; apply List.any_eq_true.mpr; exact ⟨x, hx, by simp [hx1]⟩
      · exact h1
    · split
      · next sz hb hg =>
        split
        · exact h2
        · intro e he
          rcases List.mem_append.mp he with he | he
          · exact h2 e he
          · simp at he; subst he; exact hg
      · exact h2

/-! ## builder invariant -/

structure BInv (b : Builder) : Prop where
  blocksLe : ksum b.blocks ≤ b.blkSize
  nodupB : (b.blocks.map (·.1)).Nodup
  extResp : ∀ e ∈ b.exts, ahas b.responses e.1 = true
  emptyB : b.blocks = [] → b.blkSize = 0

theorem BInv.new (t : Topic) : BInv { topic := t } := by
  constructor <;> simp [ksum, sumNat]

theorem empty_accounted {b : Builder} (h : BInv b) (he : b.empty = true) : b.accounted = 0 := by
  unfold Builder.empty at he
  simp only [Bool.and_eq_true, List.isEmpty_iff] at he
  obtain ⟨⟨_, hb⟩, hr⟩ := he
  have h1 := h.emptyB hb
  have h2 : b.exts = [] := by
    cases hx : b.exts with
    | nil => rfl
    | cons e r =>
      have := h.extResp e (by rw [hx]; simp)
      rw [hr] at this; simp [ahas] at this
  unfold Builder.accounted Builder.extSize
  rw [h1, h2]; rfl

/-! ## `apply` -/

def esum (m : List (Req × List Nat)) : Nat := sumNat (m.map fun e => sumNat e.2)

theorem extSize_eq (b : Builder) : b.extSize = esum b.exts := rfl

theorem esum_aset_snoc (m : List (Req × List Nat)) (k sz : Nat) :
    esum (aset m k ((aget m k).getD [] ++ [sz])) = esum m + sz := by
  induction m with
  | nil => simp [aset, aget, esum, sumNat]
  | cons e r ih =>
    obtain ⟨ke, ve⟩ := e
    simp only [aset, aget]
    by_cases hk : (ke == k) = true
    · rw [if_pos hk, if_pos hk]
      simp only [Option.getD_some, esum, List.map_cons, sumNat_cons, sumNat_append, sumNat_nil]
      omega
    · rw [if_neg hk, if_neg hk]
      simp only [esum, List.map_cons, sumNat_cons] at ih ⊢
      rw [ih]; omega

theorem ahas_touch (rs : List (Req × List (Cid × Bool))) (r k : Nat) :
    ahas rs k = true → ahas (touchResponse rs r) k = true := by
  intro h
  unfold touchResponse
  split
  · exact h
  · unfold ahas at h ⊢; simp only [List.any_append, h, Bool.true_or]

theorem ahas_touch_self (rs : List (Req × List (Cid × Bool))) (r : Nat) :
    ahas (touchResponse rs r) r = true := by
  unfold touchResponse
  split
  · next h => exact h
  · unfold ahas; simp

theorem mem_aset {α : Type} (m : List (Nat × α)) (k : Nat) (v : α) {e : Nat × α} (h : e ∈ aset m k v) :
    e = (k, v) ∨ e ∈ m := by
  induction m with
  | nil => simp [aset] at h; exact Or.inl h
  | cons x r ih =>
    obtain ⟨kx, vx⟩ := x
    simp only [aset] at h
    split at h
    · rcases List.mem_cons.mp h with h | h
      · exact Or.inl h
      · exact Or.inr (List.mem_cons_of_mem _ h)
    · rcases List.mem_cons.mp h with h | h
      · exact Or.inr (by rw [h]; simp)
      · rcases ih h with h | h
        · exact Or.inl h
        · exact Or.inr (List.mem_cons_of_mem _ h)

theorem apply_spec {b : Builder} (h : BInv b) (r : Req) (it : Item) :
    BInv (b.apply r it) ∧ (b.apply r it).accounted = b.accounted + it.size ∧ (b.apply r it).topic = b.topic := by
  cases it with
  | block c sz send =>
    cases send with
    | true =>
      simp only [Builder.apply, if_true, Item.size]
      refine ⟨⟨?_, ?_, ?_, ?_⟩, ?_, (by first | rfl | trivial)⟩
      · show ksum (aset b.blocks c sz) ≤ b.blkSize + sz
        have := ksum_aset_le b.blocks c sz; have := h.blocksLe; omega
      · exact aset_keys_nodup _ _ _ h.nodupB
      · intro e he
        show ahas (aset b.responses r _) e.1 = true
        rw [ahas_aset, h.extResp e he]; rfl
      · intro hn; exact absurd hn (aset_ne_nil _ _ _)
      · show b.blkSize + sz + esum b.exts = b.blkSize + esum b.exts + sz
        omega
    | false =>
      simp only [Builder.apply, Item.size]
      refine ⟨⟨h.blocksLe, h.nodupB, ?_, h.emptyB⟩, (by first | rfl | trivial), (by first | rfl | trivial)⟩
      intro e he
      show ahas (aset b.responses r _) e.1 = true
      rw [ahas_aset, h.extResp e he]; rfl
  | missing c =>
    simp only [Builder.apply, Item.size]
    refine ⟨⟨h.blocksLe, h.nodupB, ?_, h.emptyB⟩, (by first | rfl | trivial), (by first | rfl | trivial)⟩
    intro e he
    show ahas (aset b.responses r _) e.1 = true
    rw [ahas_aset, h.extResp e he]; rfl
  | ext sz =>
    simp only [Builder.apply, Item.size]
    refine ⟨⟨h.blocksLe, h.nodupB, ?_, h.emptyB⟩, ?_, (by first | rfl | trivial)⟩
    · intro e he
      show ahas (touchResponse b.responses r) e.1 = true
      rcases mem_aset _ _ _ he with he | he
      · rw [he]; exact ahas_touch_self _ _
      · exact ahas_touch _ _ _ (h.extResp e he)
    · show b.blkSize + esum (aset b.exts r ((aget b.exts r).getD [] ++ [sz])) = b.blkSize + esum b.exts + sz
      rw [esum_aset_snoc]; omega
  | status code =>
    simp only [Builder.apply, Item.size]
    refine ⟨⟨h.blocksLe, h.nodupB, ?_, h.emptyB⟩, (by first | rfl | trivial), (by first | rfl | trivial)⟩
    intro e he
    exact ahas_touch _ _ _ (h.extResp e he)

theorem applyAll_spec {b : Builder} (h : BInv b) (r : Req) (items : List Item) :
    BInv (b.applyAll r items) ∧ (b.applyAll r items).accounted = b.accounted + itemsSize items ∧
    (b.applyAll r items).topic = b.topic := by
  unfold Builder.applyAll
  induction items generalizing b with
  | nil => exact ⟨h, by simp [itemsSize, sumNat], rfl⟩
  | cons it rest ih =>
    obtain ⟨h1, h2, h3⟩ := apply_spec h r it
    obtain ⟨i1, i2, i3⟩ := ih h1
    refine ⟨i1, ?_, i3.trans h3⟩
    simp only [List.foldl_cons]
    rw [i2, h2]
    simp only [itemsSize, List.map_cons, sumNat_cons]; omega

/-- the build function of a transaction adds exactly the bytes it reserved, or (closed stream,
    outgoing request) nothing -/
theorem runFn_spec {b : Builder} (h : BInv b) (closed : List Req) (tx : Tx) :
    BInv (runFn closed b tx) ∧ (runFn closed b tx).topic = b.topic ∧
    ((runFn closed b tx).accounted = b.accounted ∨
     (tx.who = .response ∧ (runFn closed b tx).accounted = b.accounted + itemsSize tx.items)) := by
  unfold runFn
  cases tx.who with
  | response =>
    simp only
    split
    · exact ⟨h, (by first | rfl | trivial), Or.inl (by first | rfl | trivial)⟩
    · obtain ⟨i1, i2, i3⟩ := applyAll_spec h tx.req tx.items
      exact ⟨⟨i1.blocksLe, i1.nodupB, i1.extResp, i1.emptyB⟩, i3, Or.inr ⟨(by first | rfl | trivial), i2⟩⟩
  | request =>
    simp only
    exact ⟨⟨h.blocksLe, h.nodupB, h.extResp, h.emptyB⟩, (by first | rfl | trivial), Or.inl (by first | rfl | trivial)⟩

/-! ## `scrub` -/

theorem scrub_spec {b : Builder} (h : BInv b) (reqs : List Req) :
    BInv (b.scrub reqs).1 ∧ b.accounted = (b.scrub reqs).1.accounted + (b.scrub reqs).2 ∧
    (b.scrub reqs).1.topic = b.topic := by
  have hs := savedBlocks_spec b.blocks ((adel b.responses reqs).flatMap (·.2))
  have hle : ksum (savedBlocks b.blocks ((adel b.responses reqs).flatMap (·.2))) ≤ b.blkSize :=
    Nat.le_trans (ksum_le_of_submap _ _ hs.1 hs.2) h.blocksLe
  refine ⟨⟨?_, hs.1, ?_, ?_⟩, ?_, rfl⟩
  · exact Nat.le_refl _
  · intro e he
    have he' : e ∈ adel b.exts reqs := he
    unfold adel at he'
    obtain ⟨he1, he2⟩ := List.mem_filter.mp he'
    have := h.extResp e he1
    show ahas (adel b.responses reqs) e.1 = true
    unfold ahas at this ⊢
    obtain ⟨x, hx, hx1⟩ := List.any_eq_true.mp this
    apply List.any_eq_true.mpr
    refine ⟨x, ?_, hx1⟩
    unfold adel
    apply List.mem_filter.mpr
    refine ⟨hx, ?_⟩
    have : x.1 = e.1 := by simpa using hx1
    rw [this]; exact he2
  · intro hn
    show ksum (savedBlocks b.blocks ((adel b.responses reqs).flatMap (·.2))) = 0
    have : savedBlocks b.blocks ((adel b.responses reqs).flatMap (·.2)) = [] := hn
    rw [this]; rfl
  · show b.blkSize + esum b.exts =
      ksum (savedBlocks b.blocks ((adel b.responses reqs).flatMap (·.2))) + esum (adel b.exts reqs) +
      (b.blkSize - ksum (savedBlocks b.blocks ((adel b.responses reqs).flatMap (·.2))) +
        sumNat ((b.exts.filter fun e => reqs.contains e.1).map fun e => sumNat e.2))
    have hp := sum_filter_partition (fun e : Req × List Nat => sumNat e.2) (fun e => reqs.contains e.1) b.exts
    have : esum b.exts = sumNat (b.exts.map fun e => sumNat e.2) := rfl
    have h2 : esum (adel b.exts reqs) = sumNat ((b.exts.filter fun x => !reqs.contains x.1).map fun e => sumNat e.2) := rfl
    rw [this, h2, hp]; omega

end GS.MQ
