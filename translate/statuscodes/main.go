// Command statuscodes regenerates lean/GS/Generated/StatusCodes.lean (properties C04, C03, C05) from
//
//	responsecode.go    the ResponseStatusCode constants, IsSuccess / IsFailure / IsTerminal as tables,
//	                   and the AsError mapping status -> error kind
//
// usage: go run ./statuscodes <repo>      (prints the Lean file; exits non-zero on syntax it does not know)
package main

import (
	"fmt"
	"go/ast"
	"go/parser"
	"go/token"
	"os"
	"path/filepath"
	"strconv"
	"strings"
)

var fset = token.NewFileSet()

func die(pos token.Pos, format string, a ...interface{}) {
	where := ""
	if pos.IsValid() {
		where = fset.Position(pos).String() + ": "
	}
	fmt.Fprintf(os.Stderr, "statuscodes: %s%s\n", where, fmt.Sprintf(format, a...))
	os.Exit(1)
}

type konst struct {
	name string
	val  int
}

var consts []konst
var constVal = map[string]int{}

// method of ResponseStatusCode with receiver named recv
func findMethod(f *ast.File, name string) (*ast.FuncDecl, string) {
	for _, d := range f.Decls {
		fd, ok := d.(*ast.FuncDecl)
		if !ok || fd.Recv == nil || fd.Name.Name != name || len(fd.Recv.List) != 1 {
			continue
		}
		id, ok := fd.Recv.List[0].Type.(*ast.Ident)
		if !ok || id.Name != "ResponseStatusCode" || len(fd.Recv.List[0].Names) != 1 {
			continue
		}
		return fd, fd.Recv.List[0].Names[0].Name
	}
	die(f.Pos(), "method ResponseStatusCode.%s not found", name)
	return nil, ""
}

func singleReturn(fd *ast.FuncDecl) ast.Expr {
	if len(fd.Body.List) != 1 {
		die(fd.Pos(), "%s: expected a single return statement", fd.Name.Name)
	}
	rs, ok := fd.Body.List[0].(*ast.ReturnStmt)
	if !ok || len(rs.Results) != 1 {
		die(fd.Pos(), "%s: expected a single return statement", fd.Name.Name)
	}
	return rs.Results[0]
}

// flatten a || b || c
func disjuncts(e ast.Expr) []ast.Expr {
	if p, ok := e.(*ast.ParenExpr); ok {
		return disjuncts(p.X)
	}
	if b, ok := e.(*ast.BinaryExpr); ok && b.Op == token.LOR {
		return append(disjuncts(b.X), disjuncts(b.Y)...)
	}
	return []ast.Expr{e}
}

// `recv == Const` -> value of Const
func eqConst(e ast.Expr, recv string) int {
	b, ok := e.(*ast.BinaryExpr)
	if !ok || b.Op != token.EQL {
		die(e.Pos(), "expected `%s == <constant>`", recv)
	}
	x, ok1 := b.X.(*ast.Ident)
	y, ok2 := b.Y.(*ast.Ident)
	if !ok1 || !ok2 || x.Name != recv {
		die(e.Pos(), "expected `%s == <constant>`", recv)
	}
	v, ok := constVal[y.Name]
	if !ok {
		die(e.Pos(), "unknown constant %s", y.Name)
	}
	return v
}

// `recv.Method()` -> Method
func recvCall(e ast.Expr, recv string) string {
	c, ok := e.(*ast.CallExpr)
	if !ok || len(c.Args) != 0 {
		die(e.Pos(), "expected `%s.<Method>()`", recv)
	}
	s, ok := c.Fun.(*ast.SelectorExpr)
	if !ok {
		die(e.Pos(), "expected `%s.<Method>()`", recv)
	}
	x, ok := s.X.(*ast.Ident)
	if !ok || x.Name != recv {
		die(e.Pos(), "expected `%s.<Method>()`", recv)
	}
	return s.Sel.Name
}

func natList(xs []int) string {
	ss := make([]string, len(xs))
	for i, x := range xs {
		ss[i] = strconv.Itoa(x)
	}
	return "[" + strings.Join(ss, ", ") + "]"
}

func main() {
	if len(os.Args) < 2 {
		die(token.NoPos, "usage: statuscodes <repo>")
	}
	path := filepath.Join(os.Args[1], "responsecode.go")
	f, err := parser.ParseFile(fset, path, nil, parser.SkipObjectResolution)
	if err != nil {
		die(token.NoPos, "parse %s: %v", path, err)
	}

	// ---- constants: Name = ResponseStatusCode(N)
	for _, d := range f.Decls {
		gd, ok := d.(*ast.GenDecl)
		if !ok || gd.Tok != token.CONST {
			continue
		}
		for _, sp := range gd.Specs {
			vs := sp.(*ast.ValueSpec)
			if len(vs.Names) != 1 || len(vs.Values) != 1 {
				die(vs.Pos(), "constant spec shape not understood")
			}
			call, ok := vs.Values[0].(*ast.CallExpr)
			if !ok || len(call.Args) != 1 {
				die(vs.Pos(), "constant %s: expected ResponseStatusCode(<int>)", vs.Names[0].Name)
			}
			fn, ok := call.Fun.(*ast.Ident)
			lit, ok2 := call.Args[0].(*ast.BasicLit)
			if !ok || !ok2 || fn.Name != "ResponseStatusCode" || lit.Kind != token.INT {
				die(vs.Pos(), "constant %s: expected ResponseStatusCode(<int>)", vs.Names[0].Name)
			}
			v, err := strconv.Atoi(lit.Value)
			if err != nil || v < 0 {
				die(vs.Pos(), "constant %s: bad value %s", vs.Names[0].Name, lit.Value)
			}
			consts = append(consts, konst{vs.Names[0].Name, v})
			constVal[vs.Names[0].Name] = v
		}
	}
	if len(consts) == 0 {
		die(f.Pos(), "no ResponseStatusCode constants found")
	}

	// ---- IsSuccess / IsFailure: return c == A || c == B ...
	table := func(name string) []int {
		fd, recv := findMethod(f, name)
		var out []int
		for _, d := range disjuncts(singleReturn(fd)) {
			out = append(out, eqConst(d, recv))
		}
		return out
	}
	success := table("IsSuccess")
	failure := table("IsFailure")

	// ---- IsTerminal: return c.IsSuccess() || c.IsFailure()
	{
		fd, recv := findMethod(f, "IsTerminal")
		ds := disjuncts(singleReturn(fd))
		if len(ds) != 2 || recvCall(ds[0], recv) != "IsSuccess" || recvCall(ds[1], recv) != "IsFailure" {
			die(fd.Pos(), "IsTerminal: expected `return %s.IsSuccess() || %s.IsFailure()`", recv, recv)
		}
	}

	// ---- AsError: if c.IsSuccess() { return nil }; switch c { case K: return KErr{} ... default: return fmt.Errorf("...%d", c) }
	type ecase struct {
		code int
		kind string
	}
	var cases []ecase
	var kinds []string
	var genericFmt string
	{
		fd, recv := findMethod(f, "AsError")
		if len(fd.Body.List) != 2 {
			die(fd.Pos(), "AsError: expected `if %s.IsSuccess() { return nil }` followed by a switch", recv)
		}
		ifs, ok := fd.Body.List[0].(*ast.IfStmt)
		if !ok || ifs.Init != nil || ifs.Else != nil || recvCall(ifs.Cond, recv) != "IsSuccess" || len(ifs.Body.List) != 1 {
			die(fd.Pos(), "AsError: first statement not understood")
		}
		rs, ok := ifs.Body.List[0].(*ast.ReturnStmt)
		if !ok || len(rs.Results) != 1 {
			die(ifs.Pos(), "AsError: success branch must `return nil`")
		}
		if id, ok := rs.Results[0].(*ast.Ident); !ok || id.Name != "nil" {
			die(ifs.Pos(), "AsError: success branch must `return nil`")
		}
		sw, ok := fd.Body.List[1].(*ast.SwitchStmt)
		if !ok || sw.Init != nil {
			die(fd.Pos(), "AsError: second statement must be `switch %s`", recv)
		}
		if tag, ok := sw.Tag.(*ast.Ident); !ok || tag.Name != recv {
			die(sw.Pos(), "AsError: second statement must be `switch %s`", recv)
		}
		seenKind := map[string]bool{}
		for _, st := range sw.Body.List {
			cc := st.(*ast.CaseClause)
			if len(cc.Body) != 1 {
				die(cc.Pos(), "AsError: case body must be a single return")
			}
			rs, ok := cc.Body[0].(*ast.ReturnStmt)
			if !ok || len(rs.Results) != 1 {
				die(cc.Pos(), "AsError: case body must be a single return")
			}
			if cc.List == nil { // default
				call, ok := rs.Results[0].(*ast.CallExpr)
				if !ok || len(call.Args) != 2 {
					die(cc.Pos(), "AsError: default must be fmt.Errorf(<format>, %s)", recv)
				}
				sel, ok := call.Fun.(*ast.SelectorExpr)
				lit, ok2 := call.Args[0].(*ast.BasicLit)
				arg, ok3 := call.Args[1].(*ast.Ident)
				if !ok || !ok2 || !ok3 || sel.Sel.Name != "Errorf" || lit.Kind != token.STRING || arg.Name != recv {
					die(cc.Pos(), "AsError: default must be fmt.Errorf(<format>, %s)", recv)
				}
				genericFmt, _ = strconv.Unquote(lit.Value)
				if !strings.Contains(genericFmt, "%d") {
					die(cc.Pos(), "AsError: the generic error text does not contain the status code (%%d)")
				}
				continue
			}
			cl, ok := rs.Results[0].(*ast.CompositeLit)
			if !ok || len(cl.Elts) != 0 {
				die(cc.Pos(), "AsError: case must return an empty composite literal of an error type")
			}
			tid, ok := cl.Type.(*ast.Ident)
			if !ok {
				die(cc.Pos(), "AsError: case must return an empty composite literal of an error type")
			}
			for _, e := range cc.List {
				id, ok := e.(*ast.Ident)
				if !ok {
					die(e.Pos(), "AsError: case label must be a constant")
				}
				v, ok := constVal[id.Name]
				if !ok {
					die(e.Pos(), "unknown constant %s", id.Name)
				}
				cases = append(cases, ecase{v, tid.Name})
			}
			if !seenKind[tid.Name] {
				seenKind[tid.Name] = true
				kinds = append(kinds, tid.Name)
			}
		}
		if genericFmt == "" {
			die(sw.Pos(), "AsError: no default case")
		}
	}

	// ---- print
	var b strings.Builder
	b.WriteString("/-\nGENERATED by translate/statuscodes from responsecode.go -- do not edit.\n")
	b.WriteString("Constants, IsSuccess / IsFailure / IsTerminal as tables, and the AsError mapping.\n-/\n")
	b.WriteString("namespace GS.Generated.StatusCodes\n\n")
	b.WriteString("/-- the ResponseStatusCode constants in source order -/\n")
	b.WriteString("def codes : List (String × Nat) :=\n  [")
	for i, k := range consts {
		if i > 0 {
			b.WriteString(",\n   ")
		}
		fmt.Fprintf(&b, "(%q, %d)", k.name, k.val)
	}
	b.WriteString("]\n\n")
	for _, k := range consts {
		fmt.Fprintf(&b, "def %s : Nat := %d\n", k.name, k.val)
	}
	b.WriteString("\n/-- `IsSuccess`: the constants of its `==`-disjunction -/\n")
	fmt.Fprintf(&b, "def successCodes : List Nat := %s\n", natList(success))
	b.WriteString("/-- `IsFailure`: the constants of its `==`-disjunction -/\n")
	fmt.Fprintf(&b, "def failureCodes : List Nat := %s\n\n", natList(failure))
	b.WriteString("def isSuccess (c : Nat) : Bool := successCodes.contains c\n")
	b.WriteString("def isFailure (c : Nat) : Bool := failureCodes.contains c\n")
	b.WriteString("/-- `IsTerminal`: `c.IsSuccess() || c.IsFailure()` -/\n")
	b.WriteString("def isTerminal (c : Nat) : Bool := isSuccess c || isFailure c\n\n")
	b.WriteString("/-- the error values `AsError` can return; `generic c` is the `fmt.Errorf` of the default case,\n")
	fmt.Fprintf(&b, "    whose text %q contains the status code -/\n", genericFmt)
	b.WriteString("inductive ErrKind where\n")
	for _, k := range kinds {
		fmt.Fprintf(&b, "  | %s\n", k)
	}
	b.WriteString("  | generic (code : Nat)\nderiving Repr, DecidableEq\n\n")
	b.WriteString("/-- the `case` clauses of the switch in `AsError` -/\n")
	b.WriteString("def asErrorCases : List (Nat × ErrKind) :=\n  [")
	for i, c := range cases {
		if i > 0 {
			b.WriteString(",\n   ")
		}
		fmt.Fprintf(&b, "(%d, ErrKind.%s)", c.code, c.kind)
	}
	b.WriteString("]\n\n")
	b.WriteString("/-- `AsError`: `none` = nil error -/\n")
	b.WriteString("def asError (c : Nat) : Option ErrKind :=\n")
	b.WriteString("  if isSuccess c then none\n")
	b.WriteString("  else match asErrorCases.lookup c with\n")
	b.WriteString("    | some k => some k\n")
	b.WriteString("    | none => some (ErrKind.generic c)\n\n")
	b.WriteString("end GS.Generated.StatusCodes\n")
	fmt.Print(b.String())
}
