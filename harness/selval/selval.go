// Package selval drives the real selectorvalidator.ValidateMaxRecursionDepth (component "selval",
// property C08) on selectors built with go-ipld-prime's real selector builder and on arbitrary
// IPLD nodes, and holds the independent oracle for C08.
//
// ops:
//
//	sel  <max> <selector prefix form>   -> v=<verdict> wf=<0|1> enc=<node prefix form>
//	node <max> <node prefix form>       -> v=<verdict>
//	alt  <max> <k> <k selector tokens> <node prefix form>  -> v=<verdict> parses=<0|1>
//	     (the node is a non-canonical encoding of the selector: shuffled / extra keys …)
//
// selector prefix form:  m | ms a b | a S | f n (s:key S)* | i idx S | r a b S
//
//	| R <none|d<int>> <-|!<nat>> S | e | u n S* | t s:adl S
//
// node prefix form:      N | T | F | I<int> | s:<text> | y:<text> | K<nat> | L<n> node* | M<n> (s:key node)*
package selval

import (
	"bufio"
	"errors"
	"fmt"
	"math/rand"
	"strconv"
	"strings"

	"github.com/ipfs/go-cid"
	"github.com/ipld/go-ipld-prime/datamodel"
	"github.com/ipld/go-ipld-prime/fluent"
	cidlink "github.com/ipld/go-ipld-prime/linking/cid"
	"github.com/ipld/go-ipld-prime/node/basicnode"
	"github.com/ipld/go-ipld-prime/traversal/selector"
	"github.com/ipld/go-ipld-prime/traversal/selector/builder"
	"github.com/multiformats/go-multihash"

	"github.com/ipfs/go-graphsync/selectorvalidator"

	"verifharness/reg"
)

func init() {
	reg.Register(&reg.Component{Name: "selval", Gen: Gen, Run: Run})
}

// ---------------------------------------------------------------- selector AST (harness side)

type Sel struct {
	Kind   string // m ms a f i r R e u t
	A, B   int64  // ms: from,to; i: index; r: start,end
	Keys   []string
	Kids   []*Sel // next / field values / members / sequence
	None   bool   // R: limit none
	Depth  int64  // R: limit depth
	Stop   int64  // R: stopAt link number, -1 = absent
	Adl    string
	tokens int
}

func strTok(t string) (string, bool) {
	if strings.HasPrefix(t, "s:") {
		return t[2:], true
	}
	return "", false
}

// ParseSel parses one selector in prefix form; returns the rest of the tokens.
func ParseSel(t []string) (*Sel, []string, error) {
	if len(t) == 0 {
		return nil, nil, errors.New("eof")
	}
	bad := fmt.Errorf("bad selector token %q", t[0])
	head, rest := t[0], t[1:]
	one := func(s *Sel) (*Sel, []string, error) {
		k, r, err := ParseSel(rest)
		if err != nil {
			return nil, nil, err
		}
		s.Kids = []*Sel{k}
		return s, r, nil
	}
	switch head {
	case "m", "e":
		return &Sel{Kind: head}, rest, nil
	case "ms":
		if len(rest) < 2 {
			return nil, nil, bad
		}
		a, e1 := strconv.ParseInt(rest[0], 10, 64)
		b, e2 := strconv.ParseInt(rest[1], 10, 64)
		if e1 != nil || e2 != nil {
			return nil, nil, bad
		}
		return &Sel{Kind: "ms", A: a, B: b}, rest[2:], nil
	case "a":
		return one(&Sel{Kind: "a"})
	case "i":
		if len(rest) < 1 {
			return nil, nil, bad
		}
		a, e1 := strconv.ParseInt(rest[0], 10, 64)
		if e1 != nil {
			return nil, nil, bad
		}
		rest = rest[1:]
		return one(&Sel{Kind: "i", A: a})
	case "r":
		if len(rest) < 2 {
			return nil, nil, bad
		}
		a, e1 := strconv.ParseInt(rest[0], 10, 64)
		b, e2 := strconv.ParseInt(rest[1], 10, 64)
		if e1 != nil || e2 != nil {
			return nil, nil, bad
		}
		rest = rest[2:]
		return one(&Sel{Kind: "r", A: a, B: b})
	case "R":
		if len(rest) < 2 {
			return nil, nil, bad
		}
		s := &Sel{Kind: "R", Stop: -1}
		if rest[0] == "none" {
			s.None = true
		} else if strings.HasPrefix(rest[0], "d") {
			d, err := strconv.ParseInt(rest[0][1:], 10, 64)
			if err != nil {
				return nil, nil, bad
			}
			s.Depth = d
		} else {
			return nil, nil, bad
		}
		if rest[1] != "-" {
			if !strings.HasPrefix(rest[1], "!") {
				return nil, nil, bad
			}
			c, err := strconv.ParseUint(rest[1][1:], 10, 62)
			if err != nil {
				return nil, nil, bad
			}
			s.Stop = int64(c)
		}
		rest = rest[2:]
		return one(s)
	case "t":
		if len(rest) < 1 {
			return nil, nil, bad
		}
		adl, ok := strTok(rest[0])
		if !ok {
			return nil, nil, bad
		}
		rest = rest[1:]
		return one(&Sel{Kind: "t", Adl: adl})
	case "u", "f":
		if len(rest) < 1 {
			return nil, nil, bad
		}
		n, err := strconv.Atoi(rest[0])
		if err != nil || n < 0 {
			return nil, nil, bad
		}
		rest = rest[1:]
		s := &Sel{Kind: head}
		for j := 0; j < n; j++ {
			if head == "f" {
				if len(rest) < 1 {
					return nil, nil, bad
				}
				k, ok := strTok(rest[0])
				if !ok {
					return nil, nil, bad
				}
				s.Keys = append(s.Keys, k)
				rest = rest[1:]
			}
			k, r, err := ParseSel(rest)
			if err != nil {
				return nil, nil, err
			}
			s.Kids = append(s.Kids, k)
			rest = r
		}
		return s, rest, nil
	}
	return nil, nil, bad
}

func (s *Sel) String() string {
	var sb strings.Builder
	s.write(&sb)
	return strings.TrimSpace(sb.String())
}

func (s *Sel) write(sb *strings.Builder) {
	switch s.Kind {
	case "m", "e":
		sb.WriteString(s.Kind + " ")
	case "ms":
		fmt.Fprintf(sb, "ms %d %d ", s.A, s.B)
	case "a":
		sb.WriteString("a ")
	case "i":
		fmt.Fprintf(sb, "i %d ", s.A)
	case "r":
		fmt.Fprintf(sb, "r %d %d ", s.A, s.B)
	case "R":
		if s.None {
			sb.WriteString("R none ")
		} else {
			fmt.Fprintf(sb, "R d%d ", s.Depth)
		}
		if s.Stop < 0 {
			sb.WriteString("- ")
		} else {
			fmt.Fprintf(sb, "!%d ", s.Stop)
		}
	case "t":
		fmt.Fprintf(sb, "t s:%s ", s.Adl)
	case "u":
		fmt.Fprintf(sb, "u %d ", len(s.Kids))
	case "f":
		fmt.Fprintf(sb, "f %d ", len(s.Kids))
		for j, k := range s.Kids {
			fmt.Fprintf(sb, "s:%s ", s.Keys[j])
			k.write(sb)
		}
		return
	}
	for _, k := range s.Kids {
		k.write(sb)
	}
}

// Buildable: no fields clause repeats a key (the map assembler would refuse)
func (s *Sel) Buildable() bool {
	if s.Kind == "f" {
		seen := map[string]bool{}
		for _, k := range s.Keys {
			if seen[k] {
				return false
			}
			seen[k] = true
		}
	}
	for _, k := range s.Kids {
		if !k.Buildable() {
			return false
		}
	}
	return true
}

// LinkFor: the link standing for abstract link number c
func LinkFor(c uint64) datamodel.Link {
	h, _ := multihash.Sum([]byte(fmt.Sprintf("verif-link-%d", c)), multihash.SHA2_256, -1)
	return cidlink.Link{Cid: cid.NewCidV1(cid.Raw, h)}
}

var linkNumbers = map[string]uint64{}

func linkNumber(l datamodel.Link) uint64 {
	if n, ok := linkNumbers[l.String()]; ok {
		return n
	}
	return 1 << 62 // unknown
}

func rememberLink(c uint64) datamodel.Link {
	l := LinkFor(c)
	linkNumbers[l.String()] = c
	return l
}

// Build: the selector node, made with go-ipld-prime's real SelectorSpecBuilder (stopAt, for which
// the builder has no method, is added to the builder's own ExploreRecursive node).
func (s *Sel) Build(ssb builder.SelectorSpecBuilder) builder.SelectorSpec {
	switch s.Kind {
	case "m":
		return ssb.Matcher()
	case "ms":
		return ssb.MatcherSubset(s.A, s.B)
	case "e":
		return ssb.ExploreRecursiveEdge()
	case "a":
		return ssb.ExploreAll(s.Kids[0].Build(ssb))
	case "i":
		return ssb.ExploreIndex(s.A, s.Kids[0].Build(ssb))
	case "r":
		return ssb.ExploreRange(s.A, s.B, s.Kids[0].Build(ssb))
	case "t":
		return ssb.ExploreInterpretAs(s.Adl, s.Kids[0].Build(ssb))
	case "u":
		ms := make([]builder.SelectorSpec, len(s.Kids))
		for j, k := range s.Kids {
			ms[j] = k.Build(ssb)
		}
		return ssb.ExploreUnion(ms...)
	case "f":
		return ssb.ExploreFields(func(efsb builder.ExploreFieldsSpecBuilder) {
			for j, k := range s.Kids {
				efsb.Insert(s.Keys[j], k.Build(ssb))
			}
		})
	case "R":
		lim := selector.RecursionLimitNone()
		if !s.None {
			lim = selector.RecursionLimitDepth(s.Depth)
		}
		spec := ssb.ExploreRecursive(lim, s.Kids[0].Build(ssb))
		if s.Stop < 0 {
			return spec
		}
		inner, _ := spec.Node().LookupByString(selector.SelectorKey_ExploreRecursive)
		n := fluent.MustBuildMap(basicnode.Prototype.Any, 1, func(na fluent.MapAssembler) {
			na.AssembleEntry(selector.SelectorKey_ExploreRecursive).CreateMap(3, func(na fluent.MapAssembler) {
				for it := inner.MapIterator(); !it.Done(); {
					k, v, _ := it.Next()
					ks, _ := k.AsString()
					na.AssembleEntry(ks).AssignNode(v)
				}
				na.AssembleEntry(selector.SelectorKey_StopAt).CreateMap(1, func(na fluent.MapAssembler) {
					na.AssembleEntry("/").AssignLink(rememberLink(uint64(s.Stop)))
				})
			})
		})
		return nodeSpec{n}
	}
	panic("unknown selector kind " + s.Kind)
}

type nodeSpec struct{ n datamodel.Node }

func (ns nodeSpec) Node() datamodel.Node                 { return ns.n }
func (ns nodeSpec) Selector() (selector.Selector, error) { return selector.ParseSelector(ns.n) }

// ---------------------------------------------------------------- nodes in prefix form

func ParseNode(t []string) (datamodel.Node, []string, error) {
	if len(t) == 0 {
		return nil, nil, errors.New("eof")
	}
	head, rest := t[0], t[1:]
	bad := fmt.Errorf("bad node token %q", head)
	switch {
	case head == "N":
		return datamodel.Null, rest, nil
	case head == "T":
		return basicnode.NewBool(true), rest, nil
	case head == "F":
		return basicnode.NewBool(false), rest, nil
	case strings.HasPrefix(head, "s:"):
		return basicnode.NewString(head[2:]), rest, nil
	case strings.HasPrefix(head, "y:"):
		return basicnode.NewBytes([]byte(head[2:])), rest, nil
	case strings.HasPrefix(head, "I"):
		i, err := strconv.ParseInt(head[1:], 10, 64)
		if err != nil {
			return nil, nil, bad
		}
		return basicnode.NewInt(i), rest, nil
	case strings.HasPrefix(head, "K"):
		c, err := strconv.ParseUint(head[1:], 10, 62)
		if err != nil {
			return nil, nil, bad
		}
		return basicnode.NewLink(rememberLink(c)), rest, nil
	case strings.HasPrefix(head, "L"):
		n, err := strconv.Atoi(head[1:])
		if err != nil || n < 0 {
			return nil, nil, bad
		}
		nb := basicnode.Prototype.List.NewBuilder()
		la, _ := nb.BeginList(int64(n))
		for j := 0; j < n; j++ {
			v, r, err := ParseNode(rest)
			if err != nil {
				return nil, nil, err
			}
			if err := la.AssembleValue().AssignNode(v); err != nil {
				return nil, nil, err
			}
			rest = r
		}
		la.Finish()
		return nb.Build(), rest, nil
	case strings.HasPrefix(head, "M"):
		n, err := strconv.Atoi(head[1:])
		if err != nil || n < 0 {
			return nil, nil, bad
		}
		nb := basicnode.Prototype.Map.NewBuilder()
		ma, _ := nb.BeginMap(int64(n))
		for j := 0; j < n; j++ {
			if len(rest) == 0 {
				return nil, nil, bad
			}
			k, ok := strTok(rest[0])
			if !ok {
				return nil, nil, bad
			}
			v, r, err := ParseNode(rest[1:])
			if err != nil {
				return nil, nil, err
			}
			va, err := ma.AssembleEntry(k)
			if err != nil {
				return nil, nil, err // repeated key
			}
			if err := va.AssignNode(v); err != nil {
				return nil, nil, err
			}
			rest = r
		}
		ma.Finish()
		return nb.Build(), rest, nil
	}
	return nil, nil, bad
}

func ShowNode(n datamodel.Node, sb *strings.Builder) {
	switch n.Kind() {
	case datamodel.Kind_Null:
		sb.WriteString("N ")
	case datamodel.Kind_Bool:
		b, _ := n.AsBool()
		if b {
			sb.WriteString("T ")
		} else {
			sb.WriteString("F ")
		}
	case datamodel.Kind_Int:
		i, _ := n.AsInt()
		fmt.Fprintf(sb, "I%d ", i)
	case datamodel.Kind_String:
		s, _ := n.AsString()
		sb.WriteString("s:" + s + " ")
	case datamodel.Kind_Bytes:
		b, _ := n.AsBytes()
		sb.WriteString("y:" + string(b) + " ")
	case datamodel.Kind_Link:
		l, _ := n.AsLink()
		fmt.Fprintf(sb, "K%d ", linkNumber(l))
	case datamodel.Kind_List:
		fmt.Fprintf(sb, "L%d ", n.Length())
		for it := n.ListIterator(); !it.Done(); {
			_, v, _ := it.Next()
			ShowNode(v, sb)
		}
	case datamodel.Kind_Map:
		fmt.Fprintf(sb, "M%d ", n.Length())
		for it := n.MapIterator(); !it.Done(); {
			k, v, _ := it.Next()
			ks, _ := k.AsString()
			sb.WriteString("s:" + ks + " ")
			ShowNode(v, sb)
		}
	default:
		sb.WriteString("? ")
	}
}

// ---------------------------------------------------------------- oracle (from the property text)

// AllBounded: every recursive exploration anywhere in the selector is limited to a depth <= max.
// Plain recursive descent over the harness's own selector tree.
func (s *Sel) AllBounded(max int64) bool {
	if s.Kind == "R" && (s.None || s.Depth > max) {
		return false
	}
	for _, k := range s.Kids {
		if !k.AllBounded(max) {
			return false
		}
	}
	return true
}

func (s *Sel) kinds(m map[string]int) {
	m[s.Kind]++
	for _, k := range s.Kids {
		k.kinds(m)
	}
}

// nodeAllBounded: the same question asked of a selector *node* ParseSelector accepted, by a plain
// descent following the selector grammar (independent of the validator's selector-of-selectors).
func nodeAllBounded(n datamodel.Node, max int64) bool {
	if n.Kind() != datamodel.Kind_Map || n.Length() != 1 {
		return true
	}
	kn, body, _ := n.MapIterator().Next()
	k, _ := kn.AsString()
	next := func(key string) bool {
		c, err := body.LookupByString(key)
		if err != nil {
			return true
		}
		return nodeAllBounded(c, max)
	}
	switch k {
	case "R":
		l, err := body.LookupByString("l")
		if err != nil || l.Kind() != datamodel.Kind_Map || l.Length() != 1 {
			return false
		}
		lk, lv, _ := l.MapIterator().Next()
		lks, _ := lk.AsString()
		if lks != "depth" {
			return false
		}
		d, err := lv.AsInt()
		if err != nil || d > max {
			return false
		}
		return next(":>")
	case "a", "i", "r", "~":
		return next(">")
	case "f":
		fs, err := body.LookupByString("f>")
		if err != nil || fs.Kind() != datamodel.Kind_Map {
			return true
		}
		for it := fs.MapIterator(); !it.Done(); {
			_, v, _ := it.Next()
			if !nodeAllBounded(v, max) {
				return false
			}
		}
		return true
	case "|":
		if body.Kind() != datamodel.Kind_List {
			return true
		}
		for it := body.ListIterator(); !it.Done(); {
			_, v, _ := it.Next()
			if !nodeAllBounded(v, max) {
				return false
			}
		}
		return true
	}
	return true
}

// ---------------------------------------------------------------- run

// Validate runs the real validator, mapping the result to the verdict enum.
func Validate(n datamodel.Node, max int64) (verdict string) {
	defer func() {
		if r := recover(); r != nil {
			verdict = "panic"
		}
	}()
	err := selectorvalidator.ValidateMaxRecursionDepth(n, max)
	switch {
	case err == nil:
		return "ok"
	case errors.Is(err, selectorvalidator.ErrInvalidLimit):
		return "invalid-limit"
	default:
		return "error"
	}
}

// Parses reports whether go-ipld-prime accepts the node as a selector.
func Parses(n datamodel.Node) (ok bool) {
	defer func() {
		if r := recover(); r != nil {
			ok = false
		}
	}()
	_, err := selector.ParseSelector(n)
	return err == nil
}

func judge(out *reg.Out, what string, wf, bounded bool, verdict string, max int64) {
	if !wf {
		out.Cov("oracle:not-wellformed")
		return
	}
	switch {
	case !bounded && verdict == "ok":
		out.Fail("unbounded-accepted", "max=%d: %s contains an unbounded or too deep recursion but ValidateMaxRecursionDepth returned nil", max, what)
	case bounded && verdict != "ok":
		out.Fail("bounded-rejected", "max=%d: every recursion in %s is limited to <= max but ValidateMaxRecursionDepth returned %s", max, what, verdict)
	case bounded:
		out.Cov("oracle:bounded-accepted")
	default:
		out.Cov("oracle:unbounded-rejected")
	}
}

func Run(cases []reg.Case, out *reg.Out) {
	ssb := builder.NewSelectorSpecBuilder(basicnode.Prototype.Any)
	for _, c := range cases {
		out.BeginCase(c)
		for _, op := range c.Ops {
			if len(op) < 3 {
				out.Line("bad-op")
				continue
			}
			max, err := strconv.ParseInt(op[1], 10, 64)
			if err != nil {
				out.Line("bad-op")
				continue
			}
			switch op[0] {
			case "sel":
				s, rest, err := ParseSel(op[2:])
				if err != nil || len(rest) != 0 {
					out.Line("bad-op")
					continue
				}
				if !s.Buildable() {
					out.Line("v=- wf=0 enc=-")
					out.Cov("sel:unbuildable")
					continue
				}
				n := s.Build(ssb).Node()
				v := Validate(n, max)
				wf := Parses(n)
				var sb strings.Builder
				ShowNode(n, &sb)
				w := 0
				if wf {
					w = 1
				}
				out.Line("v=%s wf=%d enc=%s", v, w, strings.TrimSpace(sb.String()))
				out.Cov("sel:v=" + v)
				out.Cov(fmt.Sprintf("sel:wf=%d", w))
				km := map[string]int{}
				s.kinds(km)
				for k, cnt := range km {
					out.CovN("clause:"+k, cnt)
				}
				judge(out, "selector `"+s.String()+"`", wf, s.AllBounded(max), v, max)
				if wf && nodeAllBounded(n, max) != s.AllBounded(max) {
					out.Fail("oracle-self-check", "the two reference descents disagree on `%s`", s.String())
				}
			case "alt":
				// alt <max> <k> <k selector tokens> <node tokens>: a non-canonical encoding of the selector
				k, err := strconv.Atoi(op[2])
				if err != nil || k < 1 || 3+k >= len(op) {
					out.Line("bad-op")
					continue
				}
				s, rest, err := ParseSel(op[3 : 3+k])
				if err != nil || len(rest) != 0 {
					out.Line("bad-op")
					continue
				}
				n, rest2, err := ParseNode(op[3+k:])
				if err != nil || len(rest2) != 0 {
					out.Line("bad-op")
					continue
				}
				v := Validate(n, max)
				parses := Parses(n)
				pi := 0
				if parses {
					pi = 1
				}
				out.Line("v=%s parses=%d", v, pi)
				out.Cov("alt:v=" + v)
				out.Cov(fmt.Sprintf("alt:parses=%d", pi))
				judge(out, "a non-canonical encoding of selector `"+s.String()+"`", parses, s.AllBounded(max), v, max)
				if parses && nodeAllBounded(n, max) != s.AllBounded(max) {
					out.Fail("oracle-self-check", "the two reference descents disagree on an alternative encoding of `%s`", s.String())
				}
			case "node":
				n, rest, err := ParseNode(op[2:])
				if err != nil || len(rest) != 0 {
					out.Line("bad-op")
					continue
				}
				v := Validate(n, max)
				out.Line("v=%s", v)
				out.Cov("node:v=" + v)
				wf := Parses(n)
				judge(out, "selector node", wf, nodeAllBounded(n, max), v, max)
			default:
				out.Line("bad-op")
			}
		}
	}
}

// ---------------------------------------------------------------- generator

var limitGrid = []int64{0, 1, 99, 100, 101, 1 << 40}
var maxGrid = []int64{100, 100, 100, 100, 0, 1, 99, 101, -1, 1 << 40, 9223372036854775807, -9223372036854775808}
var keyPool = []string{"x", "y", "Links", "Hash", ">", "l", "R", ":>", "f>", "|", "a", "0", "1", "depth", "none", "~", "as", "&", "!"}

// genSel: random selector; inRec = an ExploreRecursive encloses this position
func genSel(r *rand.Rand, depth int, inRec bool, wellFormed bool) *Sel {
	if depth <= 0 {
		if inRec && r.Intn(2) == 0 {
			return &Sel{Kind: "e"}
		}
		if !wellFormed && r.Intn(6) == 0 {
			return &Sel{Kind: "e"}
		}
		if r.Intn(5) == 0 {
			a := int64(r.Intn(5))
			return &Sel{Kind: "ms", A: a, B: a + int64(r.Intn(4))}
		}
		return &Sel{Kind: "m"}
	}
	sub := func(in bool) *Sel { return genSel(r, depth-1-r.Intn(2), in, wellFormed) }
	switch k := r.Intn(20); {
	case k < 2:
		return genSel(r, 0, inRec, wellFormed)
	case k < 4:
		return &Sel{Kind: "a", Kids: []*Sel{sub(inRec)}}
	case k < 6:
		return &Sel{Kind: "i", A: int64(r.Intn(4)) - 1, Kids: []*Sel{sub(inRec)}}
	case k < 8:
		a := int64(r.Intn(4)) - 1
		b := a + 1 + int64(r.Intn(3))
		if !wellFormed && r.Intn(4) == 0 {
			b = a
		}
		return &Sel{Kind: "r", A: a, B: b, Kids: []*Sel{sub(inRec)}}
	case k < 11:
		s := &Sel{Kind: "t", Adl: []string{"unixfs", "hamt", "x"}[r.Intn(3)], Kids: []*Sel{sub(inRec)}}
		return s
	case k < 13:
		n := r.Intn(4)
		s := &Sel{Kind: "u"}
		for j := 0; j < n; j++ {
			s.Kids = append(s.Kids, sub(inRec))
		}
		return s
	case k < 15:
		n := r.Intn(4)
		s := &Sel{Kind: "f"}
		perm := r.Perm(len(keyPool))
		for j := 0; j < n; j++ {
			s.Keys = append(s.Keys, keyPool[perm[j]])
			s.Kids = append(s.Kids, sub(inRec))
		}
		return s
	default:
		s := &Sel{Kind: "R", Stop: -1}
		if r.Intn(4) == 0 {
			s.None = true
		} else if r.Intn(12) == 0 {
			s.Depth = []int64{-1, -100, 9223372036854775807, -9223372036854775808, 2, 50}[r.Intn(6)]
		} else {
			s.Depth = limitGrid[r.Intn(len(limitGrid))]
		}
		if r.Intn(6) == 0 {
			s.Stop = int64(r.Intn(3))
		}
		body := sub(true)
		if wellFormed && body.directEdges() == 0 {
			// make sure the sequence has an edge of its own
			body = &Sel{Kind: "u", Kids: []*Sel{body, {Kind: "a", Kids: []*Sel{{Kind: "e"}}}}}
		}
		s.Kids = []*Sel{body}
		return s
	}
}

func (s *Sel) directEdges() int {
	switch s.Kind {
	case "e":
		return 1
	case "R":
		return 0
	}
	n := 0
	for _, k := range s.Kids {
		n += k.directEdges()
	}
	return n
}

// genNode: arbitrary IPLD node, biased towards selector-looking material
func genNode(r *rand.Rand, depth int, sb *strings.Builder) {
	selKeys := []string{"R", "f", "|", "a", "i", "r", "&", "~", ".", "@", "l", ":>", "f>", ">", "depth", "none", "!", "as", "x", "0", "1", "^", "$"}
	if depth <= 0 || r.Intn(6) == 0 {
		switch r.Intn(8) {
		case 0:
			sb.WriteString("N ")
		case 1:
			sb.WriteString([]string{"T ", "F "}[r.Intn(2)])
		case 2, 3:
			fmt.Fprintf(sb, "I%d ", []int64{0, 1, 99, 100, 101, -1, 1 << 40, -9223372036854775808, 9223372036854775807}[r.Intn(9)])
		case 4:
			sb.WriteString("s:" + selKeys[r.Intn(len(selKeys))] + " ")
		case 5:
			sb.WriteString("y:ab ")
		case 6:
			fmt.Fprintf(sb, "K%d ", r.Intn(3))
		default:
			sb.WriteString("M0 ")
		}
		return
	}
	if r.Intn(4) == 0 {
		n := r.Intn(4)
		fmt.Fprintf(sb, "L%d ", n)
		for j := 0; j < n; j++ {
			genNode(r, depth-1, sb)
		}
		return
	}
	n := r.Intn(4)
	if r.Intn(2) == 0 {
		n = 1
	}
	fmt.Fprintf(sb, "M%d ", n)
	perm := r.Perm(len(selKeys))
	for j := 0; j < n; j++ {
		sb.WriteString("s:" + selKeys[perm[j]] + " ")
		genNode(r, depth-1, sb)
	}
}

// mutateTokens: a well-formed selector node with one token replaced (malformed limits etc.)
func mutateNode(r *rand.Rand, toks []string) []string {
	out := append([]string{}, toks...)
	for tries := 0; tries < 4; tries++ {
		j := r.Intn(len(out))
		switch {
		case strings.HasPrefix(out[j], "I"):
			out[j] = []string{"s:5", "N", "M0", "I-1", "I101", "L1 I5", "T", "y:5", "K1"}[r.Intn(9)]
			return strings.Fields(strings.Join(out, " "))
		case out[j] == "s:depth":
			out[j] = []string{"s:none", "s:Depth", "s:d"}[r.Intn(3)]
			return out
		case out[j] == "s:none":
			out[j] = []string{"s:depth", "s:None", "s:"}[r.Intn(3)]
			return out
		case out[j] == "M0":
			out[j] = []string{"N", "I5", "L0", "K2", "s:x"}[r.Intn(5)]
			return out
		}
	}
	return out
}

// ---------------------------------------------------------------- non-canonical encodings

var junkValues = []string{"N", "I7", "s:q", "K1", "M0", "L0", "T",
	"M1 s:R M2 s:l M1 s:none M0 s::> M1 s:a M1 s:> M1 s:@ M0", // an unbounded recursion where no selector is expected
	"M1 s:R M2 s:l M1 s:depth I101 s::> M1 s:@ M0"}
var extraKeys = []string{"x", "zz", "&", "extra", "0", "R", "none", "depth", "f", "|", "~", "."}

type variantCfg struct {
	r       *rand.Rand
	breakAt int // index (pre-order) of the clause to damage, -1 = none
	seen    int
}

type entry struct{ key, val string }

// body writes a clause body map: the real entries plus unknown ones, in random order
func (vc *variantCfg) body(entries []entry, avoid ...string) string {
	n := vc.r.Intn(3)
	if vc.r.Intn(3) == 0 {
		n = 0
	}
	for i := 0; i < n; i++ {
		k := extraKeys[vc.r.Intn(len(extraKeys))]
		clash := false
		for _, e := range entries {
			if e.key == k {
				clash = true
			}
		}
		for _, a := range avoid {
			if a == k {
				clash = true
			}
		}
		if !clash {
			entries = append(entries, entry{k, junkValues[vc.r.Intn(len(junkValues))]})
		}
	}
	vc.r.Shuffle(len(entries), func(i, j int) { entries[i], entries[j] = entries[j], entries[i] })
	var sb strings.Builder
	fmt.Fprintf(&sb, "M%d", len(entries))
	for _, e := range entries {
		sb.WriteString(" s:" + e.key + " " + e.val)
	}
	return sb.String()
}

// Variant: node tokens of an alternative encoding of s that go-ipld-prime should read as s
// (or, at the clause numbered breakAt, deliberately should not).
func (s *Sel) Variant(vc *variantCfg) string {
	me := vc.seen
	vc.seen++
	broken := me == vc.breakAt
	clause := func(key, body string) string {
		if broken && vc.r.Intn(3) == 0 {
			// a second entry in the keyed union
			return fmt.Sprintf("M2 s:%s %s s:x N", key, body)
		}
		if broken && vc.r.Intn(3) == 0 {
			return fmt.Sprintf("M1 s:%s %s", key, []string{"N", "L0", "I1", "s:q"}[vc.r.Intn(4)])
		}
		return fmt.Sprintf("M1 s:%s %s", key, body)
	}
	next := func() entry {
		if broken && vc.r.Intn(2) == 0 {
			return entry{">>", s.Kids[0].Variant(vc)} // required field missing (misspelt)
		}
		return entry{">", s.Kids[0].Variant(vc)}
	}
	switch s.Kind {
	case "m":
		return clause(".", vc.body(nil, "subset"))
	case "ms":
		sub := vc.body([]entry{{"[", fmt.Sprintf("I%d", s.A)}, {"]", fmt.Sprintf("I%d", s.B)}})
		if broken {
			sub = "I5"
		}
		return clause(".", vc.body([]entry{{"subset", sub}}))
	case "e":
		return clause("@", vc.body(nil))
	case "a":
		return clause("a", vc.body([]entry{next()}))
	case "i":
		return clause("i", vc.body([]entry{{"i", fmt.Sprintf("I%d", s.A)}, next()}))
	case "r":
		return clause("r", vc.body([]entry{{"^", fmt.Sprintf("I%d", s.A)}, {"$", fmt.Sprintf("I%d", s.B)}, next()}))
	case "t":
		as := "s:" + s.Adl
		if broken && vc.r.Intn(2) == 0 {
			as = "I3"
		}
		return clause("~", vc.body([]entry{{"as", as}, next()}))
	case "u":
		var sb strings.Builder
		fmt.Fprintf(&sb, "L%d", len(s.Kids))
		for _, k := range s.Kids {
			sb.WriteString(" " + k.Variant(vc))
		}
		if broken {
			return "M1 s:| M0"
		}
		return "M1 s:| " + sb.String()
	case "f":
		var es []entry
		for j, k := range s.Kids {
			es = append(es, entry{s.Keys[j], k.Variant(vc)})
		}
		// the f> map holds exactly the fields (every entry there is a selector), order as given
		var sb strings.Builder
		fmt.Fprintf(&sb, "M%d", len(es))
		for _, e := range es {
			sb.WriteString(" s:" + e.key + " " + e.val)
		}
		return clause("f", vc.body([]entry{{"f>", sb.String()}}))
	case "R":
		var lim string
		switch {
		case s.None:
			lim = "M1 s:none " + junkValues[vc.r.Intn(7)]
		default:
			lim = fmt.Sprintf("M1 s:depth I%d", s.Depth)
		}
		if broken && vc.r.Intn(2) == 0 {
			lim = fmt.Sprintf("M2 s:depth I%d s:none M0", s.Depth)
		}
		es := []entry{{"l", lim}, {":>", s.Kids[0].Variant(vc)}}
		if s.Stop >= 0 {
			es = append(es, entry{"!", fmt.Sprintf("M1 s:/ K%d", s.Stop)})
		} else if broken {
			es = append(es, entry{"!", "M0"})
		}
		return clause("R", vc.body(es, "!"))
	}
	panic("unknown kind")
}

func (s *Sel) size() int {
	n := 1
	for _, k := range s.Kids {
		n += k.size()
	}
	return n
}

// genDeep: an unbounded / too deep / fine recursion beneath `depth` nested clauses
func genDeep(r *rand.Rand, depth int) *Sel {
	var inner *Sel
	switch r.Intn(3) {
	case 0:
		inner = &Sel{Kind: "R", None: true, Stop: -1}
	case 1:
		inner = &Sel{Kind: "R", Depth: 101, Stop: -1}
	default:
		inner = &Sel{Kind: "R", Depth: 100, Stop: -1}
	}
	inner.Kids = []*Sel{{Kind: "a", Kids: []*Sel{{Kind: "e"}}}}
	cur := inner
	for i := 0; i < depth; i++ {
		switch r.Intn(6) {
		case 0:
			cur = &Sel{Kind: "a", Kids: []*Sel{cur}}
		case 1:
			cur = &Sel{Kind: "i", A: 0, Kids: []*Sel{cur}}
		case 2:
			cur = &Sel{Kind: "r", A: 0, B: 2, Kids: []*Sel{cur}}
		case 3:
			cur = &Sel{Kind: "t", Adl: "unixfs", Kids: []*Sel{cur}}
		case 4:
			cur = &Sel{Kind: "f", Keys: []string{"Links"}, Kids: []*Sel{cur}}
		default:
			cur = &Sel{Kind: "u", Kids: []*Sel{{Kind: "m"}, cur}}
		}
	}
	return cur
}

// genWide: a large selector: a union / fields clause with many members, each a bounded recursion
func genWide(r *rand.Rand, members int, oneBad bool) *Sel {
	s := &Sel{Kind: []string{"u", "f"}[r.Intn(2)]}
	bad := -1
	if oneBad {
		bad = r.Intn(members)
	}
	for j := 0; j < members; j++ {
		m := &Sel{Kind: "R", Depth: []int64{1, 5, 100}[r.Intn(3)], Stop: -1, Kids: []*Sel{{Kind: "a", Kids: []*Sel{{Kind: "e"}}}}}
		if j == bad {
			m.Depth = 101
		}
		if s.Kind == "f" {
			s.Keys = append(s.Keys, fmt.Sprintf("k%d", j))
		}
		s.Kids = append(s.Kids, m)
	}
	return s
}

func Gen(seed int64, n int, tier string, w *bufio.Writer) {
	r := rand.New(rand.NewSource(seed))
	ssb := builder.NewSelectorSpecBuilder(basicnode.Prototype.Any)
	for i := 0; i < n; i++ {
		fmt.Fprintf(w, "case g%d\n", i)
		nops := 3 + r.Intn(4)
		for j := 0; j < nops; j++ {
			max := maxGrid[r.Intn(len(maxGrid))]
			if r.Intn(4) == 0 { // a non-canonical encoding of a well-formed selector
				s := genSel(r, 1+r.Intn(5), false, true)
				vc := &variantCfg{r: r, breakAt: -1}
				if r.Intn(7) == 0 {
					vc.breakAt = r.Intn(s.size())
				}
				st := s.String()
				fmt.Fprintf(w, "alt %d %d %s %s\n", max, len(strings.Fields(st)), st, s.Variant(vc))
				continue
			}
			switch k := r.Intn(10); {
			case k < 6: // well-formed selector
				s := genSel(r, 1+r.Intn(6), false, true)
				fmt.Fprintf(w, "sel %d %s\n", max, s.String())
			case k < 7: // possibly ill-formed selector
				s := genSel(r, 1+r.Intn(4), false, false)
				fmt.Fprintf(w, "sel %d %s\n", max, s.String())
			case k < 9: // selector node with a damaged token
				s := genSel(r, 1+r.Intn(4), false, true)
				var sb strings.Builder
				ShowNode(s.Build(ssb).Node(), &sb)
				orig := strings.Fields(sb.String())
				toks := mutateNode(r, orig)
				if _, rest, err := ParseNode(toks); err != nil || len(rest) != 0 {
					toks = orig // the mutation repeated a map key: no such basicnode value exists
				}
				fmt.Fprintf(w, "node %d %s\n", max, strings.Join(toks, " "))
			default: // arbitrary node
				var sb strings.Builder
				genNode(r, 1+r.Intn(5), &sb)
				fmt.Fprintf(w, "node %d %s\n", max, strings.TrimSpace(sb.String()))
			}
		}
	}
	// deeply nested and very wide selectors (a fixed small share of every run)
	ndeep, nwide := 6+n/400, 2+n/2000
	for i := 0; i < ndeep; i++ {
		fmt.Fprintf(w, "case deep%d\n", i)
		for j := 0; j < 3; j++ {
			d := genDeep(r, 20+r.Intn(70))
			fmt.Fprintf(w, "sel 100 %s\n", d.String())
			if j == 2 {
				st := d.String()
				fmt.Fprintf(w, "alt 100 %d %s %s\n", len(strings.Fields(st)), st, d.Variant(&variantCfg{r: r, breakAt: -1}))
			}
		}
	}
	for i := 0; i < nwide; i++ {
		fmt.Fprintf(w, "case wide%d\n", i)
		fmt.Fprintf(w, "sel 100 %s\n", genWide(r, []int{150, 400, 700}[r.Intn(3)], false).String())
		fmt.Fprintf(w, "sel 100 %s\n", genWide(r, 400, true).String())
		fmt.Fprintf(w, "sel 100 %s\n", genWide(r, 20, r.Intn(2) == 0).String())
	}
	if tier == "thorough" {
		genExhaustive(w)
	}
}

// genExhaustive: every selector with at most 4 nested clauses over a small alphabet of clause
// kinds and the limit grid {none,100,101}
func genExhaustive(w *bufio.Writer) {
	var build func(depth int, inRec bool) []*Sel
	build = func(depth int, inRec bool) []*Sel {
		leaves := []*Sel{{Kind: "m"}}
		if inRec {
			leaves = append(leaves, &Sel{Kind: "e"})
		}
		if depth == 0 {
			return leaves
		}
		out := append([]*Sel{}, leaves...)
		for _, k := range build(depth-1, inRec) {
			out = append(out,
				&Sel{Kind: "a", Kids: []*Sel{k}},
				&Sel{Kind: "i", A: 0, Kids: []*Sel{k}},
				&Sel{Kind: "r", A: 0, B: 2, Kids: []*Sel{k}},
				&Sel{Kind: "t", Adl: "unixfs", Kids: []*Sel{k}},
				&Sel{Kind: "f", Keys: []string{"x"}, Kids: []*Sel{k}},
				&Sel{Kind: "u", Kids: []*Sel{{Kind: "m"}, k}},
			)
		}
		for _, k := range build(depth-1, true) {
			if k.directEdges() == 0 {
				continue
			}
			out = append(out,
				&Sel{Kind: "R", None: true, Stop: -1, Kids: []*Sel{k}},
				&Sel{Kind: "R", Depth: 100, Stop: -1, Kids: []*Sel{k}},
				&Sel{Kind: "R", Depth: 101, Stop: 1, Kids: []*Sel{k}},
			)
		}
		return out
	}
	all := build(4, false)
	for i := 0; i < len(all); i += 5 {
		fmt.Fprintf(w, "case x%d\n", i/5)
		for j := i; j < i+5 && j < len(all); j++ {
			fmt.Fprintf(w, "sel 100 %s\n", all[j].String())
		}
	}
}

// GenWellFormed: a random well-formed selector (used by the end-to-end stream)
func GenWellFormed(r *rand.Rand, depth int) *Sel { return genSel(r, depth, false, true) }
