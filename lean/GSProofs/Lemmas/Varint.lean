import GS.Model.Cbor
/-! uvarint: `binary.PutUvarint` then `varint.FromUvarint` is the identity below 2^63. -/
namespace GS.Cbor

theorem toNat_ofNat_lt {n : Nat} (h : n < 256) : (UInt8.ofNat n).toNat = n := by
  simp [UInt8.toNat_ofNat, Nat.mod_eq_of_lt h]

theorem pow7_succ (i : Nat) : 2 ^ (7 * (i + 1)) = 128 * 2 ^ (7 * i) := by
  rw [Nat.mul_add, Nat.pow_add]; omega

theorem uvarintGo_enc : ∀ (fuel n i acc : Nat) (rest : Bytes),
    i + fuel ≥ 9 → i ≤ 8 → n < 2 ^ (7 * (9 - i)) → (i > 0 → n ≥ 1) →
    uvarintGo (uvarintEnc fuel n ++ rest) i acc = some (acc + n * 2 ^ (7 * i), rest)
  | 0, n, i, acc, rest, hf, hi, hn, hpos => by omega
  | fuel + 1, n, i, acc, rest, hf, hi, hn, hpos => by
    unfold uvarintEnc
    by_cases hlt : n < 128
    · simp only [hlt, if_true, List.cons_append, List.nil_append, uvarintGo]
      rw [toNat_ofNat_lt (by omega)]
      have h1 : ¬ ((i = 8 ∧ n ≥ 128) ∨ i ≥ 9) := by omega
      simp only [h1, if_false, hlt, if_true]
      have h2 : ¬ (n = 0 ∧ i > 0) := by
        intro ⟨a, b⟩; have := hpos b; omega
      simp [h2]
    · simp only [hlt, if_false, List.cons_append, uvarintGo]
      rw [toNat_ofNat_lt (by omega)]
      -- n ≥ 128 forces at least two more bytes: i ≤ 7
      have hi7 : i ≤ 7 := by
        by_cases h8 : i = 8
        · subst h8; simp at hn; omega
        · omega
      have h1 : ¬ ((i = 8 ∧ n % 128 + 128 ≥ 128) ∨ i ≥ 9) := by omega
      have h2 : ¬ (n % 128 + 128 < 128) := by omega
      simp only [h1, if_false, h2]
      have hdiv : n / 128 < 2 ^ (7 * (9 - (i + 1))) := by
        have : 2 ^ (7 * (9 - i)) = 128 * 2 ^ (7 * (9 - (i + 1))) := by
          have : 9 - i = (9 - (i + 1)) + 1 := by omega
          rw [this, pow7_succ]
        rw [this] at hn
        exact Nat.div_lt_of_lt_mul hn
      rw [uvarintGo_enc fuel (n / 128) (i + 1) _ rest (by omega) (by omega) hdiv (by intro _; omega)]
      congr 2
      rw [pow7_succ]
      have := Nat.div_add_mod n 128
      have h3 : n % 128 + 128 - 128 = n % 128 := by omega
      rw [h3]
      generalize 2 ^ (7 * i) = P at *
      grind

/-- **uvarint round trip** -/
theorem uvarint_put (n : Nat) (rest : Bytes) (h : n < 2 ^ 63) :
    uvarint (putUvarint n ++ rest) = some (n, rest) := by
  unfold uvarint putUvarint
  rw [uvarintGo_enc 10 n 0 0 rest (by omega) (by omega) (by simpa using h) (by omega)]
  simp

/-- what `uvarint` returns is below 2^63 -/
theorem uvarintGo_bound : ∀ (bs : Bytes) (i acc n : Nat) (rest : Bytes),
    i ≤ 9 → acc < 2 ^ (7 * i) → uvarintGo bs i acc = some (n, rest) → n < 2 ^ 63
  | [], _, _, _, _, _, _, h => by simp [uvarintGo] at h
  | b :: bs, i, acc, n, rest, hi, hacc, h => by
    unfold uvarintGo at h
    split at h
    · cases h
    · rename_i hc
      have hi8 : i ≤ 8 := by omega
      split at h
      · rename_i hb
        split at h
        · cases h
        · simp only [Option.some.injEq, Prod.mk.injEq] at h
          obtain ⟨h, _⟩ := h
          subst h
          -- acc < 2^(7i), b < 128 (and b < 1... when i = 8: b ≤ 127 allowed? i=8 requires b < 128 only)
          have hp : 2 ^ 63 = 2 ^ (7 * i) * 2 ^ (63 - 7 * i) := by
            rw [← Nat.pow_add]; congr 1; omega
          have hq : 2 ^ (63 - 7 * i) ≥ 128 := by
            have : 63 - 7 * i ≥ 7 := by omega
            calc 2 ^ (63 - 7 * i) ≥ 2 ^ 7 := Nat.pow_le_pow_right (by omega) this
              _ = 128 := by decide
          rw [hp]
          generalize 2 ^ (7 * i) = P at *
          generalize 2 ^ (63 - 7 * i) = Q at *
          have : (b.toNat + 1) * P ≤ Q * P := Nat.mul_le_mul_right P (by omega)
          grind
      · rename_i hb
        have hi7 : i ≤ 7 := by
          by_cases h8 : i = 8
          · exfalso; apply hc; left; exact ⟨h8, by omega⟩
          · omega
        refine uvarintGo_bound bs (i + 1) _ n rest (by omega) ?_ h
        rw [pow7_succ]
        have : b.toNat < 256 := b.toNat_lt
        generalize 2 ^ (7 * i) = P at *
        have : (b.toNat - 128 + 1) * P ≤ 128 * P := Nat.mul_le_mul_right P (by omega)
        grind

theorem uvarint_bound {bs : Bytes} {n : Nat} {rest : Bytes} (h : uvarint bs = some (n, rest)) :
    n < 2 ^ 63 :=
  uvarintGo_bound bs 0 0 n rest (by omega) (by simp) h

/-- `putUvarint` is never empty -/
theorem putUvarint_ne_nil (n : Nat) : putUvarint n ≠ [] := by
  unfold putUvarint uvarintEnc
  split <;> simp

end GS.Cbor
