import GSProofs.Lemmas.MsgQueueLive1
/-!
# Message queue liveness, part 2: the work-signal invariant and the callers' steps
-/
namespace GS.MQ
open GS.Alloc

theorem touch_ne_nil (rs : List (Req × List (Cid × Bool))) (r : Nat) : touchResponse rs r = [] → rs = [] := by
  unfold touchResponse; split
  · exact id
  · intro h; simp at h

theorem apply_nonempty (b : Builder) (r : Req) (it : Item) (h : b.empty = false) : (b.apply r it).empty = false := by
  unfold Builder.empty at h ⊢
  have key : ∀ (rq : List Nat) (bl : List (Cid × Nat)) (rs : List (Req × List (Cid × Bool)))
      (bl' : List (Cid × Nat)) (rs' : List (Req × List (Cid × Bool))),
      (rq.isEmpty && bl.isEmpty && rs.isEmpty) = false → (bl' = [] → bl = []) → (rs' = [] → rs = []) →
      (rq.isEmpty && bl'.isEmpty && rs'.isEmpty) = false := by
    intro rq bl rs bl' rs' h0 h1 h2
    cases rq with
    | cons _ _ => simp
    | nil =>
      cases hb : bl' with
      | cons _ _ => simp
      | nil =>
        cases hr : rs' with
        | cons _ _ => simp
        | nil => rw [h1 hb, h2 hr] at h0; simp at h0
  cases it with
  | block c sz send =>
    cases send with
    | true => exact key _ _ _ _ _ h (fun e => absurd e (aset_ne_nil _ _ _)) (fun e => absurd e (aset_ne_nil _ _ _))
    | false => exact key _ _ _ _ _ h id (fun e => absurd e (aset_ne_nil _ _ _))
  | missing c => exact key _ _ _ _ _ h id (fun e => absurd e (aset_ne_nil _ _ _))
  | ext sz => exact key _ _ _ _ _ h id (touch_ne_nil _ _)
  | status code =>
    simp only [Builder.apply]
    exact key _ _ _ _ _ h id (touch_ne_nil _ _)

theorem applyAll_nonempty (b : Builder) (r : Req) (items : List Item) (h : b.empty = false) :
    (b.applyAll r items).empty = false := by
  unfold Builder.applyAll
  induction items generalizing b with
  | nil => exact h
  | cons it rest ih => exact ih _ (apply_nonempty b r it h)

theorem runFn_nonempty (closed : List Req) (b : Builder) (tx : Tx) (h : b.empty = false) :
    (runFn closed b tx).empty = false := by
  unfold runFn
  cases tx.who with
  | response =>
    simp only; split
    · exact h
    · have := applyAll_nonempty b tx.req tx.items h
      unfold Builder.empty at this ⊢; exact this
  | request =>
    simp only
    unfold Builder.empty at h ⊢
    simp only [Bool.and_eq_false_iff] at h ⊢
    rcases h with (h | h) | h
    · left; left
      split
      · exact h
      · simp
    · exact Or.inl (Or.inr h)
    · exact Or.inr h

theorem setLast_mem_old : ∀ (bs : List Builder) (b b' : Builder), bs.getLast? = some b →
    ∀ x ∈ bs, x ∈ setLast bs b' ∨ x = b
  | [], _, _, h, _, hx => by cases hx
  | [y], b, b', h, x, hx => by
    simp at h hx; subst h; exact Or.inr hx
  | y :: z :: r, b, b', h, x, hx => by
    have h' : (z :: r).getLast? = some b := by simpa [List.getLast?_cons_cons] using h
    simp only [setLast]
    rcases List.mem_cons.mp hx with rfl | hx
    · exact Or.inl (by simp)
    · rcases setLast_mem_old (z :: r) b b' h' x hx with h1 | h1
      · exact Or.inl (List.mem_cons_of_mem _ h1)
      · exact Or.inr h1

theorem setLast_mem_new : ∀ (bs : List Builder) (b b' : Builder), bs.getLast? = some b → b' ∈ setLast bs b'
  | [], _, _, h => by simp at h
  | [y], b, b', h => by simp [setLast]
  | y :: z :: r, b, b', h => by
    have h' : (z :: r).getLast? = some b := by simpa [List.getLast?_cons_cons] using h
    simp only [setLast]
    exact List.mem_cons_of_mem _ (setLast_mem_new (z :: r) b b' h')

/-- the work-signal invariant: content queued ⇒ `outgoingWork` holds a token
    (Go: `builders ≠ [] → signal ∨ sending`; here unconditionally, because `extract` re-signals) -/
def TI (s : State) : Prop := HasWork s.builders → s.token = true

/-- `buildMessage`: queued content stays queued, the signal invariant is kept -/
theorem buildMessage_live (pick : Pick) (s : State) (ticket : Nat) (tx : Tx) (size : Nat) :
    (∀ b ∈ s.builders, b.empty = false →
      ∃ b' ∈ (s.buildMessage pick ticket tx size).builders, b'.topic = b.topic ∧ b'.empty = false) ∧
    (TI s → TI (s.buildMessage pick ticket tx size)) ∧
    (s.buildMessage pick ticket tx size).done = s.done ∧
    (s.buildMessage pick ticket tx size).maxRetries = s.maxRetries := by
  unfold State.buildMessage
  generalize hs0 : (if shouldBegin s.builders size = true
      then { s with builders := s.builders ++ [{ topic := s.nextTopic }], nextTopic := s.nextTopic + 1 }
      else s) = s0
  have h0 : (∀ b ∈ s.builders, b ∈ s0.builders) ∧ (∀ b ∈ s0.builders, b.empty = false → b ∈ s.builders) ∧
      s0.token = s.token ∧ s0.done = s.done ∧ s0.maxRetries = s.maxRetries := by
    subst hs0; split
    · refine ⟨fun b hb => List.mem_append_left _ hb, ?_, rfl, rfl, rfl⟩
      intro b hb he
      rcases List.mem_append.mp hb with hb | hb
      · exact hb
      · simp at hb; subst hb; simp [Builder.empty] at he
    · exact ⟨fun b hb => hb, fun b hb _ => hb, rfl, rfl, rfl⟩
  obtain ⟨h01, h02, h03, h04, h05⟩ := h0
  simp only
  cases hlast : s0.builders.getLast? with
  | none =>
    simp only
    refine ⟨fun b hb he => ⟨b, h01 b hb, rfl, he⟩, ?_, h04, h05⟩
    intro ti ⟨b, hb, he⟩
    rw [h03]; exact ti ⟨b, h02 b hb he, he⟩
  | some b =>
    simp only
    have hne := runFn_nonempty s0.closedStreams b tx
    have htop := runFn_topic s0.closedStreams b tx
    generalize runFn s0.closedStreams b tx = b' at hne htop
    -- the state after emit / release: builders = setLast, token unchanged
    generalize hs1 : ({ s0 with builders := setLast s0.builders b' } : State).emit
        [Event.built ticket b.topic size (b'.accounted - b.accounted)] = s1
    have q1 : QFrame ({ s0 with builders := setLast s0.builders b' } : State) s1 := by subst hs1; exact (emit_frame _ _).q
    generalize hs2 : (if b'.accounted ≥ b.accounted ∧ b'.accounted - b.accounted < size
          then s1.release pick (size - (b'.accounted - b.accounted)) else s1) = s2
    have q2 : QFrame s1 s2 := by
      subst hs2; split
      · exact release_qframe _ _ _
      · exact QFrame.refl _
    have q := q1.trans q2
    have hb2 : s2.builders = setLast s0.builders b' := q.builders
    have ht2 : s2.token = s.token := q.token.trans h03
    have key : ∀ s3 : State, s3.builders = s2.builders → (s3.token = true ∨ (b'.empty = true ∧ s3.token = s2.token)) →
        s3.done = s2.done → s3.maxRetries = s2.maxRetries →
        (∀ x ∈ s.builders, x.empty = false → ∃ x' ∈ s3.builders, x'.topic = x.topic ∧ x'.empty = false) ∧
        (TI s → TI s3) ∧ s3.done = s.done ∧ s3.maxRetries = s.maxRetries := by
      intro s3 hb3 htok hd hm
      refine ⟨?_, ?_, hd.trans (q.done.trans h04), hm.trans (q.maxRetries.trans h05)⟩
      · intro x hx he
        rw [hb3, hb2]
        rcases setLast_mem_old s0.builders b b' hlast x (h01 x hx) with h1 | h1
        · exact ⟨x, h1, rfl, he⟩
        · subst h1
          exact ⟨b', setLast_mem_new _ _ _ hlast, htop, hne he⟩
      · intro ti ⟨x, hx, he⟩
        rcases htok with h1 | ⟨h1, h2⟩
        · exact h1
        · rw [h2, ht2]
          rw [hb3, hb2] at hx
          rcases (setLast_spec s0.builders b b' hlast).2.1 x hx with h3 | h3
          · subst h3; rw [h1] at he; cases he
          · exact ti ⟨x, h02 x h3 he, he⟩
    split
    · next hnb => exact key _ rfl (Or.inl rfl) rfl rfl
    · next hnb =>
      have : b'.empty = true := by simpa using hnb
      exact key _ rfl (Or.inr ⟨this, rfl⟩) rfl rfl

end GS.MQ
