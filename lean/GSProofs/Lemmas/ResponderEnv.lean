import GSProofs.Lemmas.ResponderPhases
/-!
Lemmas for C03, part 6: what the operations of OTHER requests of the same peer (`GS.LinkTrack.Op`
with a different request id) do to one request's view of the peer's link tracker:
sent count, skip count, dedup key and the missing-record of the request are never touched; the
tracker of the request's scope is touched only by operations of requests in the same scope.
-/
namespace GS.C03L
open GS.LinkTrack GS.Responder

def opReq : Op → Req
  | .dedup r _ => r | .ignore r _ => r | .skip r _ => r | .trav r _ _ => r
  | .finish r => r | .finishErr r => r | .clear r => r

/-- does the operation read / write the link tracker of its request's (current) scope?  (`DedupKey`
moves the request's records out of its current scope …) -/
def touches : Op → Bool
  | .skip _ _ => false | _ => true

/-- (… and into the scope of the new key.) -/
def joins (key : Option Key) : Op → Bool
  | .dedup _ k => key == some k
  | _ => false

/-- effect of a tracker-touching operation on the tracker of its request's scope. -/
def eff : Op → LinkTracker → LinkTracker
  | .trav r l b, t => t.record r l b
  | .ignore r ls, t => ls.foldl (fun t l => t.record r l true) t
  | .finish r, t => (t.finishRequest r).1
  | .finishErr r, t => (t.finishRequest r).1
  | .clear r, t => (t.finishRequest r).1
  | _, t => t

theorem trackerOf_setTracker_other (p : PeerTracker) (r' : Req) (t : LinkTracker) (r : Req) :
    (p.setTracker r' t).trackerOf r
      = if aget p.dedupKeys r' = aget p.dedupKeys r then t else p.trackerOf r := by
  unfold PeerTracker.setTracker PeerTracker.trackerOf PeerTracker.setScopeTracker PeerTracker.scopeTracker
  cases h' : aget p.dedupKeys r' <;> cases h : aget p.dedupKeys r <;> simp [aget_aset]
  rename_i k' k
  by_cases hk : k' = k
  · simp [hk]
  · simp [hk]

theorem trackerOf_congr (q q' : PeerTracker) (r : Req) (h1 : q.dedupKeys = q'.dedupKeys)
    (h2 : q.main = q'.main) (h3 : q.alts = q'.alts) : q.trackerOf r = q'.trackerOf r := by
  unfold PeerTracker.trackerOf PeerTracker.scopeTracker
  rw [h1, h2, h3]

theorem mem_of_aget {β : Type} {m : List (Nat × β)} {k : Nat} {v : β} (h : aget m k = some v) : (k, v) ∈ m := by
  induction m with
  | nil => simp [aget] at h
  | cons e t ih =>
    obtain ⟨a, b⟩ := e
    simp only [aget] at h
    by_cases hak : a = k
    · simp only [hak, if_true, Option.some.injEq] at h
      subst hak; subst h; exact List.mem_cons_self
    · simp only [hak, if_false] at h
      exact List.mem_cons_of_mem _ (ih h)

theorem any_after_erase {m : List (Req × Key)} {r r' : Req} {k : Key} (h : aget m r = some k) (hne : r' ≠ r) :
    (aerase m r').any (fun e => e.2 == k) = true := by
  rw [List.any_eq_true]
  refine ⟨(r, k), ?_, by simp⟩
  simp only [aerase, List.mem_filter]
  exact ⟨mem_of_aget h, by simp [Ne.symm hne]⟩

/-- `FinishTracking` of another request: this request's tracker is that scope's tracker after
`FinishRequest` if both are in the same scope, untouched otherwise. -/
theorem finishTracking_trackerOf_other (p : PeerTracker) (r' r : Req) (hne : r' ≠ r) :
    (p.finishTracking r').1.trackerOf r
      = if aget p.dedupKeys r' = aget p.dedupKeys r then ((p.trackerOf r').finishRequest r').1
        else p.trackerOf r := by
  have hset := trackerOf_setTracker_other p r' ((p.trackerOf r').finishRequest r').1 r
  simp only [PeerTracker.finishTracking]
  cases h' : aget p.dedupKeys r' with
  | none =>
    simp only [setTracker_dedupKeys, h']
    rw [h'] at hset
    rw [← hset]
    exact trackerOf_congr _ _ r (by simp [setTracker_dedupKeys]) rfl rfl
  | some k' =>
    simp only [setTracker_dedupKeys, h']
    cases h : aget p.dedupKeys r with
    | none =>
      have hr : aget (aerase p.dedupKeys r') r = none := by rw [aget_aerase]; simp [hne, h]
      simp [PeerTracker.trackerOf, hr, PeerTracker.scopeTracker, PeerTracker.setTracker, PeerTracker.setScopeTracker, h', h]
    | some k =>
      have hr : aget (aerase p.dedupKeys r') r = some k := by rw [aget_aerase]; simp [hne, h]
      by_cases hk : k' = k
      · subst hk
        have hany := any_after_erase h hne
        simp [PeerTracker.trackerOf, hr, PeerTracker.scopeTracker, PeerTracker.setTracker, PeerTracker.setScopeTracker,
          h', h, hany, aget_aset]
      · have hk' : ¬ k = k' := fun e => hk e.symm
        simp only [PeerTracker.trackerOf, hr, PeerTracker.scopeTracker, PeerTracker.setTracker,
          PeerTracker.setScopeTracker, h', h, Option.some.injEq, hk, if_false]
        split <;> simp [aget_aset, aget_aerase, hk, hk']

def isDedup : Op → Bool
  | .dedup _ _ => true
  | _ => false

/-- every operation of another request except `DedupKey`, on this request's tracker. -/
theorem step_trackerOf (p : PeerTracker) (o : Op) (r : Req) (hne : opReq o ≠ r) (hnd : isDedup o = false) :
    (step p o).1.trackerOf r
      = if touches o = true ∧ aget p.dedupKeys (opReq o) = aget p.dedupKeys r then eff o (p.trackerOf r)
        else p.trackerOf r := by
  cases o with
  | dedup r' k => simp [isDedup] at hnd
  | skip r' n => simp [step, touches, PeerTracker.trackerOf, PeerTracker.skipFirstBlocks, PeerTracker.scopeTracker]
  | trav r' l b =>
    simp only [opReq] at hne
    simp only [step, touches, true_and, opReq, eff]
    have ht := traverse_tracker p r' l b
    simp only [PeerTracker.traverse] at ht ⊢
    rw [trackerOf_setTracker_other]
    simp only [PeerTracker.trackerOf, PeerTracker.scopeTracker]
    by_cases hk : aget p.dedupKeys r' = aget p.dedupKeys r
    · simp [hk]
    · simp [hk]
  | ignore r' ls =>
    simp only [opReq] at hne
    simp only [step, touches, true_and, opReq, eff, PeerTracker.ignoreBlocks]
    rw [trackerOf_setTracker_other]
    by_cases hk : aget p.dedupKeys r' = aget p.dedupKeys r
    · simp [hk, PeerTracker.trackerOf]
    · simp [hk]
  | finish r' =>
    simp only [opReq] at hne
    simp only [step, touches, true_and, opReq, eff]
    rw [finishTracking_trackerOf_other p r' r hne]
    by_cases hk : aget p.dedupKeys r' = aget p.dedupKeys r
    · simp [hk, PeerTracker.trackerOf]
    · simp [hk]
  | finishErr r' =>
    simp only [opReq] at hne
    simp only [step, touches, true_and, opReq, eff]
    rw [finishTracking_trackerOf_other p r' r hne]
    by_cases hk : aget p.dedupKeys r' = aget p.dedupKeys r
    · simp [hk, PeerTracker.trackerOf]
    · simp [hk]
  | clear r' =>
    simp only [opReq] at hne
    simp only [step, touches, true_and, opReq, eff]
    rw [finishTracking_trackerOf_other p r' r hne]
    by_cases hk : aget p.dedupKeys r' = aget p.dedupKeys r
    · simp [hk, PeerTracker.trackerOf]
    · simp [hk]

/-! ### the other components of the view -/

theorem finishTracking_sentCount (p : PeerTracker) (r' : Req) :
    (p.finishTracking r').1.sentCount = aerase p.sentCount r' := by
  simp only [PeerTracker.finishTracking]
  split <;> simp [setTracker_sentCount]

theorem finishTracking_skipFirst (p : PeerTracker) (r' : Req) :
    (p.finishTracking r').1.skipFirst = aerase p.skipFirst r' := by
  simp only [PeerTracker.finishTracking]
  split <;> simp [setTracker_skipFirst]

theorem step_sentCount (p : PeerTracker) (o : Op) (r : Req) (hne : opReq o ≠ r) :
    aget (step p o).1.sentCount r = aget p.sentCount r := by
  cases o <;> simp only [opReq] at hne <;>
    simp [step, setDedupKey_sentCount, PeerTracker.ignoreBlocks, PeerTracker.skipFirstBlocks, PeerTracker.traverse,
      finishTracking_sentCount, setTracker_sentCount, aget_aset, aget_aerase, hne]

theorem step_skipFirst (p : PeerTracker) (o : Op) (r : Req) (hne : opReq o ≠ r) :
    aget (step p o).1.skipFirst r = aget p.skipFirst r := by
  cases o <;> simp only [opReq] at hne <;>
    simp [step, setDedupKey_skipFirst, PeerTracker.ignoreBlocks, PeerTracker.skipFirstBlocks, PeerTracker.traverse,
      finishTracking_skipFirst, setTracker_skipFirst, aget_aset, aget_aerase, hne]

/-- the dedup-key map evolves by the operations alone. -/
def dkStep (dk : List (Req × Key)) : Op → List (Req × Key)
  | .dedup r k => aset dk r k
  | .finish r => aerase dk r
  | .finishErr r => aerase dk r
  | .clear r => aerase dk r
  | _ => dk

theorem finishTracking_dedupKeys (p : PeerTracker) (r' x : Req) :
    aget (p.finishTracking r').1.dedupKeys x = aget (aerase p.dedupKeys r') x := by
  simp only [PeerTracker.finishTracking]
  split
  · simp [setTracker_dedupKeys]
  · rename_i h
    rw [setTracker_dedupKeys] at h
    simp only [setTracker_dedupKeys, aget_aerase]
    by_cases hx : r' = x
    · subst hx; simp [h]
    · simp [hx]

theorem step_dedupKeys (p : PeerTracker) (o : Op) (x : Req) :
    aget (step p o).1.dedupKeys x = aget (dkStep p.dedupKeys o) x := by
  cases o with
  | dedup r k => simp [step, dkStep, setDedupKey_dedupKeys]
  | ignore r ls => simp [step, dkStep, PeerTracker.ignoreBlocks, setTracker_dedupKeys]
  | skip r n => simp [step, dkStep, PeerTracker.skipFirstBlocks]
  | trav r l b => simp [step, dkStep, traverse_dedupKeys]
  | finish r => simpa [step, dkStep] using finishTracking_dedupKeys p r x
  | finishErr r => simpa [step, dkStep] using finishTracking_dedupKeys p r x
  | clear r => simpa [step, dkStep] using finishTracking_dedupKeys p r x

theorem step_dedupKeys_self (p : PeerTracker) (o : Op) (r : Req) (hne : opReq o ≠ r) :
    aget (step p o).1.dedupKeys r = aget p.dedupKeys r := by
  rw [step_dedupKeys]
  cases o <;> simp only [opReq] at hne <;> simp [dkStep, aget_aset, aget_aerase, hne]

theorem record_missing_other (t : LinkTracker) (r' r : Req) (l : Link) (b : Bool) (hne : r' ≠ r) :
    aget (t.record r' l b).missing r = aget t.missing r := by
  cases b <;> simp [LinkTracker.record, aget_aset, hne]

theorem finishRequest_missing_other (t : LinkTracker) (r' r : Req) (hne : r' ≠ r) :
    aget (t.finishRequest r').1.missing r = aget t.missing r := by
  simp only [LinkTracker.finishRequest]
  cases aget (aerase t.missing r') r' <;> cases h2 : aget t.linksByReq r' <;> simp [aget_aerase, hne, h2]

theorem eff_missing (o : Op) (r : Req) (hne : opReq o ≠ r) (t : LinkTracker) :
    aget (eff o t).missing r = aget t.missing r := by
  cases o with
  | trav r' l b => exact record_missing_other t r' r l b hne
  | ignore r' ls => simp only [eff]; rw [foldl_record_missing]
  | finish r' => exact finishRequest_missing_other t r' r hne
  | finishErr r' => exact finishRequest_missing_other t r' r hne
  | clear r' => exact finishRequest_missing_other t r' r hne
  | dedup r' k => rfl
  | skip r' n => rfl

theorem step_cnt (p : PeerTracker) (o : Op) (r : Req) (hne : opReq o ≠ r) : cnt (step p o).1 r = cnt p r := by
  simp [cnt, step_sentCount p o r hne]

theorem step_skipOf (p : PeerTracker) (o : Op) (r : Req) (hne : opReq o ≠ r) :
    skipOf (step p o).1 r = skipOf p r := by
  simp [skipOf, step_skipFirst p o r hne]

theorem step_missOf (p : PeerTracker) (o : Op) (r : Req) (hne : opReq o ≠ r) :
    missOf (step p o).1 r = missOf p r := by
  cases hd : isDedup o with
  | true =>
    cases o with
    | dedup r' k' =>
      simp only [opReq] at hne
      simp only [missOf, step, (setDedupKey_other p r' r k' hne).1]
    | _ => simp [isDedup] at hd
  | false =>
    simp only [missOf, step_trackerOf p o r hne hd]
    split
    · rw [eff_missing o r hne]
    · rfl

/-! ### lists of environment operations -/

def NotMine (r : Req) (env : List Op) : Prop := ∀ o ∈ env, opReq o ≠ r

theorem runFrom_fst_cons (p : PeerTracker) (o : Op) (os : List Op) :
    (runFrom p (o :: os)).1 = (runFrom (step p o).1 os).1 := by
  simp [runFrom]

theorem runFrom_fst_append (p : PeerTracker) (a b : List Op) :
    (runFrom p (a ++ b)).1 = (runFrom (runFrom p a).1 b).1 := by
  induction a generalizing p with
  | nil => simp [runFrom]
  | cons o os ih => simp only [List.cons_append, runFrom_fst_cons, ih]

theorem env_view (r : Req) (env : List Op) (h : NotMine r env) : ∀ p : PeerTracker,
    cnt (runFrom p env).1 r = cnt p r ∧ skipOf (runFrom p env).1 r = skipOf p r ∧
    missOf (runFrom p env).1 r = missOf p r ∧
    aget (runFrom p env).1.dedupKeys r = aget p.dedupKeys r := by
  induction env with
  | nil => intro p; simp [runFrom]
  | cons o os ih =>
    intro p
    have ho : opReq o ≠ r := h o List.mem_cons_self
    obtain ⟨h1, h2, h3, h4⟩ := ih (fun o' ho' => h o' (List.mem_cons_of_mem _ ho')) (step p o).1
    rw [runFrom_fst_cons]
    exact ⟨by rw [h1, step_cnt p o r ho], by rw [h2, step_skipOf p o r ho], by rw [h3, step_missOf p o r ho],
      by rw [h4, step_dedupKeys_self p o r ho]⟩

/-- the environment stays out of the dedup scope `key` of request `r`: every tracker-touching
operation is by a request whose dedup key (tracked through the operations from the map `dk`) differs. -/
def EnvScopes (r : Req) (key : Option Key) : List (Req × Key) → List Op → Prop
  | _, [] => True
  | dk, o :: os =>
    opReq o ≠ r ∧ (touches o = true → aget dk (opReq o) ≠ key) ∧ joins key o = false ∧
      EnvScopes r key (dkStep dk o) os

instance decEnvScopes (r : Req) (key : Option Key) : ∀ (dk : List (Req × Key)) (env : List Op),
    Decidable (EnvScopes r key dk env)
  | _, [] => isTrue trivial
  | dk, o :: os =>
    have := decEnvScopes r key (dkStep dk o) os
    by unfold EnvScopes; exact inferInstance

/-- `dk` agrees with the peer's dedup-key map on every other request. -/
def Agree (q : PeerTracker) (dk : List (Req × Key)) (r : Req) : Prop :=
  ∀ x, x ≠ r → aget q.dedupKeys x = aget dk x

theorem EnvScopes_notMine {r : Req} {key : Option Key} : ∀ {dk : List (Req × Key)} {env : List Op},
    EnvScopes r key dk env → NotMine r env := by
  intro dk env
  induction env generalizing dk with
  | nil => intro _ o ho; cases ho
  | cons o os ih =>
    intro h o' ho'
    rcases List.mem_cons.mp ho' with rfl | ho'
    · exact h.1
    · exact ih h.2.2.2 o' ho'

theorem dkStep_agree {q : PeerTracker} {dk : List (Req × Key)} {r : Req} (h : Agree q dk r) (o : Op) :
    Agree (step q o).1 (dkStep dk o) r := by
  intro x hx
  rw [step_dedupKeys]
  cases o <;> simp [dkStep, aget_aset, aget_aerase, h x hx]

/-- an environment in other scopes leaves the request's whole view alone. -/
theorem env_other (r : Req) (key : Option Key) (env : List Op) :
    ∀ (q : PeerTracker) (dk : List (Req × Key)), aget q.dedupKeys r = key → Agree q dk r → EnvScopes r key dk env →
      (runFrom q env).1.trackerOf r = q.trackerOf r ∧ aget (runFrom q env).1.dedupKeys r = key ∧
      Agree (runFrom q env).1 (env.foldl dkStep dk) r := by
  induction env with
  | nil => intro q dk hk ha _; exact ⟨by simp [runFrom], by simpa [runFrom] using hk, by simpa [runFrom] using ha⟩
  | cons o os ih =>
    intro q dk hk ha ⟨ho, hsc, hj, hrest⟩
    rw [runFrom_fst_cons]
    have hk' : aget (step q o).1.dedupKeys r = key := by rw [step_dedupKeys_self q o r ho, hk]
    obtain ⟨h1, h2, h3⟩ := ih (step q o).1 (dkStep dk o) hk' (dkStep_agree ha o) hrest
    refine ⟨?_, h2, h3⟩
    rw [h1]
    cases hd : isDedup o with
    | true =>
      cases o with
      | dedup r' k' =>
        simp only [opReq] at ho
        have hold : aget q.dedupKeys r' ≠ aget q.dedupKeys r := by
          rw [ha _ ho, hk]; exact hsc rfl
        have hnew : some k' ≠ aget q.dedupKeys r := by
          rw [hk]; intro e; simp [joins, ← e] at hj
        exact (setDedupKey_other q r' r k' ho).2 hold hnew
      | _ => simp [isDedup] at hd
    | false =>
      rw [step_trackerOf q o r ho hd]
      split
      · rename_i hc
        exact absurd (by rw [← ha _ ho, hc.2, hk]) (hsc hc.1)
      · rfl

theorem EnvScopes_drop {r : Req} {key : Option Key} : ∀ {dk : List (Req × Key)} {a b : List Op},
    EnvScopes r key dk (a ++ b) → EnvScopes r key (a.foldl dkStep dk) b := by
  intro dk a
  induction a generalizing dk with
  | nil => intro b h; exact h
  | cons o os ih => intro b h; exact ih h.2.2.2

theorem EnvScopes_append {r : Req} {key : Option Key} : ∀ {dk : List (Req × Key)} {a b : List Op},
    EnvScopes r key dk (a ++ b) → EnvScopes r key dk a := by
  intro dk a
  induction a generalizing dk with
  | nil => intro _ _; trivial
  | cons o os ih => intro b h; exact ⟨h.1, h.2.1, h.2.2.1, ih h.2.2.2⟩

end GS.C03L
