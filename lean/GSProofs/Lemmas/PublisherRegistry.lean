import GSProofs.Lemmas.PublisherSetMap
namespace GS.Publisher
open SetMap

namespace Registry

/-- registry invariant: both maps well-formed, and inverse relations of each other -/
structure Inv (r : Registry) : Prop where
  wfT : r.topics.WF
  wfR : r.revTopics.WF
  inv : ∀ t s, s ∈ r.topics.get t ↔ t ∈ r.revTopics.get s

/-- `s` is registered on `t` -/
def Mem (r : Registry) (t : Topic) (s : Sub) : Prop := s ∈ r.topics.get t

instance (r : Registry) (t s) : Decidable (r.Mem t s) := by unfold Mem; infer_instance

theorem inv_empty : Inv empty := ⟨wf_nil, wf_nil, by simp [empty, SetMap.get]⟩

theorem mem_iff (r : Registry) (t s) : r.mem t s = true ↔ r.Mem t s := by
  simp [mem, Mem]

theorem mem_eq (r : Registry) (t s) : r.mem t s = decide (r.Mem t s) := by
  rw [Bool.eq_iff_iff]; simp [mem_iff]

theorem not_mem_empty (t s) : ¬ empty.Mem t s := by simp [Mem, empty, SetMap.get]

theorem inv_add {r : Registry} (h : Inv r) (t s) : Inv (r.add t s) where
  wfT := wf_insert h.wfT t s
  wfR := wf_insert h.wfR s t
  inv := by
    intro t' s'
    simp only [add, mem_get_insert, h.inv]
    constructor
    · rintro (⟨a, b⟩ | h); exact Or.inl ⟨b, a⟩; exact Or.inr h
    · rintro (⟨a, b⟩ | h); exact Or.inl ⟨b, a⟩; exact Or.inr h

theorem mem_add (r : Registry) (t s t' s') :
    (r.add t s).Mem t' s' ↔ (t' = t ∧ s' = s) ∨ r.Mem t' s' := by
  simp only [Mem, add, mem_get_insert]

/-- `remove` of a registered pair -/
theorem remove_of_mem {r : Registry} {t s} (h : r.Mem t s) :
    r.remove t s = ({ topics := r.topics.erase t s, revTopics := r.revTopics.erase s t }, [Callback.onClose s t]) := by
  have hk : r.topics.hasKey t = true := by
    rw [hasKey_iff]
    apply Classical.byContradiction
    intro hn
    unfold Mem at h
    rw [get_of_not_key hn] at h
    simp at h
  have hc : (r.topics.get t).contains s = true := by simpa [Mem] using h
  unfold remove
  rw [hk, hc]; rfl

/-- `remove` of an unregistered pair does nothing -/
theorem remove_of_not_mem {r : Registry} {t s} (h : ¬ r.Mem t s) : r.remove t s = (r, []) := by
  have hc : (r.topics.get t).contains s = false := by simpa [Mem] using h
  unfold remove
  rw [hc]
  cases r.topics.hasKey t <;> rfl

theorem inv_remove {r : Registry} (h : Inv r) (t s) : Inv (r.remove t s).1 := by
  by_cases hm : r.Mem t s
  · rw [remove_of_mem hm]
    refine ⟨wf_erase h.wfT t s, wf_erase h.wfR s t, ?_⟩
    intro t' s'
    simp only [mem_get_erase h.wfT, mem_get_erase h.wfR, h.inv]
    constructor
    · rintro ⟨a, b⟩; exact ⟨a, fun ⟨c, d⟩ => b ⟨d, c⟩⟩
    · rintro ⟨a, b⟩; exact ⟨a, fun ⟨c, d⟩ => b ⟨d, c⟩⟩
  · rw [remove_of_not_mem hm]; exact h

theorem mem_remove {r : Registry} (h : Inv r) (t s t' s') :
    (r.remove t s).1.Mem t' s' ↔ r.Mem t' s' ∧ ¬ (t' = t ∧ s' = s) := by
  by_cases hm : r.Mem t s
  · rw [remove_of_mem hm]
    simp only [Mem, mem_get_erase h.wfT]
  · rw [remove_of_not_mem hm]
    constructor
    · intro h'; refine ⟨h', ?_⟩; rintro ⟨a, b⟩; subst a; subst b; exact hm h'
    · exact fun h' => h'.1

theorem out_remove (r : Registry) (t s) :
    (r.remove t s).2 = if r.Mem t s then [Callback.onClose s t] else [] := by
  by_cases hm : r.Mem t s
  · rw [remove_of_mem hm]; simp [hm]
  · rw [remove_of_not_mem hm]; simp [hm]

theorem inv_removeAll {r : Registry} (h : Inv r) (ps) : Inv (r.removeAll ps).1 := by
  induction ps generalizing r with
  | nil => exact h
  | cons p ps ih =>
    obtain ⟨t, s⟩ := p
    simp only [removeAll]
    exact ih (inv_remove h t s)

theorem mem_removeAll {r : Registry} (h : Inv r) (ps : List (Topic × Sub)) (t s) :
    (r.removeAll ps).1.Mem t s ↔ r.Mem t s ∧ (t, s) ∉ ps := by
  induction ps generalizing r with
  | nil => simp [removeAll]
  | cons p ps ih =>
    obtain ⟨t0, s0⟩ := p
    simp only [removeAll]
    rw [ih (inv_remove h t0 s0), mem_remove h]
    simp only [List.mem_cons, Prod.mk.injEq, not_or]
    constructor
    · rintro ⟨⟨a, b⟩, c⟩; exact ⟨a, b, c⟩
    · rintro ⟨a, b, c⟩; exact ⟨⟨a, b⟩, c⟩

theorem proj_append (s t) (a b : List Callback) : proj s t (a ++ b) = proj s t a ++ proj s t b := by
  simp [proj]

theorem proj_out_remove (r : Registry) (t0 s0 s t) :
    proj s t (r.remove t0 s0).2 = if r.Mem t0 s0 ∧ t0 = t ∧ s0 = s then [Callback.onClose s t] else [] := by
  rw [out_remove]
  by_cases hm : r.Mem t0 s0
  · by_cases e : t0 = t ∧ s0 = s
    · obtain ⟨e1, e2⟩ := e; subst e1; subst e2
      simp [hm, proj, Callback.about]
    · have : (s0 == s && t0 == t) = false := by
        rw [Bool.and_eq_false_iff]; simp only [beq_eq_false_iff_ne]
        by_cases e1 : t0 = t
        · exact Or.inl (fun e2 => e ⟨e1, e2⟩)
        · exact Or.inr e1
      simp [hm, e, proj, Callback.about, this]
  · simp [hm, proj]

theorem proj_removeAll {r : Registry} (h : Inv r) (ps : List (Topic × Sub)) (s t) :
    proj s t (r.removeAll ps).2 = if r.Mem t s ∧ (t, s) ∈ ps then [Callback.onClose s t] else [] := by
  induction ps generalizing r with
  | nil => simp [removeAll, proj]
  | cons p ps ih =>
    obtain ⟨t0, s0⟩ := p
    simp only [removeAll]
    rw [proj_append, ih (inv_remove h t0 s0), proj_out_remove]
    simp only [mem_remove h]
    by_cases e : t = t0 ∧ s = s0
    · obtain ⟨e1, e2⟩ := e; subst e1; subst e2
      by_cases hm : r.Mem t s <;> simp [hm]
    · have e' : ¬ (t0 = t ∧ s0 = s) := fun ⟨a, b⟩ => e ⟨a.symm, b.symm⟩
      simp [e, e']

end Registry
end GS.Publisher
