import GSProofs.Lemmas.ConcurrentCleanReq
/-!
Property C20, the "regularity" clauses of `CleanAt` as invariants of the run of ONE request of the
composed system (`GS.Concurrent`), for every schedule of its actions.

`SI i s`: the executor of request `i` satisfies `RI`; no message queued for request `i` carries a failure
status; the responder's run of request `i` has not met a missing root (`rootMiss = false`) and every
depth-0 link still ahead of its cursor is a block the responder holds.  Holds after `start i` from
`initSys` (`SI_start`) and is kept by `resp i` / `deliver i` (`SI_resp`, `SI_deliver`, `SI_run`).
The reports of a request only grow along a run (`run_evs_prefix`), so the completeness clause of
`CleanAt` at the END of a run gives it at every earlier state.
-/
namespace GS.C20
open GS.Loader GS.Requestor GS.LinkTrack GS.Concurrent

structure SI (i : Nat) (s : Sys) : Prop where
  req : ∀ r, s.reqs[i]? = some r → RI r
  chan : ∀ ws w, s.chan[i]? = some ws → w ∈ ws → isFailure w.status = false
  resp : ∀ rr, s.resp[i]? = some rr → rr.rootMiss = false ∧ ∀ m ∈ rr.todo, m.depth = 0 → m.cid ∈ s.rem

/-- a responder step that has not met a missing root and has no unheld depth-0 link ahead queues no
    failure status and stays that way -/
theorem respStep_ok (t : PeerTracker) (rem : List Cid) (i : Nat) (rr : RespRun) (h1 : rr.rootMiss = false)
    (h2 : ∀ m ∈ rr.todo, m.depth = 0 → m.cid ∈ rem) :
    isFailure (respStep t rem i rr).2.2.status = false ∧ (respStep t rem i rr).2.1.rootMiss = false ∧
    ∀ m ∈ (respStep t rem i rr).2.1.todo, m.depth = 0 → m.cid ∈ rem := by
  obtain ⟨todo, active, rootMiss⟩ := rr
  simp only at h1 h2
  subst h1
  unfold respStep
  simp only [Bool.false_eq_true, if_false]
  cases todo with
  | nil =>
    simp only
    generalize t.finishTracking i = ft
    obtain ⟨t', all⟩ := ft
    simp only
    refine ⟨?_, ?_, ?_⟩
    · cases all <;> simp [isFailure]
    · first | rfl | trivial
    · first | (intro m hm; cases hm) | trivial | simp
  | cons n rest =>
    generalize t.traverse i n.cid (rem.contains n.cid) = tr
    obtain ⟨t', send, x⟩ := tr
    simp only
    refine ⟨by decide, ?_⟩
    by_cases hp : rem.contains n.cid = true
    · simp only [hp, if_true]
      refine ⟨by first | rfl | trivial, fun m hm hd => h2 m (List.mem_cons_of_mem _ hm) hd⟩
    · simp only [hp, Bool.false_eq_true, if_false]
      have hd : (n.depth == 0) = false := by
        cases hx : (n.depth == 0) with
        | false => rfl
        | true =>
          exfalso
          apply hp
          have := h2 n List.mem_cons_self (by simpa using hx)
          simpa using this
      refine ⟨hd, fun m hm hd' => h2 m (List.mem_cons_of_mem _ ?_) hd'⟩
      exact (List.dropWhile_sublist _).subset hm

theorem putStore_fields (s : Sys) (i : Nat) (st : List (Cid × Blk)) :
    (putStore s i st).resp = s.resp ∧ (putStore s i st).rem = s.rem ∧ (putStore s i st).chan = s.chan ∧
    (putStore s i st).reqs = s.reqs ∧ (putStore s i st).evs = s.evs ∧ (putStore s i st).lts = s.lts := by
  unfold putStore
  split <;> exact ⟨rfl, rfl, rfl, rfl, rfl, rfl⟩

theorem SI_resp (i : Nat) (s : Sys) (h : SI i s) : SI i (Concurrent.step s (.resp i)) := by
  cases hr : s.resp[i]? with
  | none => rw [resp_noop s i (fun rr hx => by rw [hr] at hx; cases hx)]; exact h
  | some rr =>
    cases ha : rr.active with
    | false =>
      rw [resp_noop s i (fun rr' hx => by rw [hr] at hx; cases hx; exact ha)]; exact h
    | true =>
      rw [resp_eq s i rr hr ha]
      obtain ⟨g1, g2⟩ := h.resp rr hr
      obtain ⟨k1, k2, k3⟩ := respStep_ok s.tracker s.rem i rr g1 g2
      unfold respOut
      refine ⟨h.req, ?_, ?_⟩
      · intro ws w hws hw
        simp only [setAt] at hws
        rcases set_get _ _ _ _ _ hws with ⟨_, rfl⟩ | ⟨hne, _⟩
        · simp only [List.mem_append, List.mem_singleton] at hw
          rcases hw with hw | rfl
          · cases hc : s.chan[i]? with
            | none => simp [List.getD_eq_getElem?_getD, hc] at hw
            | some old =>
              simp only [List.getD_eq_getElem?_getD, hc, Option.getD_some] at hw
              exact h.chan old w hc hw
          · exact k1
        · exact absurd rfl hne
      · intro rr' hrr'
        simp only [setAt] at hrr'
        rcases set_get _ _ _ _ _ hrr' with ⟨_, rfl⟩ | ⟨hne, _⟩
        · exact ⟨k2, k3⟩
        · exact absurd rfl hne

theorem SI_deliver (i : Nat) (s : Sys) (h : SI i s) : SI i (Concurrent.step s (.deliver i)) := by
  cases hr : s.reqs[i]? with
  | none => rw [deliver_noop_req s i hr]; exact h
  | some r =>
    cases hc : s.chan[i]? with
    | none =>
      rw [deliver_noop_chan s i (by rw [List.getD_eq_getElem?_getD, hc]; rfl)]; exact h
    | some l =>
      cases l with
      | nil => rw [deliver_noop_chan s i (by rw [List.getD_eq_getElem?_getD, hc]; rfl)]; exact h
      | cons w ws =>
        rw [deliver_eq s i r w ws hr hc]
        unfold delivOut
        obtain ⟨p1, p2, p3, p4, p5, p6⟩ := putStore_fields s i (reqMsg r (storeOf s i) w).1.L.store
        have hw := h.chan (w :: ws) w hc List.mem_cons_self
        have hri := h.req r hr
        refine ⟨?_, ?_, ?_⟩
        · intro r' hr'
          simp only [setAt] at hr'
          rcases set_get _ _ _ _ _ hr' with ⟨_, rfl⟩ | ⟨hne, _⟩
          · rw [reqMsg_eq]
            exact message_RI (rws r (storeOf s i)) w.status w.md w.blocks ⟨hri.ctx, hri.run⟩ (fun _ => hw)
          · exact absurd rfl hne
        · intro ws' w' hws' hw'
          simp only [setAt] at hws'
          rcases set_get _ _ _ _ _ hws' with ⟨_, rfl⟩ | ⟨hne, _⟩
          · exact h.chan (w :: ws') w' hc (List.mem_cons_of_mem _ hw')
          · exact absurd rfl hne
        · intro rr hrr
          simp only at hrr ⊢
          rw [p1] at hrr
          rw [p2]
          exact h.resp rr hrr

theorem SI_run (i : Nat) : ∀ (τ : List Act) (s : Sys), (∀ a ∈ τ, a = .resp i ∨ a = .deliver i) → SI i s →
    SI i (Concurrent.run s τ)
  | [], _, _, h => h
  | a :: τ, s, hτ, h => by
    have ih := SI_run i τ (Concurrent.step s a) (fun b hb => hτ b (List.mem_cons_of_mem _ hb))
    rcases hτ a List.mem_cons_self with rfl | rfl
    · exact ih (SI_resp i s h)
    · exact ih (SI_deliver i s h)

/-- the request is issued in the initial system -/
theorem SI_start (st : List (Cid × Blk)) (rem : List Cid) (lts : List LT) (keys : List (Option Key)) (i : Nat)
    (hd0 : ∀ lt, lts[i]? = some lt → ∀ m ∈ lt, m.depth = 0 → m.cid ∈ rem) :
    SI i (Concurrent.step (initSys st rem lts keys) (.start i)) := by
  cases hl : lts[i]? with
  | none =>
    have e : Concurrent.step (initSys st rem lts keys) (.start i) = initSys st rem lts keys := by
      simp only [Concurrent.step, initSys, List.getElem?_map, hl, Option.map_none]
    rw [e]
    refine ⟨?_, ?_, ?_⟩
    · intro r hr; simp only [initSys, List.getElem?_map, hl, Option.map_none] at hr; cases hr
    · intro ws w hr; simp only [initSys, List.getElem?_map, hl, Option.map_none] at hr; cases hr
    · intro r hr; simp only [initSys, List.getElem?_map, hl, Option.map_none] at hr; cases hr
  | some lt =>
    have hd := hd0 lt hl
    have hreq : (initSys st rem lts keys).reqs[i]? = some {} := by
      simp only [initSys, List.getElem?_map, hl, Option.map_some]
    have hlt : (initSys st rem lts keys).lts[i]? = some lt := hl
    have hresp : (initSys st rem lts keys).resp[i]? = some {} := by
      simp only [initSys, List.getElem?_map, hl, Option.map_some]
    have hchan : (initSys st rem lts keys).chan[i]? = some [] := by
      simp only [initSys, List.getElem?_map, hl, Option.map_some]
    have hrem : (initSys st rem lts keys).rem = rem := rfl
    generalize initSys st rem lts keys = B at hreq hlt hresp hchan hrem
    simp only [Concurrent.step, hreq, hlt]
    have hph : (({} : Requestor.State).phase != Phase.idle) = false := rfl
    rw [if_neg (by rw [hph]; simp)]
    have hRI : RI (reqStart {} (storeOf B i) lt).1 := by
      rw [reqStart_eq]
      exact request_RI _ lt 0 rfl rfl
    generalize reqStart {} (storeOf B i) lt = rq at hRI
    obtain ⟨r', ev⟩ := rq
    simp only at hRI ⊢
    obtain ⟨p1, p2, p3, p4, p5, p6⟩ := putStore_fields B i r'.L.store
    have hreq' : ∀ r, (setAt B.reqs i r')[i]? = some r → RI r := by
      intro r hr
      simp only [setAt] at hr
      rcases set_get _ _ _ _ _ hr with ⟨_, rfl⟩ | ⟨hne, _⟩
      · exact hRI
      · exact absurd rfl hne
    have hchan' : ∀ ws w, B.chan[i]? = some ws → w ∈ ws → isFailure w.status = false := by
      intro ws w hws hw
      rw [hchan] at hws
      cases hws
      cases hw
    split
    · refine ⟨hreq', ?_, ?_⟩
      · intro ws w hws hw
        simp only at hws
        rw [p3] at hws
        exact hchan' ws w hws hw
      · intro rr hrr
        simp only at hrr ⊢
        rw [p1, hresp] at hrr
        cases hrr
        exact ⟨rfl, fun m hm => by cases hm⟩
    · refine ⟨hreq', ?_, ?_⟩
      · intro ws w hws hw
        simp only at hws
        rw [p3] at hws
        exact hchan' ws w hws hw
      · intro rr hrr
        simp only [setAt] at hrr ⊢
        rcases set_get _ _ _ _ _ hrr with ⟨_, rfl⟩ | ⟨hne, _⟩
        · rw [p2, hrem]
          exact ⟨rfl, hd⟩
        · exact absurd rfl hne

/-! ## the reports of a request only grow -/

theorem getD_set_prefix {α : Type} (l : List (List α)) (i j : Nat) (x : List α) :
    l.getD i [] <+: (l.set j (l.getD j [] ++ x)).getD i [] := by
  by_cases hj : i = j
  · subst hj
    rw [List.getD_eq_getElem?_getD, List.getD_eq_getElem?_getD, getElem?_set_self]
    cases l[i]? with
    | none => exact List.nil_prefix
    | some y => exact List.prefix_append y x
  · rw [getD_set_ne _ _ _ _ _ hj]
    exact List.prefix_refl _

theorem step_evs (s : Sys) (a : Act) :
    (Concurrent.step s a).evs = s.evs ∨ ∃ j x, (Concurrent.step s a).evs = s.evs.set j (s.evs.getD j [] ++ x) := by
  cases a with
  | start j =>
    simp only [Concurrent.step]
    split
    · split
      · exact Or.inl rfl
      · generalize reqStart _ _ _ = rq
        obtain ⟨r', ev⟩ := rq
        simp only
        split
        · exact Or.inr ⟨j, ev, rfl⟩
        · exact Or.inr ⟨j, ev, rfl⟩
    · exact Or.inl rfl
  | resp j =>
    simp only [Concurrent.step]
    split
    · split
      · exact Or.inl rfl
      · exact Or.inl rfl
    · exact Or.inl rfl
  | deliver j =>
    simp only [Concurrent.step]
    split
    · generalize reqMsg _ _ _ = rq
      obtain ⟨r', ev⟩ := rq
      exact Or.inr ⟨j, ev, rfl⟩
    · exact Or.inl rfl

theorem step_evs_prefix (i : Nat) (s : Sys) (a : Act) : s.evs.getD i [] <+: (Concurrent.step s a).evs.getD i [] := by
  rcases step_evs s a with h | ⟨j, x, h⟩
  · rw [h]; exact List.prefix_refl _
  · rw [h]; exact getD_set_prefix _ _ _ _

theorem run_evs_prefix (i : Nat) : ∀ (τ : List Act) (s : Sys), s.evs.getD i [] <+: (Concurrent.run s τ).evs.getD i []
  | [], _ => List.prefix_refl _
  | a :: τ, s => List.IsPrefix.trans (step_evs_prefix i s a) (run_evs_prefix i τ (Concurrent.step s a))

theorem run_append (s : Sys) (a b : List Act) : Concurrent.run s (a ++ b) = Concurrent.run (Concurrent.run s a) b := by
  simp only [Concurrent.run, List.foldl_append]

theorem run_rem : ∀ (ρ : List Act) (x : Sys), (Concurrent.run x ρ).rem = x.rem
  | [], _ => rfl
  | a :: ρ, x => (run_rem ρ (Concurrent.step x a)).trans (step_rem x a)

/-- the completeness clause at the end of a run gives it at every prefix -/
theorem miss_of_end (i : Nat) (s : Sys) (σ τ : List Act) (hτ : τ <+: σ)
    (h : ∀ c p, (c, p) ∈ missingOf ((Concurrent.run s σ).evs.getD i []) → c ∉ (Concurrent.run s σ).rem) :
    ∀ c p, (c, p) ∈ missingOf ((Concurrent.run s τ).evs.getD i []) → c ∉ (Concurrent.run s τ).rem := by
  obtain ⟨t, rfl⟩ := hτ
  intro c p hm
  have hrem : ∀ (ρ : List Act) (x : Sys), (Concurrent.run x ρ).rem = x.rem := by
    intro ρ
    induction ρ with
    | nil => intro x; rfl
    | cons a ρ ih => intro x; exact (ih (Concurrent.step x a)).trans (step_rem x a)
  rw [run_append] at h
  rw [hrem t] at h
  refine h c p ?_
  have hp := run_evs_prefix i t (Concurrent.run s τ)
  unfold missingOf at hm ⊢
  exact (List.IsPrefix.filterMap _ hp).subset hm

end GS.C20
