import GSProofs.Lemmas.RespLifeOutcomeNDef
/-!
Outcome accounting, part 2: the second potential and the steps that leave the publishers alone.
-/
namespace GS.RespLife

-- ------------------------------------------------------------------ getMQ / setMQ
theorem find_replaceMQ (l : List PeerMQ) (q : PeerMQ) (p : Peer) :
    List.find? (fun x => x.peer == p) (l.map fun x => if x.peer == q.peer then q else x) =
      if p = q.peer then (if l.any (·.peer == q.peer) then some q else none)
      else List.find? (fun x => x.peer == p) l := by
  induction l with
  | nil => by_cases hp : p = q.peer <;> simp [hp]
  | cons x xs ih =>
    simp only [List.map_cons, List.find?_cons, List.any_cons]
    by_cases hx : (x.peer == q.peer) = true
    · have hx' : x.peer = q.peer := by simpa using hx
      simp only [hx, if_true, Bool.true_or]
      by_cases hp : p = q.peer
      · subst hp; simp
      · have h1 : (q.peer == p) = false := by simp; exact fun e => hp e.symm
        have h2 : (x.peer == p) = false := by rw [hx']; exact h1
        simp only [h1, h2, hp, if_false]
        rw [ih]; simp [hp]
    · have hx0 : (x.peer == q.peer) = false := by simpa using hx
      simp only [hx0, Bool.false_eq_true, if_false, Bool.false_or]
      by_cases hxp : (x.peer == p) = true
      · have : p ≠ q.peer := by
          intro e; subst e; rw [hxp] at hx0; cases hx0
        simp [hxp, this]
      · simp only [hxp]; exact ih

theorem getMQ_setMQ (s : State) (q : PeerMQ) (p : Peer) :
    getMQ (setMQ s q) p = if p = q.peer then q else getMQ s p := by
  unfold getMQ setMQ
  simp only
  by_cases hany : s.mqs.any (·.peer == q.peer) = true
  · rw [if_pos hany, find_replaceMQ, hany]
    by_cases hp : p = q.peer <;> simp [hp]
  · rw [if_neg hany, List.find?_append]
    have hnone : List.find? (fun x => x.peer == q.peer) s.mqs = none := by
      apply List.find?_eq_none.2
      intro x hx hxp
      exact hany (List.any_eq_true.2 ⟨x, hx, hxp⟩)
    by_cases hp : p = q.peer
    · subst hp; simp [hnone]
    · have : (q.peer == p) = false := by simp; exact fun e => hp e.symm
      cases List.find? (fun x => x.peer == p) s.mqs <;> simp [this, hp]

-- ------------------------------------------------------------------ the second potential
/-- state and `networkError` flag of the response with id `r` -/
def rinfo (r : Id) (s : State) : Option (RState × Bool) := (lookup s r).map fun x => (x.state, x.aux.netErr)

/-- the response is in the table and has not failed on the network -/
def aliveW : Option (RState × Bool) → Nat
  | some (.running, true) => 0
  | some _ => 1
  | none => 0

/-- a `newRequest` for `r` is parked before registration -/
def PN (r : Id) : Option MgrPark → Nat
  | some pk => (match pk.cont with
    | .newReq _ id _ => if id == r then 1 else 0
    | _ => 0)
  | none => 0

def EP (r : Id) (s : State) : Nat := if parkErr r s.park then 1 else aliveW (rinfo r s)

/-- a network error of `r` is reported or confirmed -/
def NF (r : Id) (s : State) : Prop :=
  1 ≤ nerrC r s ∨ ∃ p, 1 ≤ cnfQ r (pend r p s.mailbox) (getMQ s p).pubQ

def SInv (r : Id) (s : State) : Prop :=
  ∀ p, wfQ r (pend r p s.mailbox) (getMQ s p).pubQ = true ∧
    fromN p s.mailbox ≤ (if (getMQ s p).pubWait then 1 else 0)

structure Inv2 (r : Id) (s : State) : Prop where
  sinv : SInv r s
  ne : ∀ st, rinfo r s = some (st, true) → NF r s
  pot0 : cancC r s + EP r s + PN r s.park ≤ regs r s
  potF : NF r s → cancC r s + EP r s + PN r s.park + 1 ≤ regs r s

/-- a step that does not touch the publishers' queues, the publishers' calls in the mailbox or the
    network-error log -/
structure MStep (r : Id) (s s' : State) : Prop where
  nerr : nerrC r s' = nerrC r s
  pub : ∀ p, (getMQ s' p).pubQ = (getMQ s p).pubQ ∧ (getMQ s' p).pubWait = (getMQ s p).pubWait
  mail : ∀ p, pend r p s'.mailbox = pend r p s.mailbox ∧ fromN p s'.mailbox = fromN p s.mailbox
  ne : ∀ st, rinfo r s' = some (st, true) → ∃ st0, rinfo r s = some (st0, true)
  pot : cancC r s' + EP r s' + PN r s'.park + regs r s ≤ cancC r s + EP r s + PN r s.park + regs r s'

theorem MStep.refl (r : Id) (s : State) : MStep r s s :=
  ⟨rfl, fun _ => ⟨rfl, rfl⟩, fun _ => ⟨rfl, rfl⟩, fun st h => ⟨st, h⟩, Nat.le_refl _⟩

theorem MStep.trans {r : Id} {a b c : State} (h1 : MStep r a b) (h2 : MStep r b c) : MStep r a c := by
  refine ⟨h2.nerr.trans h1.nerr, fun p => ⟨(h2.pub p).1.trans (h1.pub p).1, (h2.pub p).2.trans (h1.pub p).2⟩,
    fun p => ⟨(h2.mail p).1.trans (h1.mail p).1, (h2.mail p).2.trans (h1.mail p).2⟩, ?_, ?_⟩
  · intro st h
    obtain ⟨st1, h'⟩ := h2.ne st h
    exact h1.ne st1 h'
  · have := h1.pot
    have := h2.pot
    omega

theorem NF_of_mstep {r : Id} {s s' : State} (h : MStep r s s') : NF r s' ↔ NF r s := by
  unfold NF
  rw [h.nerr]
  constructor
  · rintro (h1 | ⟨p, h1⟩)
    · exact Or.inl h1
    · rw [(h.mail p).1, (h.pub p).1] at h1; exact Or.inr ⟨p, h1⟩
  · rintro (h1 | ⟨p, h1⟩)
    · exact Or.inl h1
    · rw [← (h.mail p).1, ← (h.pub p).1] at h1; exact Or.inr ⟨p, h1⟩

theorem Inv2.mstep {r : Id} {s s' : State} (hi : Inv2 r s) (h : MStep r s s') : Inv2 r s' := by
  have hf := NF_of_mstep h
  refine ⟨?_, ?_, ?_, ?_⟩
  · intro p
    rw [(h.mail p).1, (h.mail p).2, (h.pub p).1, (h.pub p).2]
    exact hi.sinv p
  · intro st hst
    obtain ⟨st0, h0⟩ := h.ne st hst
    exact hf.2 (hi.ne st0 h0)
  · have := h.pot; have := hi.pot0; omega
  · intro hn
    have := h.pot; have := hi.potF (hf.1 hn); omega

/-- `MStep` with an explicit balance: the potential may rise by `up - down` more than the registrations -/
structure MStepK (r : Id) (s s' : State) (up down : Nat) : Prop where
  nerr : nerrC r s' = nerrC r s
  pub : ∀ p, (getMQ s' p).pubQ = (getMQ s p).pubQ ∧ (getMQ s' p).pubWait = (getMQ s p).pubWait
  mail : ∀ p, pend r p s'.mailbox = pend r p s.mailbox ∧ fromN p s'.mailbox = fromN p s.mailbox
  ne : ∀ st, rinfo r s' = some (st, true) → ∃ st0, rinfo r s = some (st0, true)
  pot : cancC r s' + EP r s' + PN r s'.park + regs r s + down ≤ cancC r s + EP r s + PN r s.park + regs r s' + up

theorem MStep.toK {r : Id} {s s' : State} (h : MStep r s s') : MStepK r s s' 0 0 :=
  ⟨h.nerr, h.pub, h.mail, h.ne, by have := h.pot; omega⟩

theorem MStepK.trans {r : Id} {a b c : State} {u1 d1 u2 d2 : Nat} (h1 : MStepK r a b u1 d1)
    (h2 : MStepK r b c u2 d2) : MStepK r a c (u1 + u2) (d1 + d2) := by
  refine ⟨h2.nerr.trans h1.nerr, fun p => ⟨(h2.pub p).1.trans (h1.pub p).1, (h2.pub p).2.trans (h1.pub p).2⟩,
    fun p => ⟨(h2.mail p).1.trans (h1.mail p).1, (h2.mail p).2.trans (h1.mail p).2⟩, ?_, ?_⟩
  · intro st h
    obtain ⟨st1, h'⟩ := h2.ne st h
    exact h1.ne st1 h'
  · have := h1.pot
    have := h2.pot
    omega

theorem MStepK.close {r : Id} {s s' : State} {u d : Nat} (h : MStepK r s s' u d) (hud : u ≤ d) : MStep r s s' :=
  ⟨h.nerr, h.pub, h.mail, h.ne, by have := h.pot; omega⟩

theorem MStepK.weaken {r : Id} {s s' : State} {u d u' d' : Nat} (h : MStepK r s s' u d) (hud : u + d' ≤ u' + d) :
    MStepK r s s' u' d' :=
  ⟨h.nerr, h.pub, h.mail, h.ne, by have := h.pot; omega⟩

/-- nothing the second potential looks at changes -/
theorem MStep.same {r : Id} {s s' : State} (hc : cancC r s' = cancC r s) (hn : nerrC r s' = nerrC r s)
    (hr : regs r s' = regs r s) (hi : rinfo r s' = rinfo r s) (hpn : PN r s'.park = PN r s.park)
    (hpe : parkErr r s'.park = parkErr r s.park)
    (hpub : ∀ p, (getMQ s' p).pubQ = (getMQ s p).pubQ ∧ (getMQ s' p).pubWait = (getMQ s p).pubWait)
    (hmail : ∀ p, pend r p s'.mailbox = pend r p s.mailbox ∧ fromN p s'.mailbox = fromN p s.mailbox) :
    MStep r s s' := by
  refine ⟨hn, hpub, hmail, fun st h => ⟨st, by rw [← hi]; exact h⟩, ?_⟩
  simp only [EP, hc, hr, hi, hpn, hpe]
  exact Nat.le_refl _

theorem mstep_field {r : Id} {s s' : State} (he : s'.events = s.events) (ht : s'.table = s.table)
    (hp : s'.park = s.park) (hm : s'.mailbox = s.mailbox) (hq : s'.mqs = s.mqs) : MStep r s s' := by
  apply MStep.same
  · simp only [cancC, he]
  · simp only [nerrC, he]
  · simp only [regs, he]
  · simp only [rinfo, lookup, ht]
  · rw [hp]
  · rw [hp]
  · intro p
    have : getMQ s' p = getMQ s p := by unfold getMQ; rw [hq]
    rw [this]; exact ⟨rfl, rfl⟩
  · intro p; rw [hm]; exact ⟨rfl, rfl⟩

theorem mstep_setMQ (r : Id) (s : State) (q : PeerMQ) (hq : q.pubQ = (getMQ s q.peer).pubQ)
    (hw : q.pubWait = (getMQ s q.peer).pubWait) : MStep r s (setMQ s q) := by
  apply MStep.same (s' := setMQ s q) <;> try rfl
  · intro p
    rw [getMQ_setMQ]
    split
    · rename_i h; subst h; exact ⟨hq, hw⟩
    · exact ⟨rfl, rfl⟩
  · intro p; exact ⟨rfl, rfl⟩

theorem mstep_updMQ (r : Id) (s : State) (p : Peer) (f : PeerMQ → PeerMQ) (hp : ∀ q, (f q).peer = q.peer)
    (hq : ∀ q, (f q).pubQ = q.pubQ) (hw : ∀ q, (f q).pubWait = q.pubWait) :
    MStep r s (setMQ s (f (getMQ s p))) := by
  apply mstep_setMQ
  · rw [hp, getMQ_peer, hq]
  · rw [hp, getMQ_peer, hw]

theorem rinfo_modAux (r : Id) (s : State) (id : Id) (f : Aux → Aux) (hf : ∀ a, (f a).netErr = a.netErr) :
    rinfo r (modAux s id f) = rinfo r s := by
  unfold rinfo lookup modAux
  rw [lookup_map s id r (fun x => { x with aux := f x.aux }) (fun _ => rfl)]
  cases s.table.find? (·.id == r) with
  | none => rfl
  | some x =>
    simp only [Option.map_some]
    split
    · simp [hf]
    · rfl

theorem mstep_modAux (r : Id) (s : State) (id : Id) (f : Aux → Aux) (hf : ∀ a, (f a).netErr = a.netErr) :
    MStep r s (modAux s id f) := by
  apply MStep.same (s' := modAux s id f) <;> try rfl
  · exact rinfo_modAux r s id f hf
  · intro p; exact ⟨rfl, rfl⟩
  · intro p; exact ⟨rfl, rfl⟩

theorem pend_append (r : Id) (p : Peer) (mb : List Msg) (m : Msg) (h : anyFrom p m = false) :
    pend r p (mb ++ [m]) = pend r p mb ∧ fromN p (mb ++ [m]) = fromN p mb := by
  have h' : closeFrom r p m = false := by
    cases m <;> simp_all [closeFrom, anyFrom]
  simp [pend, fromN, List.any_append, List.countP_append, h, h']

theorem mstep_sendMsg (r : Id) (s : State) (m : Msg) (h : ∀ p, anyFrom p m = false) : MStep r s (sendMsg s m) := by
  apply MStep.same (s' := sendMsg s m) <;> try rfl
  · intro p; exact ⟨rfl, rfl⟩
  · intro p; exact pend_append r p s.mailbox m (h p)

theorem mstep_emit (r : Id) (s : State) (e : Event) (h1 : cancEv r e = false) (h2 : nerrEv r e = false)
    (h3 : regEv r e = false) : MStep r s (emit s e) := by
  apply MStep.same (s' := emit s e) <;> try rfl
  · simp [cancC, emit, List.countP_append, h1]
  · simp [nerrC, emit, List.countP_append, h2]
  · simp [regs, emit, List.countP_append, h3]
  · intro p; exact ⟨rfl, rfl⟩
  · intro p; exact ⟨rfl, rfl⟩

theorem mstep_setWorker (r : Id) (s : State) (w : Nat) (f : Worker → Worker) : MStep r s (setWorker s w f) :=
  mstep_field rfl rfl rfl rfl rfl

theorem mstep_setPhase (r : Id) (s : State) (w : Nat) (ph : WPhase) : MStep r s (setPhase s w ph) :=
  mstep_field rfl rfl rfl rfl rfl

-- ------------------------------------------------------------------ allocator, transactions
theorem mstep_addAlloc (r : Id) (s : State) (p : Peer) (n : Nat) : MStep r s (addAlloc s p n) :=
  mstep_updMQ r s p (fun q => { q with allocated := q.allocated + n }) (fun _ => rfl) (fun _ => rfl) (fun _ => rfl)

theorem mstep_grantTo (r : Id) (s : State) (party : Party) : MStep r s (grantTo s party) := by
  cases party with
  | mgr =>
    apply MStep.same (s' := grantTo s .mgr) <;> try rfl
    · show PN r (s.park.map _) = PN r s.park
      cases s.park <;> rfl
    · show parkErr r (s.park.map _) = parkErr r s.park
      cases s.park <;> rfl
    · intro p; exact ⟨rfl, rfl⟩
    · intro p; exact ⟨rfl, rfl⟩
  | worker w => exact mstep_setWorker r s w _

theorem mstep_grantLoop (r : Id) (fuel : Nat) (s : State) (p : Peer) : MStep r s (grantLoop fuel s p) := by
  induction fuel generalizing s with
  | zero => exact MStep.refl r s
  | succ n ih =>
    unfold grantLoop
    split
    · exact MStep.refl r s
    · rename_i w _
      split
      · have h1 : MStep r s { s with waiting := s.waiting.erase w } := mstep_field rfl rfl rfl rfl rfl
        have h2 := mstep_addAlloc r { s with waiting := s.waiting.erase w } p w.size
        have h3 := mstep_grantTo r (addAlloc { s with waiting := s.waiting.erase w } p w.size) w.party
        exact ((h1.trans h2).trans h3).trans (ih _)
      · exact MStep.refl r s

theorem mstep_release (r : Id) (s : State) (p : Peer) (n : Nat) : MStep r s (release s p n) := by
  unfold release
  simp only
  have h1 : MStep r s { s with underflow := s.underflow || decide ((getMQ s p).allocated < n) } :=
    mstep_field rfl rfl rfl rfl rfl
  have h2 := mstep_updMQ r { s with underflow := s.underflow || decide ((getMQ s p).allocated < n) } p
    (fun q => { q with allocated := q.allocated - n }) (fun _ => rfl) (fun _ => rfl) (fun _ => rfl)
  exact (h1.trans h2).trans (mstep_grantLoop r _ _ p)

theorem mstep_tryAlloc (r : Id) (s : State) (party : Party) (p : Peer) (n : Nat) :
    MStep r s (tryAlloc s party p n).1 := by
  unfold tryAlloc
  split
  · exact mstep_addAlloc r s p n
  · exact mstep_field rfl rfl rfl rfl rfl

theorem mstep_buildNow (r : Id) (s : State) (party : Party) (p : Peer) (id : Id) (ops : List TxOp) :
    MStep r s (buildNow s party p id ops) := by
  unfold buildNow
  simp only
  split
  · split
    · exact mstep_release r s p _
    · exact MStep.refl r s
  · exact mstep_updMQ r s p (fun q => { q with next := some (buildInto s.extLen ((getMQ s p).next.getD {}) id
      (incOf s party id) ops) }) (fun _ => rfl) (fun _ => rfl) (fun _ => rfl)

theorem mstep_execTx (r : Id) (s : State) (party : Party) (p : Peer) (id : Id) (ops : List TxOp) :
    MStep r s (execTx s party p id ops).1 := by
  unfold execTx
  split
  · exact MStep.refl r s
  · simp only
    split
    · exact mstep_buildNow r s party p id ops
    · have h1 := mstep_tryAlloc r s party p (txSize s.extLen ops)
      generalize tryAlloc s party p (txSize s.extLen ops) = pr at h1
      obtain ⟨s1, ok⟩ := pr
      simp only
      split
      · exact h1.trans (mstep_buildNow r s1 party p id ops)
      · exact h1

end GS.RespLife
