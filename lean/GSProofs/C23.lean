import GSProofs.Lemmas.RespLifeAccMgr
import GSProofs.C04
import GSProofs.Lemmas.ReqLifeQueue
/-!
# C23 — Reported request state agrees with the work queue when quiescent   (responder side)

Model: `GS.RespLife`.  `PeerState(p)` of the response manager reports the table entries of `p`
(`State.table`) next to the peer's task-queue topics (`PeerQ.pending`, `PeerQ.active`).

What IS proved here (all for the responder model `GS.RespLife`):
* `agree_partial` — the state part of C23.agree as an INVARIANT: in every quiescent state reachable with
  `new` requests that carry drained ids (`ReachableDrained`), every reported request agrees with its
  peer's task queue (Queued ↔ pending ∧ ¬active, Running ↔ active ∧ ¬pending, Paused / CompletingSend ↔
  neither).  Proof: the lifecycle invariant `LInv` (Lemmas/RespLifeInv.lean) over the abstraction `acc`
  (Lemmas/RespLifeAcc.lean), preserved by every step (Lemmas/RespLifeAccMgr.lean).
  Hypothesis `Drained s id` for a `new` request: no response with this id, no topic with it in any peer's
  task queue, no busy worker with it, no other `new` request with it waiting.  This is the complement of
  the known finding `dup-live-id-queue` (`agree_counterexample_dup` below shows agreement fails without
  it); it is stronger than "not in the table": an id whose response was cancelled while its task was
  still running must not be re-used before that task has been returned (real code handles that case
  since /repo 0bfe189; the harness exercises it, the proof does not cover it).
* `final_partial` — part of C23.final: when every task worker is done no peer has an active topic, and a
  pending topic whose id has a response belongs to a Queued response of that peer.
* `drained_hypothesis_satisfiable` — the hypothesis is not vacuous: a full lifecycle followed by re-use
  of a retired id is a drained run ending quiescent.
* `release_fits` — a `release` that leaves the ghost flag `State.underflow` clear subtracted exactly
  (no truncation); the correspondence driver prints a set flag as a forced divergence, so each run
  checks that release amounts fit.  That the flag is never set is NOT proved.
* `reported_states_well_defined`: one table entry per id, every reported request protected.
* `agree_counterexample_dup`: without the hypothesis agreement fails in a quiescent state.

NOT proved (stated here, checked on every run by the correspondence stream `peerstate` and by the
independent oracle — Diagnostics() empty, state/queue agreement, final Stats):
--   theorem agree_orphans : ReachableDrained c s → quiescent s = true → noOrphanTopics s = true
--     (every pending / active topic has a response; needs the coupling between the terminal statuses
--      queued in message builders, Terminate messages and CompletingSend responses)
--   theorem final : ReachableDrained c s → quiescent s = true → s.table = [] →
--     (∀ q ∈ s.queues, q.pending = [] ∧ q.active = []) ∧ (∀ m ∈ s.mqs, idle m → m.allocated = 0)
--     (proved: active = [] once all workers are done; not proved: pending = [], allocated = 0)
`agree_on_lifecycle` / `final_on_lifecycle` are TESTS of the definitions on one concrete lifecycle.
-/
namespace GS.C23
open GS.RespLife

/-- mailboxes empty, manager not parked, no worker between PopTasks and StartTask or waiting for a
    manager reply, publishers idle -/
def quiescent (s : State) : Bool :=
  s.mailbox.isEmpty && s.park.isNone &&
  s.workers.all (fun w => match w.phase with
    | .atLoader | .inHook _ _ | .blockedTx _ _ _ | .done => true
    | _ => false) &&
  s.mqs.all (fun m => m.pubQ.isEmpty && !m.pubWait)

/-- Queued ↔ pending, Running ↔ active, Paused / CompletingSend in neither; every queue topic has a
    table entry of that peer -/
def agreesStates (s : State) : Bool :=
  s.table.all (fun r =>
    let q := getQ s r.peer
    let pend := q.pending.any (·.1 == r.id)
    let act := q.active.contains r.id
    match r.state with
    | .queued => pend && !act
    | .running => act && !pend
    | _ => !pend && !act)

def noOrphanTopics (s : State) : Bool :=
  s.queues.all (fun q =>
    q.pending.all (fun t => s.table.any (fun r => r.id == t.1 && r.peer == q.peer)) &&
    q.active.all (fun i => s.table.any (fun r => r.id == i && r.peer == q.peer)))

def agrees (s : State) : Bool := agreesStates s && noOrphanTopics s

/-- with fresh ids the table holds at most one entry per request id (so `RequestStates`, a map keyed
    by id, reports every entry), and every reported request holds its connection protection -/
theorem reported_states_well_defined {c : Cfg} {s : State} (h : ReachableFresh c s) :
    (s.table.map (·.id)).Nodup ∧ ∀ r ∈ s.table, (r.peer, r.id) ∈ s.prot := by
  have hinv := pinv_reachable h
  refine ⟨by simpa [pi, keys, List.map_map, Function.comp_def] using hinv.nodupIds, ?_⟩
  intro r hr
  exact (hinv.protIff (r.peer, r.id)).2 (Or.inl (List.mem_map.2 ⟨r, hr, rfl⟩))

-- ------------------------------------------------------------------ C23.agree (state part), proved
theorem find_of_mem_nodup (l : List Resp) (hn : (l.map (·.id)).Nodup) {r : Resp} (hr : r ∈ l) :
    l.find? (·.id == r.id) = some r := by
  induction l with
  | nil => cases hr
  | cons x xs ih =>
    rw [List.map_cons, List.nodup_cons] at hn
    rcases List.mem_cons.1 hr with rfl | hr'
    · simp
    · have hne : x.id ≠ r.id := by
        intro e
        exact hn.1 (e ▸ List.mem_map.2 ⟨r, hr', rfl⟩)
      rw [List.find?_cons]
      have : (x.id == r.id) = false := by simpa using hne
      rw [this]
      exact ih hn.2 hr'

theorem lookup_of_mem {s : State} (hn : (s.table.map (·.id)).Nodup) {r : Resp} (hr : r ∈ s.table) :
    lookup s r.id = some r := find_of_mem_nodup s.table hn hr

/-- what `quiescent` means for the lifecycle abstraction: no StartTask / FinishTask in the mailbox, the
    manager not parked -/
theorem quiescent_acc {s : State} (hq : quiescent s = true) :
    (acc s).starts = [] ∧ (acc s).punp = none := by
  simp only [quiescent, Bool.and_eq_true, List.isEmpty_iff, Option.isNone_iff_eq_none] at hq
  obtain ⟨⟨⟨hm, hp⟩, _⟩, _⟩ := hq
  exact ⟨by simp [acc, hm, starts], punp_none hp⟩

/-- **C23.agree_partial** (state part of `agree`, PROVED).  In every quiescent state that is reachable
    with `new` requests carrying drained ids (`Drained`: no response, no task-queue topic, no busy
    worker, no waiting `new` request with this id — the complement of the known finding
    `dup-live-id-queue`), every reported request agrees with the task queue of its peer:
    Queued ↔ topic pending and not active, Running ↔ active and not pending, Paused / CompletingSend ↔
    neither. -/
theorem agree_partial {c : Cfg} {s : State} (h : ReachableDrained c s) (hq : quiescent s = true) :
    agreesStates s = true := by
  have hi := (linv_reachable h).1
  have hn := (pinv_reachable (reachableFresh_of_drained h)).nodupIds
  have hn' : (s.table.map (·.id)).Nodup := by
    simpa [pi, keys, List.map_map, Function.comp_def] using hn
  obtain ⟨hs0, hu0⟩ := quiescent_acc hq
  have hnows : ∀ i, (acc s).kindAt i ≠ some .waitStart := by
    intro i hk
    have := (hi.startsIff i).2 hk
    rw [hs0] at this; cases this
  unfold agreesStates
  rw [List.all_eq_true]
  intro r hr
  have he : (acc s).ent r.id = some (r.peer, r.state, r.aux.task) := entOf_lookup (lookup_of_mem hn' hr)
  have hE := hi.entry r.id r.peer r.state r.aux.task he
  have hpend : (getQ s r.peer).pending.any (·.1 == r.id) = true ↔ r.id ∈ (acc s).pend r.peer := by
    show _ ↔ r.id ∈ (getQ s r.peer).pending.map (·.1)
    simp [List.any_eq_true, List.mem_map]
  have hact : (getQ s r.peer).active.contains r.id = true ↔ r.id ∈ (acc s).act r.peer := by
    show _ ↔ r.id ∈ (getQ s r.peer).active
    simp
  have hactl := hi.actLive r.peer r.id
  simp only
  cases hst : r.state with
  | queued =>
    rw [hst] at hE
    simp only [Bool.and_eq_true, Bool.not_eq_true', ← Bool.not_eq_true, hpend, hact]
    rcases hE with ⟨h1, h2⟩ | ⟨_, i, _, h3⟩ | ⟨h1, _⟩
    · exact ⟨h1, fun hm => by obtain ⟨i, hli⟩ := hactl.1 hm; exact h2 i hli⟩
    · exact absurd h3 (hnows i)
    · rw [hu0] at h1; cases h1
  | running =>
    rw [hst] at hE
    simp only [Bool.and_eq_true, Bool.not_eq_true', ← Bool.not_eq_true, hpend, hact]
    obtain ⟨h1, i, h2, _⟩ := hE
    exact ⟨hactl.2 ⟨i, h2⟩, h1⟩
  | paused =>
    rw [hst] at hE
    simp only [Bool.and_eq_true, Bool.not_eq_true', ← Bool.not_eq_true, hpend, hact]
    exact ⟨hE.1, fun hm => by obtain ⟨i, hli⟩ := hactl.1 hm; exact hE.2 i hli⟩
  | completing =>
    rw [hst] at hE
    simp only [Bool.and_eq_true, Bool.not_eq_true', ← Bool.not_eq_true, hpend, hact]
    exact ⟨hE.1, fun hm => by obtain ⟨i, hli⟩ := hactl.1 hm; exact hnows i (hE.2 i hli)⟩

/-- **C23.final_partial** (PROVED part of `final`).  In a reachable state (drained ids) in which every
    task worker is done, no peer has an active topic; and a pending topic whose id has a response
    belongs to a Queued response of that very peer.  NOT proved: that a pending topic always has a
    response (needs the coupling between Terminate messages and CompletingSend), and that the
    allocator is back to zero. -/
theorem final_partial {c : Cfg} {s : State} (h : ReachableDrained c s)
    (hw : ∀ w ∈ s.workers, w.phase = .done) :
    (∀ p, (getQ s p).active = []) ∧
    (∀ p id r, id ∈ (getQ s p).pending.map (·.1) → lookup s id = some r → r.peer = p ∧ r.state = .queued) := by
  have hi := (linv_reachable h).1
  have hnl : ∀ i p id, ¬ (acc s).liveW i p id := by
    rintro i p id ⟨k, hk, hkd⟩
    have : (wcore s)[i]? = some (p, id, k) := hk
    simp only [wcore, List.getElem?_map, Option.map_eq_some_iff] at this
    obtain ⟨w, hwi, hwe⟩ := this
    have hd := hw w (List.mem_of_getElem? hwi)
    simp only [Prod.mk.injEq] at hwe
    rw [hd] at hwe
    exact hkd hwe.2.2.symm
  constructor
  · intro p
    cases ha : (getQ s p).active with
    | nil => rfl
    | cons a as =>
      have hm : a ∈ (acc s).act p := by show a ∈ (getQ s p).active; rw [ha]; simp
      obtain ⟨i, hli⟩ := (hi.actLive p a).1 hm
      exact absurd hli (hnl i p a)
  · intro p id r hm hl
    have he := entOf_lookup hl
    have hp : r.peer = p := hi.ownP p id hm _ he
    refine ⟨hp, ?_⟩
    have hE := hi.entry id r.peer r.state r.aux.task he
    rw [hp] at hE
    cases hst : r.state with
    | queued => rfl
    | running => rw [hst] at hE; exact absurd hm hE.1
    | paused => rw [hst] at hE; exact absurd hm hE.1
    | completing => rw [hst] at hE; exact absurd hm hE.1

def cfgA (n : Nat) : ReqCfg := { pri := 1, hook := ⟨.accept, false⟩, n, miss := none, bh := [] }

/-- a new request re-uses the id of a running response of the same peer -/
def dupRunningScript : List Action :=
  [.recv 0 (.new 0 (cfgA 2)), .mgr, .pop 0 0, .mgr, .wstep 0 0,    -- request 0 running, worker at its first block
   .recv 0 (.new 0 (cfgA 2)), .mgr]                                 -- same id again: entry replaced, task push skipped

/-- **C23.agree_counterexample** (ids not fresh): a reachable quiescent state in which the reported
    state (Queued) disagrees with the task queue (topic active, not pending). -/
theorem agree_counterexample_dup :
    ∃ s, Reachable {} s ∧ quiescent s = true ∧ agreesStates s = false :=
  ⟨run (init {}) dupRunningScript, reachable_run Reachable.init _, by decide, by decide⟩

-- ------------------------------------------------------------------ release amounts
theorem underflow_grantTo (s : State) (party : Party) : (grantTo s party).underflow = s.underflow := by
  cases party <;> rfl

theorem underflow_grantLoop (fuel : Nat) (s : State) (p : Peer) : (grantLoop fuel s p).underflow = s.underflow := by
  induction fuel generalizing s with
  | zero => rfl
  | succ n ih =>
    unfold grantLoop
    split
    · rfl
    · split
      · rw [ih, underflow_grantTo]; rfl
      · rfl

/-- **release_fits**: a `release` after which the ghost flag is clear gave back no more than the peer
    had allocated — the `Nat` subtraction did not truncate (and the flag was clear before). -/
theorem release_fits (s : State) (p : Peer) (n : Nat) (h : (release s p n).underflow = false) :
    n ≤ (getMQ s p).allocated ∧ (getMQ s p).allocated - n + n = (getMQ s p).allocated ∧ s.underflow = false := by
  unfold release at h
  simp only at h
  rw [underflow_grantLoop] at h
  have h' : (s.underflow || decide ((getMQ s p).allocated < n)) = false := h
  simp only [Bool.or_eq_false_iff, decide_eq_false_iff_not, Nat.not_lt] at h'
  exact ⟨h'.2, Nat.sub_add_cancel h'.2, h'.1⟩

/-- a full lifecycle with pause, unpause, cancel of a second request, acknowledgements -/
def lifecycle : List Action :=
  [.primer 0, .extract 0,
   .recv 0 (.new 0 { (cfgA 2) with bh := [.pause, .ok] }), .mgr,
   .recv 0 (.new 1 (cfgA 1)), .mgr,
   .pop 0 0, .mgr, .wstep 0 0, .wstep 0 0, .mgr,        -- block 0 sent, paused by the block hook
   .api (.unpause 0 false), .mgr,
   .recv 0 (.cancel 1), .mgr,
   .thaw,                                                -- cancelling a queued task froze the peer
   .pop 0 0, .mgr, .wstep 1 0, .wstep 1 0, .mgr,        -- resumed: block 1, finished
   .net 0 true, .extract 0, .net 0 true, .pub 0, .pub 0, .mgr, .pub 0]

/-- TEST of the definitions (not a proof of the property): agreement holds at every prefix of the
    lifecycle that is quiescent -/
theorem agree_on_lifecycle :
    (List.range (lifecycle.length + 1)).all (fun n =>
      let s := run (init {}) (lifecycle.take n)
      !quiescent s || agrees s) = true := by decide

/-- TEST: at the end everything is retired, nothing is pending, active or allocated -/
theorem final_on_lifecycle :
    let s := run (init {}) lifecycle
    quiescent s = true ∧ s.table = [] ∧ s.queues.all (fun q => q.pending.isEmpty && q.active.isEmpty) = true ∧
      s.mqs.all (fun m => m.allocated == 0) = true := by decide

/-- the lifecycle, then the retired id 0 is used again -/
def lifecycleReuse : List Action := lifecycle ++ [.recv 0 (.new 0 (cfgA 1)), .mgr]

/-- the hypothesis of `agree_partial` is satisfiable by non-trivial runs (including re-use of an id
    after retirement), and no release in this run truncates -/
theorem drained_hypothesis_satisfiable :
    ReachableDrained {} (run (init {}) lifecycleReuse) ∧ quiescent (run (init {}) lifecycleReuse) = true ∧
      (run (init {}) lifecycleReuse).table ≠ [] ∧ (run (init {}) lifecycleReuse).underflow = false :=
  ⟨reachableDrained_run ReachableDrained.init _ (by decide), by decide, by decide, by decide⟩

end GS.C23

/-! # C23, requestor side — the request manager's reported state agrees with its task queue

Model: `GS.ReqLife` (lean/GS/Model/ReqLifecycle.lean, the C04 model of ONE outgoing request: manager steps of
`requestmanager/server.go`, the task-queue worker + executor phases, the `WorkerTaskQueue` as the two
counters `tqPending` / `tqActive`: PushTask in `newRequest` / `unpause`, PopTasks = `wPop`, TaskDone in
`requestTask` for an untracked request and in `releaseRequestTask`).  The observables are defined from the
model state in Lemmas/ReqLifeQueue.lean: `reportedState` (= what the correspondence driver prints as
`ps:…` and the check compares with the real `RequestManager.PeerState`), `taskPending`, `taskActive`
(= the driver's `p=` / `a=`), `Quiescent`.  All theorems hold for EVERY `Reachable` state (all histories of
requests, responses, pauses, cancels, failures and all schedules), by the inductive invariant
`QInv` (Lemmas/ReqLifeQueue.lean) on top of C04's `Inv`.

The property sentence's "queued requests are pending" holds as stated; its converse direction (what
`PeerState.Diagnostics` also checks: every pending task belongs to a Queued request)
--   theorem req_agree_naive : Reachable s → Quiescent s → (reportedState s = some .queued ↔ taskPending s)
is FALSE of the code (`req_agree_stale_counterexample`): `cancelRequest` / a failure status / a response-hook
error on a Queued request terminates it without touching the task queue, so its task stays pending
(stale) until a worker pops it and `requestTask` answers with an empty task + TaskDone.  `req_agree` states
exactly what is true: a pending task belongs to a Queued request or is such a stale task of an ended
request.  (Not fixed in /repo: removing the task would freeze the peer's other requests, see STATUS.md.) -/
namespace GS.C23
open GS.ReqLife

theorem req_reachable_inv {s : GS.ReqLife.State} (h : GS.ReqLife.Reachable s) : Inv s ∧ QInv s :=
  qinv_reachable GS.C04.repairs_present.1 GS.C04.repairs_present.2 h

/-- **req_agree.**  *"Whenever a node is quiescent, each request's reported state agrees with its work
    queue (queued requests are pending, running requests are active, paused and completing requests are in
    neither)"* — requestor side.  In every reachable quiescent state of the request life cycle:
    * the request is reported Queued iff its task is pending and is not the stale task of an ended request;
    * it is reported Running iff its task is active;
    * if it is reported Paused its task is neither pending nor active;
    * if it is not reported (not yet created, or ended) its task is not active, and a pending task is stale
      (`staleTask`: the manager has deleted the request, `reg = gone`). -/
theorem req_agree {s : GS.ReqLife.State} (h : GS.ReqLife.Reachable s) (hq : Quiescent s) :
    (reportedState s = some .queued ↔ (taskPending s ∧ ¬ staleTask s)) ∧
    (reportedState s = some .running ↔ taskActive s) ∧
    (reportedState s = some .paused → ¬ taskPending s ∧ ¬ taskActive s) ∧
    (reportedState s = none → ¬ taskActive s ∧ (taskPending s → staleTask s)) := by
  obtain ⟨hi, hqi⟩ := req_reachable_inv h
  obtain ⟨_, hm, h1, h2, h3⟩ := hq
  exact agree_of_inv hi hqi hm h1 h2 h3

/-- the form `PeerState.Diagnostics` uses, for a request that IS reported: Queued ↔ pending, Running ↔ active,
    Paused → neither -/
theorem req_agree_reported {s : GS.ReqLife.State} (h : GS.ReqLife.Reachable s) (hq : Quiescent s)
    (hr : reportedState s ≠ none) :
    (reportedState s = some .queued ↔ taskPending s) ∧
    (reportedState s = some .running ↔ taskActive s) ∧
    (reportedState s = some .paused → ¬ taskPending s ∧ ¬ taskActive s) := by
  obtain ⟨a, b, c, _⟩ := req_agree h hq
  refine ⟨⟨fun hx => (a.mp hx).1, fun hp => a.mpr ⟨hp, ?_⟩⟩, b, c⟩
  intro hst
  apply hr
  simp [reportedState, hst.1]

/-- in every reachable state (quiescent or not) the request has at most one pending and one active task -/
theorem req_queue_bounds {s : GS.ReqLife.State} (h : GS.ReqLife.Reachable s) : s.tqPending ≤ 1 ∧ s.tqActive ≤ 1 :=
  queue_bounds_of_inv (req_reachable_inv h).2

/-- cancel while Queued (the worker busy elsewhere), then both collectors run to the end -/
def staleTrace : List GS.ReqLife.Action :=
  [.envNew, .mgr, .envCancelApi, .mgr, .ceRecv, .ceSeeClose, .ceDeliver, .ceExit, .cpSeeClose, .cpExit]

/-- the documented exception is real: a reachable quiescent state in which the request has ended (both
    returned channels closed, nothing reported) and its task is still pending. -/
theorem req_agree_stale_counterexample :
    ∃ s, GS.ReqLife.Reachable s ∧ Quiescent s ∧ bothClosed s = true ∧ reportedState s = none ∧ taskPending s ∧
      staleTask s :=
  ⟨_, GS.C04.reachable_of_trace (p := 0) (e := 10) (t := 10) (acts := staleTrace) (by decide), by decide, by decide,
    by decide, by decide, by decide⟩

/-- a request whose two returned channels are closed has been deleted by the manager -/
theorem ended_of_closed {s : GS.ReqLife.State} (h : GS.ReqLife.Reachable s) (he : bothClosed s = true) :
    s.reg = .gone := by
  have hi := (req_reachable_inv h).1
  apply hi.n2
  have : s.cp = .done := by simp [bothClosed] at he; exact he.1
  simp [this, cpNeedsGone]

/-- the caller's view of "ended" (C04.closed_iff_done): each returned channel carries its `close` -/
theorem closed_iff_observed {s : GS.ReqLife.State} (h : GS.ReqLife.Reachable s) :
    bothClosed s = true ↔ (closes s.retP = 1 ∧ closes s.retE = 1) := by
  obtain ⟨a, b⟩ := GS.C04.closed_iff_done h
  simp [bothClosed, a, b]

/-- **req_final.**  *"once all requests have ended the statistics report no active or pending requests"* —
    requestor side.  In every reachable quiescent state in which the request has ended (the manager has
    deleted it; `ended_of_closed`: in particular whenever both returned channels are closed, C04):
    nothing is reported, the worker is idle, no task is active, at most one task is pending, and
    * if no stale task remains, no task is pending;
    * if the stale task remains, a worker can pop it, and after `PopTasks`, `GetRequestTask` and the
      manager's answer (empty task, TaskDone) the state is quiescent again with nothing pending or active. -/
theorem req_final {s : GS.ReqLife.State} (h : GS.ReqLife.Reachable s) (hq : Quiescent s) (he : s.reg = .gone) :
    reportedState s = none ∧ s.w = .idle ∧ ¬ taskActive s ∧ s.tqPending ≤ 1 ∧
    (¬ staleTask s → ¬ taskPending s) ∧
    (staleTask s → ∃ s', run s [.wPop, .wGet, .mgr] = some s' ∧ Quiescent s' ∧ reportedState s' = none ∧
        s'.cp = s.cp ∧ s'.ce = s.ce ∧ ¬ taskPending s' ∧ ¬ taskActive s') := by
  obtain ⟨hi, hqi⟩ := req_reachable_inv h
  have hag := req_agree h hq
  have hb := queue_bounds_of_inv hqi
  obtain ⟨hmb, hm, h1, h2, h3⟩ := hq
  have hrep : reportedState s = none := by simp [reportedState, he]
  have hw : s.w = .idle := by
    have j := hi.j
    cases hw : s.w <;> simp_all [execActive]
  refine ⟨hrep, hw, (hag.2.2.2 hrep).1, hb.1, ?_, ?_⟩
  · intro hn hp; exact hn ⟨he, hp⟩
  · intro hst
    have hp : s.tqPending = 1 := by have := hst.2; omega
    have ha : s.tqActive = 0 := by
      have := (hag.2.2.2 hrep).1; simp only [taskActive] at this; omega
    have hpos : 0 < s.tqPending := hst.2
    simp [run, step, hw, hpos, hm, pushMsg, hmb, handle, he, Quiescent, reportedState, taskPending, taskActive]
    omega

/-- the same with "ended" as the caller observes it -/
theorem req_final_closed {s : GS.ReqLife.State} (h : GS.ReqLife.Reachable s) (hq : Quiescent s)
    (he : bothClosed s = true) (hn : ¬ staleTask s) :
    reportedState s = none ∧ ¬ taskPending s ∧ ¬ taskActive s := by
  obtain ⟨a, _, c, _, d, _⟩ := req_final h hq (ended_of_closed h he)
  exact ⟨a, d hn, c⟩

/-- once the request has ended nothing pushes a task for it again: along every continuation the request
    stays unreported and the number of pending tasks does not grow (so "no stale task" is stable, and by
    `req_agree` nothing is active at any later quiescent point). -/
theorem req_final_stable {s s' : GS.ReqLife.State} {acts : List GS.ReqLife.Action} (h : GS.ReqLife.Reachable s)
    (he : s.reg = .gone) (hr : run s acts = some s') :
    reportedState s' = none ∧ s'.tqPending ≤ s.tqPending := by
  obtain ⟨g, p⟩ := gone_run h (fun hx => (req_reachable_inv hx).1) he hr
  exact ⟨by simp [reportedState, g], p⟩

/-! non-vacuity: quiescent reachable states with a Queued / Running / Paused request, the stale task being
    popped, and a normal completion (tests of the definitions on concrete schedules) -/

def pausedTrace : List GS.ReqLife.Action :=
  [.envNew, .mgr, .wPop, .wGet, .mgr, .envPause, .mgr, .xTop, .xWaitLocal, .xRead true 0 true, .xHook .ok, .xFin1, .mgr]

example : ((run (init 0 10 10) (pausedTrace.take 2)).map fun s =>
    (decide (Quiescent s), reportedState s, s.tqPending, s.tqActive)) = some (true, some .queued, 1, 0) := by decide
example : ((run (init 0 10 10) (pausedTrace.take 5)).map fun s =>
    (decide (Quiescent s), reportedState s, s.tqPending, s.tqActive)) = some (true, some .running, 0, 1) := by decide
example : ((run (init 0 10 10) pausedTrace).map fun s =>
    (decide (Quiescent s), reportedState s, s.tqPending, s.tqActive)) = some (true, some .paused, 0, 0) := by decide
example : ((run (init 0 10 10) (pausedTrace ++ [.envUnpause, .mgr])).map fun s =>
    (decide (Quiescent s), reportedState s, s.tqPending, s.tqActive)) = some (true, some .queued, 1, 0) := by decide
example : ((run (init 0 10 10) (staleTrace ++ [.wPop, .wGet, .mgr])).map fun s =>
    (decide (Quiescent s), reportedState s, s.tqPending, s.tqActive, bothClosed s)) = some (true, none, 0, 0, true) := by decide
example : ((run (init 0 10 10) GS.C04.successTrace).map fun s =>
    (decide (Quiescent s), reportedState s, s.tqPending, s.tqActive, bothClosed s)) = some (true, none, 0, 0, true) := by decide

end GS.C23
