// Package reqmgr drives the real requestmanager.RequestManager (component "reqmgr", property C09).
//
// The harness is the task queue and the executor: `start` pops the request's queued task, calls
// GetRequestTask and (like executor.ExecuteTask) puts the loader online and sends the request;
// `release` does what ExecuteTask does for the given outcome and calls ReleaseRequestTask.  All
// other dependencies are recording fakes (peer handler = outbox, conn manager) or the real hook
// registries with a scripted recording hook.  After every operation the manager's mailbox is
// drained through the synchronous PeerState API (no sleeps).
//
// Oracle (C09, written from the property text): for every request r and every message from a peer
// other than the one r was sent to that carries r's ID, (a) no response hook call for r may be
// attributable to that peer, and (b) the history with those foreign responses deleted must give
// exactly the same observables for r (hook log, outbox, conn manager, queue, channels, state,
// last response seen by block hooks).
package reqmgr

import (
	"bufio"
	"context"
	"errors"
	"fmt"
	"math/rand"
	"sort"
	"strconv"
	"strings"
	"sync"
	"time"

	blocks "github.com/ipfs/go-block-format"
	"github.com/ipfs/go-cid"
	"github.com/ipfs/go-peertaskqueue/peertask"
	"github.com/ipfs/go-peertaskqueue/peertracker"
	"github.com/ipld/go-ipld-prime"
	"github.com/ipld/go-ipld-prime/datamodel"
	"github.com/ipld/go-ipld-prime/linking"
	cidlink "github.com/ipld/go-ipld-prime/linking/cid"
	"github.com/ipld/go-ipld-prime/node/basicnode"
	"github.com/ipld/go-ipld-prime/storage/memstore"
	"github.com/ipld/go-ipld-prime/traversal/selector"
	"github.com/ipld/go-ipld-prime/traversal/selector/builder"
	"github.com/libp2p/go-libp2p/core/peer"
	mh "github.com/multiformats/go-multihash"

	"github.com/ipfs/go-graphsync"
	"github.com/ipfs/go-graphsync/ipldutil"
	"github.com/ipfs/go-graphsync/listeners"
	gsmsg "github.com/ipfs/go-graphsync/message"
	"github.com/ipfs/go-graphsync/messagequeue"
	"github.com/ipfs/go-graphsync/persistenceoptions"
	"github.com/ipfs/go-graphsync/requestmanager"
	"github.com/ipfs/go-graphsync/requestmanager/executor"
	"github.com/ipfs/go-graphsync/requestmanager/hooks"

	"verifharness/reg"
)

func init() {
	reg.Register(&reg.Component{Name: "reqmgr", Gen: Gen, Run: Run})
}

const nPeers = 3
const waitLimit = 5 * time.Second

var errHook = errors.New("hook says no")
var errExec = errors.New("executor failed")

func pid(i int) peer.ID { return peer.ID(fmt.Sprintf("peer%d", i)) }
func peerNum(p peer.ID) int {
	s := string(p)
	if strings.HasPrefix(s, "peer") {
		if n, err := strconv.Atoi(s[4:]); err == nil {
			return n
		}
	}
	return 99
}

func reqID(r int) graphsync.RequestID {
	b := make([]byte, 16)
	b[14] = byte(r >> 8)
	b[15] = byte(r)
	id, err := graphsync.ParseRequestID(b)
	if err != nil {
		panic(err)
	}
	return id
}
func reqNum(id graphsync.RequestID) int {
	b := id.Bytes()
	if len(b) != 16 {
		return -1
	}
	return int(b[14])<<8 | int(b[15])
}

// ---------------------------------------------------------------- fakes

type fakeQueue struct {
	mu      sync.Mutex
	pending []qtask
	active  []qtask
	log     []string
}
type qtask struct {
	p    int
	task peertask.Task
}

func (q *fakeQueue) PushTask(p peer.ID, task peertask.Task) {
	q.mu.Lock()
	defer q.mu.Unlock()
	q.pending = append(q.pending, qtask{peerNum(p), task})
	q.log = append(q.log, fmt.Sprintf("+%d.%d", peerNum(p), reqNum(task.Topic.(graphsync.RequestID))))
}
func (q *fakeQueue) TaskDone(p peer.ID, task *peertask.Task) {
	q.mu.Lock()
	defer q.mu.Unlock()
	for i, t := range q.active {
		if t.p == peerNum(p) && t.task.Topic == task.Topic {
			q.active = append(append([]qtask{}, q.active[:i]...), q.active[i+1:]...)
			break
		}
	}
	q.log = append(q.log, fmt.Sprintf("-%d.%d", peerNum(p), reqNum(task.Topic.(graphsync.RequestID))))
}
func (q *fakeQueue) Remove(t peertask.Topic, p peer.ID) {}
func (q *fakeQueue) Stats() graphsync.RequestStats      { return graphsync.RequestStats{} }
func (q *fakeQueue) WithPeerTopics(p peer.ID, f func(*peertracker.PeerTrackerTopics)) {
	q.mu.Lock()
	defer q.mu.Unlock()
	pt := &peertracker.PeerTrackerTopics{}
	for _, t := range q.pending {
		if t.p == peerNum(p) {
			pt.Pending = append(pt.Pending, t.task.Topic)
		}
	}
	for _, t := range q.active {
		if t.p == peerNum(p) {
			pt.Active = append(pt.Active, t.task.Topic)
		}
	}
	f(pt)
}

// pop the first pending task of request r and make it active
func (q *fakeQueue) pop(r int) (qtask, bool) {
	q.mu.Lock()
	defer q.mu.Unlock()
	for i, t := range q.pending {
		if reqNum(t.task.Topic.(graphsync.RequestID)) == r {
			q.pending = append(append([]qtask{}, q.pending[:i]...), q.pending[i+1:]...)
			q.active = append(q.active, t)
			return t, true
		}
	}
	return qtask{}, false
}
func (q *fakeQueue) takeLog() []string {
	q.mu.Lock()
	defer q.mu.Unlock()
	l := q.log
	q.log = nil
	return l
}
func (q *fakeQueue) lists() (pend, act []string) {
	q.mu.Lock()
	defer q.mu.Unlock()
	for _, t := range q.pending {
		pend = append(pend, fmt.Sprintf("%d.%d", t.p, reqNum(t.task.Topic.(graphsync.RequestID))))
	}
	for _, t := range q.active {
		act = append(act, fmt.Sprintf("%d.%d", t.p, reqNum(t.task.Topic.(graphsync.RequestID))))
	}
	return
}

type outMsg struct {
	to   int
	kind string
	r    int
}

type peerHandler struct {
	mu    sync.Mutex
	log   []outMsg
	total int
	sig   chan struct{}
}

func (ph *peerHandler) AllocateAndBuildMessage(p peer.ID, blkSize uint64, fn func(*messagequeue.Builder)) {
	b := messagequeue.NewBuilder(context.Background(), messagequeue.Topic(0))
	fn(b)
	msg, err := b.Build()
	if err != nil {
		panic(err)
	}
	ph.mu.Lock()
	defer ph.mu.Unlock()
	for _, rq := range msg.Requests() {
		k := "?"
		switch rq.Type() {
		case graphsync.RequestTypeNew:
			k = "n"
		case graphsync.RequestTypeCancel:
			k = "c"
		case graphsync.RequestTypeUpdate:
			k = "u"
		}
		ph.log = append(ph.log, outMsg{peerNum(p), k, reqNum(rq.ID())})
		ph.total++
	}
	select {
	case ph.sig <- struct{}{}:
	default:
	}
}

// waitTotal blocks until at least n messages have ever been recorded
func (ph *peerHandler) waitTotal(n int) bool {
	deadline := time.After(waitLimit)
	for {
		ph.mu.Lock()
		t := ph.total
		ph.mu.Unlock()
		if t >= n {
			return true
		}
		select {
		case <-ph.sig:
		case <-deadline:
			return false
		}
	}
}
func (ph *peerHandler) count() int {
	ph.mu.Lock()
	defer ph.mu.Unlock()
	return ph.total
}
func (ph *peerHandler) take() []outMsg {
	ph.mu.Lock()
	defer ph.mu.Unlock()
	l := ph.log
	ph.log = nil
	return l
}

type connMgr struct {
	mu   sync.Mutex
	log  []string
	tags map[string]int
}

func (c *connMgr) Protect(p peer.ID, tag string) {
	c.mu.Lock()
	defer c.mu.Unlock()
	c.log = append(c.log, fmt.Sprintf("+%d.%d", peerNum(p), c.tags[tag]))
}
func (c *connMgr) Unprotect(p peer.ID, tag string) bool {
	c.mu.Lock()
	defer c.mu.Unlock()
	c.log = append(c.log, fmt.Sprintf("-%d.%d", peerNum(p), c.tags[tag]))
	return false
}
func (c *connMgr) take() []string {
	c.mu.Lock()
	defer c.mu.Unlock()
	l := c.log
	c.log = nil
	return l
}

// ---------------------------------------------------------------- shared fixtures

var (
	fixOnce  sync.Once
	poolBlks []blocks.Block
	rootLink ipld.Link
	selAll   datamodel.Node
	extData  = graphsync.ExtensionData{Name: "verif/ext", Data: basicnode.NewString("e")}
	updData  = graphsync.ExtensionData{Name: "verif/upd", Data: basicnode.NewString("u")}
)

func fixtures() {
	fixOnce.Do(func() {
		for i := 0; i < 8; i++ {
			data := []byte(fmt.Sprintf("verif-block-%d", i))
			h, _ := mh.Sum(data, mh.SHA2_256, -1)
			b, _ := blocks.NewBlockWithCid(data, cid.NewCidV1(cid.Raw, h))
			poolBlks = append(poolBlks, b)
		}
		rootLink = cidlink.Link{Cid: poolBlks[0].Cid()}
		ssb := builder.NewSelectorSpecBuilder(basicnode.Prototype.Any)
		selAll = ssb.ExploreRecursive(selector.RecursionLimitNone(), ssb.ExploreAll(ssb.ExploreRecursiveEdge())).Node()
	})
}

// ---------------------------------------------------------------- the world of one run

type reqSt struct {
	r, p       int
	cancel     context.CancelFunc
	mu         sync.Mutex
	errs       []string
	done       chan struct{} // both returned channels closed
	reported   bool
	task       *qtask
	rt         *executor.RequestTask
	last       interface{ Load() any } // the request's lastResponse (what block hooks are given), known once started
	cancelRets chan string
	nCancels   int
}

type hookCall struct {
	p, r, status int
}

type world struct {
	ctx     context.Context
	stop    context.CancelFunc
	rm      *requestmanager.RequestManager
	q       *fakeQueue
	ph      *peerHandler
	cm      *connMgr
	hmu     sync.Mutex
	hooks   []hookCall
	script  map[[2]int]string
	reqs    map[int]*reqSt
	order   []int
	stuck   bool
	lastSt  map[int]string // request -> state letter at the last snapshot
	orphanC chan string    // returns of CancelRequest calls on unknown requests: "r:res"
}

func errName(err error) string {
	switch e := err.(type) {
	case graphsync.RequestClientCancelledErr:
		return "cc"
	case graphsync.RequestFailedBusyErr:
		return "s31"
	case graphsync.RequestFailedContentNotFoundErr:
		return "s34"
	case graphsync.RequestFailedLegalErr:
		return "s33"
	case graphsync.RequestFailedUnknownErr:
		return "s32"
	case graphsync.RequestCancelledErr:
		return "s35"
	default:
		if err == errHook {
			return "hook"
		}
		if err == errExec {
			return "exec"
		}
		var code int
		if n, _ := fmt.Sscanf(e.Error(), "unknown response status code: %d", &code); n == 1 {
			return fmt.Sprintf("s%d", code)
		}
		return "other(" + strings.ReplaceAll(err.Error(), " ", "_") + ")"
	}
}

func newWorld() *world {
	fixtures()
	w := &world{q: &fakeQueue{}, ph: &peerHandler{sig: make(chan struct{}, 1)}, cm: &connMgr{tags: map[string]int{}}, script: map[[2]int]string{},
		reqs: map[int]*reqSt{}, lastSt: map[int]string{}, orphanC: make(chan string, 64)}
	w.ctx, w.stop = context.WithCancel(context.Background())
	store := &memstore.Store{}
	lsys := cidlink.DefaultLinkSystem()
	lsys.SetReadStorage(store)
	lsys.SetWriteStorage(store)
	lsys.TrustedStorage = true
	rh := hooks.NewResponseHooks()
	rh.Register(func(p peer.ID, rd graphsync.ResponseData, ha graphsync.IncomingResponseHookActions) {
		w.hmu.Lock()
		pn, rn := peerNum(p), reqNum(rd.RequestID())
		w.hooks = append(w.hooks, hookCall{pn, rn, int(rd.Status())})
		sc := w.script[[2]int{pn, rn}]
		w.hmu.Unlock()
		if strings.Contains(sc, "x") {
			ha.UpdateRequestWithExtensions(updData)
		}
		if strings.Contains(sc, "e") {
			ha.TerminateWithError(errHook)
		}
	})
	w.rm = requestmanager.New(w.ctx, persistenceoptions.New(), lsys, hooks.NewRequestHooks(), rh,
		listeners.NewNetworkErrorListeners(), listeners.NewRequestProcessingListeners(), w.q, w.cm, 0, nil)
	w.rm.SetDelegate(w.ph)
	w.rm.Startup()
	return w
}

func (w *world) close() {
	w.rm.Shutdown()
	w.stop()
	for _, rs := range w.reqs {
		rs.cancel()
	}
}

var _ linking.LinkContext

// ---------------------------------------------------------------- operations

type respTok struct {
	id, status, first, count int
	ext                      bool
	hook                     string
}

func parseResp(t string) (respTok, bool) {
	f := strings.Split(t, ":")
	if len(f) != 6 {
		return respTok{}, false
	}
	var n [5]int
	for i := 0; i < 5; i++ {
		v, err := strconv.Atoi(f[i])
		if err != nil || v < 0 {
			return respTok{}, false
		}
		n[i] = v
	}
	if f[5] != "n" && f[5] != "x" && f[5] != "e" && f[5] != "xe" {
		return respTok{}, false
	}
	return respTok{n[0], n[1], n[2], n[3], n[4] != 0, f[5]}, true
}

func (w *world) waitDone(ch <-chan struct{}) bool {
	select {
	case <-ch:
		return true
	case <-time.After(waitLimit):
		w.stuck = true
		return false
	}
}

// do executes one op and returns its direct result ("bad-op" for unparsable lines)
func (w *world) do(op []string) string {
	num := func(i int) (int, bool) {
		if i >= len(op) {
			return 0, false
		}
		v, err := strconv.Atoi(op[i])
		return v, err == nil && v >= 0
	}
	switch op[0] {
	case "new":
		r, ok1 := num(1)
		p, ok2 := num(2)
		if !ok1 || !ok2 || len(op) != 3 || p >= nPeers || w.reqs[r] != nil {
			return "bad-op"
		}
		ctx, cancel := context.WithCancel(context.WithValue(w.ctx, graphsync.RequestIDContextKey{}, reqID(r)))
		w.cm.mu.Lock()
		w.cm.tags[reqID(r).Tag()] = r
		w.cm.mu.Unlock()
		respCh, errCh := w.rm.NewRequest(ctx, pid(p), rootLink, selAll)
		rs := &reqSt{r: r, p: p, cancel: cancel, done: make(chan struct{}), cancelRets: make(chan string, 64)}
		w.order = append(w.order, r)
		w.reqs[r] = rs
		go func() {
			var wg sync.WaitGroup
			wg.Add(2)
			go func() {
				defer wg.Done()
				for range respCh {
				}
			}()
			go func() {
				defer wg.Done()
				for err := range errCh {
					rs.mu.Lock()
					rs.errs = append(rs.errs, errName(err))
					rs.mu.Unlock()
				}
			}()
			wg.Wait()
			close(rs.done)
		}()
		return "ok"
	case "start":
		r, ok := num(1)
		if !ok || len(op) != 2 {
			return "bad-op"
		}
		t, ok := w.q.pop(r)
		if !ok {
			return "notask"
		}
		ch := make(chan executor.RequestTask, 1)
		w.rm.GetRequestTask(pid(t.p), &t.task, ch)
		var rt executor.RequestTask
		select {
		case rt = <-ch:
		case <-time.After(waitLimit):
			w.stuck = true
			return "stuck"
		}
		if rt.Empty {
			return "empty"
		}
		if rs, ok := w.reqs[r]; ok {
			rs.task, rs.rt, rs.last = &t, &rt, rt.LastResponse
		}
		rt.ReconciledLoader.SetRemoteOnline(true)
		w.rm.SendRequest(rt.P, rt.Request)
		return "run"
	case "release":
		r, ok := num(1)
		if !ok || len(op) != 3 || (op[2] != "ok" && op[2] != "paused" && op[2] != "err") {
			return "bad-op"
		}
		rs, ok := w.reqs[r]
		if !ok || rs.rt == nil {
			return "noexec"
		}
		rt, t := rs.rt, rs.task
		rs.rt, rs.task = nil, nil
		var err error
		switch op[2] {
		case "paused":
			err = hooks.ErrPaused{}
		case "err":
			err = errExec
		}
		if err != nil && rt.Ctx.Err() != nil {
			err = ipldutil.ContextCancelError{}
		}
		// the tail of executor.ExecuteTask
		if err != nil && !ipldutil.IsContextCancelErr(err) {
			w.rm.SendRequest(rt.P, gsmsg.NewCancelRequest(rt.Request.ID()))
			rt.ReconciledLoader.SetRemoteOnline(false)
			if _, isPaused := err.(hooks.ErrPaused); !isPaused {
				select {
				case <-rt.Ctx.Done():
				case rt.InProgressErr <- err:
				}
			}
		}
		w.rm.ReleaseRequestTask(pid(t.p), &t.task, err)
		return "ok"
	case "resp":
		q, ok := num(1)
		if !ok {
			return "bad-op"
		}
		var toks []respTok
		seen := map[int]bool{}
		for _, t := range op[2:] {
			rt, ok := parseResp(t)
			if !ok || seen[rt.id] {
				return "bad-op"
			}
			seen[rt.id] = true
			toks = append(toks, rt)
		}
		var rs []gsmsg.GraphSyncResponse
		blkSet := map[int]bool{}
		var blks []blocks.Block
		w.hmu.Lock()
		for _, t := range toks {
			var md []gsmsg.GraphSyncLinkMetadatum
			for i := t.first; i < t.first+t.count; i++ {
				b := poolBlks[i%len(poolBlks)]
				md = append(md, gsmsg.GraphSyncLinkMetadatum{Link: b.Cid(), Action: graphsync.LinkActionPresent})
				if !blkSet[i%len(poolBlks)] {
					blkSet[i%len(poolBlks)] = true
					blks = append(blks, b)
				}
			}
			var exts []graphsync.ExtensionData
			if t.ext {
				exts = append(exts, extData)
			}
			rs = append(rs, gsmsg.NewResponse(reqID(t.id), graphsync.ResponseStatusCode(t.status), md, exts...))
			w.script[[2]int{q, t.id}] = t.hook
		}
		w.hmu.Unlock()
		w.rm.ProcessResponses(pid(q), rs, blks)
		return "ok"
	case "cancel":
		r, ok := num(1)
		if !ok || len(op) != 2 {
			return "bad-op"
		}
		rs := w.reqs[r]
		ret := w.orphanC
		if rs != nil && !rs.reported {
			ret = rs.cancelRets
			rs.nCancels++
		}
		returned := make(chan struct{})
		before := w.ph.count()
		go func() {
			err := w.rm.CancelRequest(w.ctx, reqID(r))
			res := "err"
			if err == nil {
				res = "ok"
			} else if _, nf := err.(graphsync.RequestNotFoundErr); nf {
				res = "nf"
			}
			ret <- fmt.Sprintf("%d:%s", r, res)
			close(returned)
		}()
		// the call itself returns only once the request has terminated (for a running request that
		// is when the executor releases the task).  What tells us that the manager has started to
		// handle it: a cancel message in the outbox if the request is in the table, otherwise the
		// return of the call (RequestNotFoundErr).
		if _, present := w.lastSt[r]; present {
			if !w.ph.waitTotal(before + 1) {
				w.stuck = true
			}
		} else {
			w.waitDone(returned)
		}
		return "ok"
	case "pause", "unpause", "update":
		r, ok := num(1)
		if !ok || len(op) != 2 {
			return "bad-op"
		}
		var err error
		switch op[0] {
		case "pause":
			err = w.rm.PauseRequest(w.ctx, reqID(r))
		case "unpause":
			err = w.rm.UnpauseRequest(w.ctx, reqID(r))
		default:
			err = w.rm.UpdateRequest(w.ctx, reqID(r), updData)
		}
		switch {
		case err == nil:
			return "ok"
		case isNotFound(err):
			return "notfound"
		case err.Error() == "request is not paused":
			return "notpaused"
		case err.Error() == "request is already paused":
			return "alreadypaused"
		}
		return "err(" + err.Error() + ")"
	}
	return "bad-op"
}

// obs is everything observable after one op, already split per request where that makes sense
type obs struct {
	res   string
	hooks []hookCall
	out   []outMsg
	cm    []string
	q     []string
	ch    map[int]string // r -> "err/err/c"
	cr    []string       // "r:ok"
	state map[int]string // r -> "p=s"  (peer, state)
	pend  []string
	act   []string
	last  map[int]string
}

var stLetter = map[graphsync.RequestState]string{graphsync.Queued: "q", graphsync.Running: "r", graphsync.Paused: "p", graphsync.CompletingSend: "c"}

func (w *world) snapshot(res string) *obs {
	o := &obs{res: res, ch: map[int]string{}, state: map[int]string{}, last: map[int]string{}}
	// barrier: PeerState goes through the mailbox, so everything sent before has been handled
	present := map[int]bool{}
	w.lastSt = map[int]string{}
	for p := 0; p < nPeers; p++ {
		ps := w.rm.PeerState(pid(p))
		for id, st := range ps.RequestStates {
			r := reqNum(id)
			present[r] = true
			o.state[r] = fmt.Sprintf("%d=%s", p, stLetter[st])
			w.lastSt[r] = stLetter[st]
		}
	}
	// requests that left the table: their channels are being closed, pending CancelRequest calls return
	for _, r := range w.order {
		rs := w.reqs[r]
		if present[r] || rs.reported {
			continue
		}
		if !w.waitDone(rs.done) {
			o.ch[r] = "stuck"
			rs.reported = true
			continue
		}
		rs.mu.Lock()
		parts := append(append([]string{}, rs.errs...), "c")
		rs.mu.Unlock()
		o.ch[r] = strings.Join(parts, "/")
		for i := 0; i < rs.nCancels; i++ {
			select {
			case s := <-rs.cancelRets:
				o.cr = append(o.cr, s)
			case <-time.After(waitLimit):
				w.stuck = true
				o.cr = append(o.cr, fmt.Sprintf("%d:stuck", r))
			}
		}
		rs.nCancels = 0
		rs.reported = true
	}
	for {
		select {
		case s := <-w.orphanC:
			o.cr = append(o.cr, s)
			continue
		default:
		}
		break
	}
	sort.SliceStable(o.cr, func(i, j int) bool {
		a, _ := strconv.Atoi(strings.SplitN(o.cr[i], ":", 2)[0])
		b, _ := strconv.Atoi(strings.SplitN(o.cr[j], ":", 2)[0])
		return a < b
	})
	w.hmu.Lock()
	o.hooks, w.hooks = w.hooks, nil
	w.hmu.Unlock()
	o.out = w.ph.take()
	o.cm = w.cm.take()
	o.q = w.q.takeLog()
	o.pend, o.act = w.q.lists()
	for _, r := range w.order {
		rs := w.reqs[r]
		if present[r] && rs.last != nil {
			lr := rs.last.Load().(gsmsg.GraphSyncResponse)
			s := strconv.Itoa(int(lr.Status()))
			if _, has := lr.Extension(extData.Name); has {
				s += "x"
			}
			o.last[r] = s
		}
	}
	return o
}

func isNotFound(err error) bool {
	var nf graphsync.RequestNotFoundErr
	return errors.As(err, &nf)
}

func sortedKeys(m map[int]string) []int {
	ks := make([]int, 0, len(m))
	for k := range m {
		ks = append(ks, k)
	}
	sort.Ints(ks)
	return ks
}

func (o *obs) line() string {
	var rh, out, ch, last []string
	for _, h := range o.hooks {
		rh = append(rh, fmt.Sprintf("%d.%d.%d", h.p, h.r, h.status))
	}
	for _, m := range o.out {
		out = append(out, fmt.Sprintf("%d.%s.%d", m.to, m.kind, m.r))
	}
	for _, r := range sortedKeys(o.ch) {
		ch = append(ch, fmt.Sprintf("%d:%s", r, o.ch[r]))
	}
	for _, r := range sortedKeys(o.last) {
		last = append(last, fmt.Sprintf("%d:%s", r, o.last[r]))
	}
	peers := make([]string, nPeers)
	for p := 0; p < nPeers; p++ {
		var rs []string
		for _, r := range sortedKeys(o.state) {
			f := strings.SplitN(o.state[r], "=", 2)
			if f[0] == strconv.Itoa(p) {
				rs = append(rs, fmt.Sprintf("%d=%s", r, f[1]))
			}
		}
		peers[p] = fmt.Sprintf("%d{%s}", p, strings.Join(rs, ","))
	}
	j := func(xs []string) string { return strings.Join(xs, ",") }
	return fmt.Sprintf("%s rh=[%s] out=[%s] cm=[%s] q=[%s] ch=[%s] cr=[%s] st=[%s pend=[%s] act=[%s] last=[%s]]",
		o.res, j(rh), j(out), j(o.cm), j(o.q), j(ch), j(o.cr), strings.Join(peers, " "), j(o.pend), j(o.act), j(last))
}

// view: what observer of request r sees of this op
func (o *obs) view(r int, opReq int) string {
	var parts []string
	if opReq == r {
		parts = append(parts, "res="+o.res)
	}
	for _, h := range o.hooks {
		if h.r == r {
			parts = append(parts, fmt.Sprintf("hook:%d.%d", h.p, h.status))
		}
	}
	for _, m := range o.out {
		if m.r == r {
			parts = append(parts, fmt.Sprintf("out:%d.%s", m.to, m.kind))
		}
	}
	suffix := "." + strconv.Itoa(r)
	for _, s := range o.cm {
		if strings.HasSuffix(s, suffix) {
			parts = append(parts, "cm:"+s)
		}
	}
	for _, s := range o.q {
		if strings.HasSuffix(s, suffix) {
			parts = append(parts, "q:"+s)
		}
	}
	if s, ok := o.ch[r]; ok {
		parts = append(parts, "ch:"+s)
	}
	for _, s := range o.cr {
		if strings.HasPrefix(s, strconv.Itoa(r)+":") {
			parts = append(parts, "cr:"+s)
		}
	}
	if s, ok := o.state[r]; ok {
		parts = append(parts, "st:"+s)
	}
	if s, ok := o.last[r]; ok {
		parts = append(parts, "last:"+s)
	}
	return strings.Join(parts, " ")
}

// runHistory executes a whole case on a fresh manager
func runHistory(ops [][]string) ([]*obs, bool) {
	w := newWorld()
	defer w.close()
	var out []*obs
	for _, op := range ops {
		if w.stuck {
			out = append(out, &obs{res: "stuck", ch: map[int]string{}, state: map[int]string{}, last: map[int]string{}})
			continue
		}
		res := w.do(op)
		if res == "bad-op" {
			out = append(out, &obs{res: "bad-op"})
			continue
		}
		out = append(out, w.snapshot(res))
	}
	return out, w.stuck
}

func opReq(op []string) int {
	switch op[0] {
	case "new", "start", "release", "cancel", "pause", "unpause", "update":
		if len(op) > 1 {
			if v, err := strconv.Atoi(op[1]); err == nil {
				return v
			}
		}
	}
	return -1
}

// ---------------------------------------------------------------- run + oracle

func Run(cases []reg.Case, out *reg.Out) {
	for _, c := range cases {
		out.BeginCase(c)
		runCase(c, out)
	}
}

func runCase(c reg.Case, out *reg.Out) {
	full, stuck := runHistory(c.Ops)
	for i, o := range full {
		out.Cov("op." + c.Ops[i][0])
		if o.res == "bad-op" {
			out.Line("bad-op")
			continue
		}
		out.Cov("res." + o.res)
		out.Line("%s", o.line())
	}
	if stuck {
		out.Fail("stuck", "the manager did not reach the expected quiescent point within %v", waitLimit)
	}
	// ---- oracle C09
	owner := map[int]int{}    // request -> peer it was sent to (first `new`)
	foreign := map[int]bool{} // requests that receive responses from another peer
	newAt := map[int]int{}    // op index of the request's creation
	for i, op := range c.Ops {
		if op[0] == "new" && len(op) == 3 {
			r, _ := strconv.Atoi(op[1])
			p, _ := strconv.Atoi(op[2])
			if _, dup := owner[r]; !dup {
				owner[r], newAt[r] = p, i
			}
		}
	}
	for i, op := range c.Ops {
		if op[0] != "resp" || len(op) < 2 || full[i].res == "bad-op" {
			continue
		}
		q, _ := strconv.Atoi(op[1])
		for _, t := range op[2:] {
			rt, ok := parseResp(t)
			if !ok {
				continue
			}
			if p, known := owner[rt.id]; known && p != q && i > newAt[rt.id] {
				foreign[rt.id] = true
				out.Cov("foreign.status." + strconv.Itoa(rt.status))
				out.Cov("foreign.hook." + rt.hook)
			}
		}
		// (a) direct: a hook call for r attributed to a peer that is not r's.  If r had already ended
		// before this message was processed, that is the known finding (the manager no longer knows
		// whom the ended request belonged to and reports late responses to the hooks: e8dd457);
		// for a request in progress it is a violation.
		for _, h := range full[i].hooks {
			if p, known := owner[h.r]; known && p != h.p && i > newAt[h.r] {
				if endedBefore(full, i, h.r) {
					out.Cov("foreign.after-end.hook")
					out.Fail("hook-after-request-ended", "op %d: request %d (sent to peer %d) had already ended; a response from peer %d carrying its ID still reaches the response hook", i, h.r, p, h.p)
				} else {
					out.Fail("c09-hook", "op %d: response hook called for request %d (sent to peer %d) with a response from peer %d", i, h.r, p, h.p)
				}
			}
		}
	}
	// (b) differential: delete the foreign responses for r, everything about r must be the same
	rs := make([]int, 0, len(foreign))
	for r := range foreign {
		rs = append(rs, r)
	}
	sort.Ints(rs)
	for _, r := range rs {
		var ops2 [][]string
		for i, op := range c.Ops {
			if op[0] == "resp" && len(op) >= 2 && full[i].res != "bad-op" {
				q, _ := strconv.Atoi(op[1])
				if q != owner[r] && i > newAt[r] {
					op2 := []string{op[0], op[1]}
					for _, t := range op[2:] {
						if rt, _ := parseResp(t); rt.id != r {
							op2 = append(op2, t)
						}
					}
					ops2 = append(ops2, op2)
					continue
				}
			}
			ops2 = append(ops2, op)
		}
		ref, _ := runHistory(ops2)
		out.Cov("oracle.differential-runs")
		for i := range c.Ops {
			if full[i].res == "bad-op" {
				continue
			}
			a, b := full[i].view(r, opReq(c.Ops[i])), ref[i].view(r, opReq(c.Ops[i]))
			if a != b && endedBefore(full, i, r) && stripLate(a, owner[r]) == b {
				// only the hook call and the update sent back to that sender, for an ended request:
				// the known finding, already reported by (a)
				continue
			}
			if a != b {
				cls := "c09-effect"
				switch {
				case hookPart(a) != hookPart(b):
					cls = "c09-hook"
				case outPart(a) != outPart(b):
					cls = "c09-outbox"
				}
				out.Fail(cls, "request %d (sent to peer %d): op %d `%s` observes [%s] but [%s] without the other peers' responses for it", r, owner[r], i, strings.Join(c.Ops[i], " "), a, b)
				break
			}
		}
	}
}

// endedBefore: request r is not in the manager's table when op i starts (it was created earlier)
func endedBefore(full []*obs, i, r int) bool {
	if i == 0 || full[i-1].res == "bad-op" {
		return false
	}
	_, present := full[i-1].state[r]
	return !present
}

// stripLate removes from a view the hook calls attributed to peers other than owner and the update
// messages sent to such peers
func stripLate(v string, owner int) string {
	var ps []string
	for _, f := range strings.Fields(v) {
		if strings.HasPrefix(f, "hook:") && !strings.HasPrefix(f, fmt.Sprintf("hook:%d.", owner)) {
			continue
		}
		if strings.HasPrefix(f, "out:") && strings.HasSuffix(f, ".u") && f != fmt.Sprintf("out:%d.u", owner) {
			continue
		}
		ps = append(ps, f)
	}
	return strings.Join(ps, " ")
}

func partsWith(v, prefix string) string {
	var ps []string
	for _, f := range strings.Fields(v) {
		if strings.HasPrefix(f, prefix) {
			ps = append(ps, f)
		}
	}
	return strings.Join(ps, " ")
}
func hookPart(v string) string { return partsWith(v, "hook:") }
func outPart(v string) string  { return partsWith(v, "out:") }

// ---------------------------------------------------------------- generator

var statuses = []int{10, 11, 12, 13, 14, 15, 20, 21, 30, 31, 32, 33, 34, 35, 99}
var hookRes = []string{"n", "n", "n", "x", "e", "xe"}

func genCase(r *rand.Rand, w *bufio.Writer, id string) {
	fmt.Fprintf(w, "case %s\n", id)
	// approximate lifecycle tracking (q queued, r running, p paused, x gone) so that most operations
	// are meaningful; exactness is not needed: every operation is legal in every state
	type rq struct {
		id, p int
		st    string
	}
	var reqs []*rq
	next := 1
	nops := 4 + r.Intn(24)
	pickAny := func() int {
		if len(reqs) == 0 || r.Intn(12) == 0 {
			return 1 + r.Intn(6) // maybe unknown
		}
		return reqs[r.Intn(len(reqs))].id
	}
	pickIn := func(states string) *rq {
		var c []*rq
		for _, q := range reqs {
			if strings.Contains(states, q.st) {
				c = append(c, q)
			}
		}
		if len(c) == 0 {
			return nil
		}
		return c[r.Intn(len(c))]
	}
	for i := 0; i < nops; i++ {
		k := r.Intn(100)
		switch {
		case len(reqs) == 0 || (k < 10 && len(reqs) < 4):
			p := r.Intn(nPeers)
			fmt.Fprintf(w, "new %d %d\n", next, p)
			reqs = append(reqs, &rq{next, p, "q"})
			next++
		case k < 24:
			if q := pickIn("q"); q != nil && r.Intn(6) != 0 {
				fmt.Fprintf(w, "start %d\n", q.id)
				q.st = "r"
			} else {
				fmt.Fprintf(w, "start %d\n", pickAny())
			}
		case k < 36:
			how := []string{"ok", "paused", "paused", "err"}[r.Intn(4)]
			if q := pickIn("r"); q != nil && r.Intn(6) != 0 {
				fmt.Fprintf(w, "release %d %s\n", q.id, how)
				if how == "paused" {
					q.st = "p"
				} else {
					q.st = "x"
				}
			} else {
				fmt.Fprintf(w, "release %d %s\n", pickAny(), how)
			}
		case k < 78:
			// a message: from the owner of a request (genuine) or from another peer (foreign)
			target := reqs[r.Intn(len(reqs))]
			if q := pickIn("qrp"); q != nil && r.Intn(4) != 0 {
				target = q
			}
			q := target.p
			if r.Intn(2) == 0 {
				q = (target.p + 1 + r.Intn(nPeers-1)) % nPeers
			}
			n := 1 + r.Intn(3)
			used := map[int]bool{}
			var toks []string
			for j := 0; j < n; j++ {
				id := target.id
				if j > 0 {
					id = pickAny()
				}
				if used[id] {
					continue
				}
				used[id] = true
				toks = append(toks, fmt.Sprintf("%d:%d:%d:%d:%d:%s", id, statuses[r.Intn(len(statuses))], r.Intn(4), r.Intn(3), r.Intn(2), hookRes[r.Intn(len(hookRes))]))
			}
			fmt.Fprintf(w, "resp %d %s\n", q, strings.Join(toks, " "))
		case k < 84:
			fmt.Fprintf(w, "cancel %d\n", pickAny())
		case k < 89:
			if q := pickIn("rp"); q != nil && r.Intn(4) != 0 {
				fmt.Fprintf(w, "pause %d\n", q.id)
			} else {
				fmt.Fprintf(w, "pause %d\n", pickAny())
			}
		case k < 96:
			if q := pickIn("p"); q != nil && r.Intn(5) != 0 {
				fmt.Fprintf(w, "unpause %d\n", q.id)
				q.st = "q"
			} else {
				fmt.Fprintf(w, "unpause %d\n", pickAny())
			}
		default:
			fmt.Fprintf(w, "update %d\n", pickAny())
		}
	}
}

// Gen: random histories; the thorough tier adds, for one genuine request in each lifecycle state
// (queued / running / paused / cancelled-while-running), every foreign single-response message
// (all statuses x hook outcomes x with/without extension and blocks).
func Gen(seed int64, n int, tier string, w *bufio.Writer) {
	r := rand.New(rand.NewSource(seed))
	for i := 0; i < n; i++ {
		genCase(r, w, fmt.Sprintf("r%d", i))
	}
	prefixes := map[string][]string{
		"queued":  {"new 1 0"},
		"running": {"new 1 0", "start 1"},
		"paused":  {"new 1 0", "start 1", "release 1 paused"},
		"cancld":  {"new 1 0", "start 1", "cancel 1"},
		"requeue": {"new 1 0", "start 1", "release 1 paused", "unpause 1"},
	}
	names := []string{"queued", "running", "paused", "cancld", "requeue"}
	k := 0
	sts := statuses
	if tier != "thorough" {
		sts = []int{14, 20, 32}
	}
	for _, name := range names {
		for _, st := range sts {
			for _, h := range []string{"n", "x", "e", "xe"} {
				for _, extblk := range []string{"0:0:0", "0:2:1"} {
					if tier != "thorough" && (k%3) != 0 {
						k++
						continue
					}
					fmt.Fprintf(w, "case x%d-%s\n%s\nresp 1 1:%d:%s:%s\nresp 0 1:14:0:1:0:n\nstart 1\nrelease 1 ok\n", k, name,
						strings.Join(prefixes[name], "\n"), st, extblk, h)
					k++
				}
			}
		}
	}
}
